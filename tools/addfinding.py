#!/usr/bin/env python3
"""usage: addfinding.py <property> <fixed|known> <commit|-> '<signature json>' '<what failed>'"""
import json, sys
prop, status, commit, sig, what = sys.argv[1:6]
f = '/verif/known_findings.json'
d = json.load(open(f))
e = dict(property=prop, status=status, signature=json.loads(sig), what=what)
if status == 'fixed':
    e['commit'] = commit
    e['record'] = f"fixed: property={prop} {commit} {what}"
d['findings'].append(e)
json.dump(d, open(f, 'w'), indent=1)
print(len(d['findings']), 'entries')
