#!/bin/sh
# usage: tools/applyfix.sh <diff> "<commit message (must start with fix:)>"
set -e
cd /repo
git diff --quiet || { echo "/repo not clean"; exit 2; }
git apply "$1"
if python3 /verif/tools/baseline.py /repo; then
  git add -A && git commit -q -m "$2" && git log -1 --format='committed %h %s'
else
  git checkout -- . ; echo "BASELINE FAILED - reverted"; exit 1
fi
