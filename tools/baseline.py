#!/usr/bin/env python3
"""Run the repository's own test suite on a tree and compare with /root/.vp/BASELINE.json.

usage: baseline.py [tree=/repo]      exit 0 iff every stable_pass test passed (and prints a summary)
"""
import json, os, subprocess, sys, tempfile, xml.etree.ElementTree as ET

tree = os.path.abspath(sys.argv[1] if len(sys.argv) > 1 else "/repo")
base = json.load(open("/root/.vp/BASELINE.json"))
with tempfile.NamedTemporaryFile(suffix=".xml", dir="/var/tmp", delete=False) as f:
    junit = f.name
env = dict(os.environ, PYTHONPATH=os.path.join(tree, "src"))
env.pop("TERM_IMAGE_VERIF", None)
r = subprocess.run(["/venv/bin/python", "-m", "pytest", "-ra", "-q", "-p", "no:cacheprovider", "--timeout=900",
                    "--continue-on-collection-errors", f"--junitxml={junit}"], cwd=tree, env=env,
                   capture_output=True, text=True)
passed = set()
for tc in ET.parse(junit).getroot().iter("testcase"):
    if not any(ch.tag in ("failure", "error", "skipped") for ch in tc):
        passed.add(f"{tc.get('classname')}::{tc.get('name')}")
os.unlink(junit)
stable = set(base["stable_pass"])
missing = sorted(stable - passed)
print(r.stdout.strip().splitlines()[-1])
print(f"stable_pass={len(stable)} passed_now={len(passed)} missing={len(missing)}")
for m in missing[:20]:
    print("  NOT PASSING:", m)
sys.exit(1 if missing else 0)
