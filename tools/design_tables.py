#!/usr/bin/env python3
"""Regenerates the generated tables of DESIGN.md (between <!-- BEGIN:x --> / <!-- END:x --> markers)
from known_findings.json and seeded/*/meta.json."""
import json, os, re
H = os.path.dirname(os.path.dirname(os.path.abspath(__file__)))
d = open(os.path.join(H, "DESIGN.md")).read()

def put(name, text):
    global d
    b, e = f"<!-- BEGIN:{name} -->", f"<!-- END:{name} -->"
    i, j = d.index(b) + len(b), d.index(e)
    d = d[:i] + "\n" + text.rstrip() + "\n" + d[j:]

kf = json.load(open(os.path.join(H, "known_findings.json")))["findings"]
rows = ["| property | status | fix commit in /repo | failing input / history (signature) | what was wrong |", "|---|---|---|---|---|"]
for e in sorted(kf, key=lambda e: e["property"]):
    sig = json.dumps(e["signature"], sort_keys=True).replace("|", "\\|")
    rows.append(f"| {e['property']} | {e['status']} | {e.get('commit', '-')} | `{sig}` | {e['what'].replace('|', chr(92) + '|')} |")
put("findings", "\n".join(rows))

rows = ["| seeded change | what it changes | needs, to manifest | caught by (quick tier) |", "|---|---|---|---|"]
S = os.path.join(H, "seeded")
for n in sorted(os.listdir(S)):
    mp = os.path.join(S, n, "meta.json")
    if os.path.isfile(mp):
        m = json.load(open(mp))
        esc = lambda t: str(t).replace("|", "\\|")
        rows.append(f"| {n} | {esc(m.get('summary', ''))} | {esc(m.get('needs_to_manifest', ''))} | {', '.join(m.get('caught_by', [])) or '**not caught**'} |")
put("seeded", "\n".join(rows))
open(os.path.join(H, "DESIGN.md"), "w").write(d)
print("tables regenerated")
