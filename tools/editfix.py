#!/usr/bin/env python3
"""Apply literal edits to /repo, run the baseline suite, commit as one 'fix:' commit (or revert).

usage: editfix.py <spec.py>   where spec.py defines MESSAGE (str) and EDITS = [(path, old, new), ...]
"""
import subprocess, sys, runpy
spec = runpy.run_path(sys.argv[1])
msg, edits = spec["MESSAGE"], spec["EDITS"]
assert msg.startswith("fix:")
def git(*a, **k):
    return subprocess.run(["git", "-C", "/repo", *a], capture_output=True, text=True, **k)
if git("status", "--porcelain").stdout.strip():
    sys.exit("/repo not clean")
try:
    for path, old, new in edits:
        p = "/repo/" + path
        s = open(p).read()
        if s.count(old) != 1:
            raise SystemExit(f"edit target occurs {s.count(old)} times in {path}: {old[:50]!r}")
        open(p, "w").write(s.replace(old, new))
    r = subprocess.run(["python3", "/verif/tools/baseline.py", "/repo"], capture_output=True, text=True)
    print(r.stdout.strip())
    fl = subprocess.run(["/venv/bin/python", "-m", "flake8", "--max-line-length=88"] + ["/repo/" + e[0] for e in edits],
                        capture_output=True, text=True)
    if fl.stdout.strip():
        print("flake8:", fl.stdout.strip()[:500])
    if r.returncode != 0:
        raise SystemExit("baseline failed")
except SystemExit as e:
    git("checkout", "--", ".")
    print("REVERTED:", e)
    sys.exit(1)
git("add", "-A")
git("commit", "-q", "-m", msg)
print(git("log", "-1", "--format=committed %h %s").stdout.strip())
