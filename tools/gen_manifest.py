#!/usr/bin/env python3
"""Regenerates /verif/MANIFEST.json from the table below + which vlib/props/cXX.py exist."""
import json
import os

HERE = os.path.dirname(os.path.dirname(os.path.abspath(__file__)))

CHECKS = {
    # id: (category, technique, text, note, design_ref)
    "C05": ("exploration",
            "exhaustive product-grid enumeration, differential oracle on a terminal model",
            "Every tuple of (inner render kind x render size x padding x alignment x fill x terminal x screen "
            "tightness) is executed through Padding.pad, Renderable.render(padding=), RenderIterator frames and "
            "old-API format specs; the padded output is interpreted by the terminal model and must equal the inner "
            "render executed alone at the reference offset, with fill (or nothing) elsewhere in exactly the box.",
            "Trusts vlib/vterm.py as the terminal, PIL for building sources; bounds in the evidence file.",
            "DESIGN.md 3/C05"),
    "C14": ("model_checking",
            "stateless preemption-bounded schedule exploration of real threads under a controlled scheduler",
            "Stateless, preemption-bounded exploration of every thread/process schedule of 21 (quick) / 27 (thorough) "
            "harnesses (2-3 threads, 0-2 process starts, fork and spawn semantics, first and second start, grandchild, "
            "nested and real query functions, reply timing) running the real lock_tty, _process_start_wrapper, "
            "_process_run_wrapper, query_terminal/read_tty/write_tty and getter bodies. Scheduling points: every lock "
            "operation and every source line of those frames; a child process is a thread on a second instance of "
            "utils.py. Oracle: critical-section occupancy <= 1 across all simulated processes, no foreign tty call "
            "during a query, every reply consumed by its own caller, no deadlock or exception, lock shared after start.",
            "The fork/spawn process model is trusted and validated by a free-running smoke run with real "
            "multiprocessing on a pty (forkserver only there). Bounds per harness in the evidence; starts from inside "
            "a synchronized call are excluded; atomicity granularity is a source line.",
            "DESIGN.md 3/C14, 2.6"),
    "C15": ("model_checking",
            "explicit-state BFS over operation histories to the fixpoint + preemption-bounded schedule exploration",
            "Explicit-state BFS, to the fixpoint, over histories of {resize, swap toggles, query toggles, "
            "set_cell_ratio FIXED/DYNAMIC/0.5, get_cell_size, get_cell_ratio, get_fg_bg_colors, "
            "get_terminal_name_version, BlockImage render, terminal_size_cached/cached probes and their invalidation} "
            "on the real library against a virtual tty, each transition judged against a nondeterministic reference "
            "model (a memo may be returned only while its condition holds; fresh otherwise); plus all schedules with "
            "<= 2/3 preemptions of concurrent first calls of cached / terminal_size_cached / get_cell_size (also racing "
            "a process start): body runs <= 1 per argument tuple.",
            "Virtual tty and reference model (vlib/c15_model.py) trusted; states merged by implementation state + "
            "model belief, cross-checked by unmerged enumeration; AutoCellRatio.is_supported modelled as the "
            "documented determined-once status; pure pixel changes need not be noticed.",
            "DESIGN.md 3/C15, B.4"),
}

PENDING_REASON = "check not built yet in this round (design in DESIGN.md section 3); not claimed"


def main():
    props = [json.loads(l) for l in open(os.path.join(HERE, "properties.jsonl"))]
    checks, na = [], []
    for p in props:
        pid = p["id"]
        mod = os.path.join(HERE, "vlib", "props", pid.lower() + ".py")
        if pid in CHECKS and os.path.exists(mod):
            cat, tech, text, note, ref = CHECKS[pid]
            checks.append(dict(
                property_id=pid,
                quick_cmd=f"./check {pid} --tier quick",
                thorough_cmd=f"./check {pid} --tier thorough",
                evidence_file=f"/verif/evidence/{pid}.json",
                replay_cmd_template=f"./check {pid} --replay {{path}}",
                engine="vlib",
                level_claimed=dict(category=cat, text=text, design_ref=ref),
                level_note=note,
                technique=tech,
            ))
        else:
            na.append(dict(property_id=pid, reason=PENDING_REASON))
    manifest = dict(
        version=1,
        setup_cmd="./check --selftest",
        hooks=dict(
            guard="TERM_IMAGE_VERIF",
            enable="none needed: the checks import /repo/src as is and substitute module globals (DESIGN 2.1); "
                   "TERM_IMAGE_VERIF=1 is exported by ./check but no source hook reads it",
            baseline_off_cmd="cd /repo && /venv/bin/python -m pytest -ra -q -p no:cacheprovider --timeout=900 "
                             "--continue-on-collection-errors",
            source_commits=[],
            add_only=True,
        ),
        engines=[dict(name="vlib", path="/verif/vlib", serves_properties=[c["property_id"] for c in checks],
                      kind_free_text="hand-written exhaustive explorers for Python (product grids, deviation-bounded "
                                     "choice-tree search, explicit-state BFS over operation histories, controlled "
                                     "thread scheduler) run directly on the implementation, with a terminal model "
                                     "(vterm), a tty device model (vtty) and reference models as oracles")],
        checks=checks,
        not_applicable=na,
        notes="All checks run the real code of /repo/src (imported fresh each run); no model/code gap.",
    )
    with open(os.path.join(HERE, "MANIFEST.json"), "w") as f:
        json.dump(manifest, f, indent=1)
        f.write("\n")
    print(f"MANIFEST: {len(checks)} checks, {len(na)} not claimed")


if __name__ == "__main__":
    main()
