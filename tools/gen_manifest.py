#!/usr/bin/env python3
"""Regenerates /verif/MANIFEST.json from the table below + which vlib/props/cXX.py exist."""
import json
import os

HERE = os.path.dirname(os.path.dirname(os.path.abspath(__file__)))

CHECKS = {
    # id: (category, technique, text, note, design_ref)
    "C05": ("exploration",
            "exhaustive product-grid enumeration, differential oracle on a terminal model",
            "Every tuple of (inner render kind x render size x padding x alignment x fill x terminal x screen "
            "tightness) is executed through Padding.pad, Renderable.render(padding=), RenderIterator frames and "
            "old-API format specs; the padded output is interpreted by the terminal model and must equal the inner "
            "render executed alone at the reference offset, with fill (or nothing) elsewhere in exactly the box.",
            "Trusts vlib/vterm.py as the terminal, PIL for building sources; bounds in the evidence file.",
            "DESIGN.md 3/C05"),
    "C14": ("model_checking",
            "stateless preemption-bounded schedule exploration of real threads under a controlled scheduler",
            "Stateless, preemption-bounded exploration of every thread/process schedule of 21 (quick) / 27 (thorough) "
            "harnesses (2-3 threads, 0-2 process starts, fork and spawn semantics, first and second start, grandchild, "
            "nested and real query functions, reply timing) running the real lock_tty, _process_start_wrapper, "
            "_process_run_wrapper, query_terminal/read_tty/write_tty and getter bodies. Scheduling points: every lock "
            "operation and every source line of those frames; a child process is a thread on a second instance of "
            "utils.py. Oracle: critical-section occupancy <= 1 across all simulated processes, no foreign tty call "
            "during a query, every reply consumed by its own caller, no deadlock or exception, lock shared after start.",
            "The fork/spawn process model is trusted and validated by a free-running smoke run with real "
            "multiprocessing on a pty (forkserver only there). Bounds per harness in the evidence; starts from inside "
            "a synchronized call are excluded; atomicity granularity is a source line.",
            "DESIGN.md 3/C14, 2.6"),
    "C15": ("model_checking",
            "explicit-state BFS over operation histories to the fixpoint + preemption-bounded schedule exploration",
            "Explicit-state BFS, to the fixpoint, over histories of {resize, swap toggles, query toggles, "
            "set_cell_ratio FIXED/DYNAMIC/0.5, get_cell_size, get_cell_ratio, get_fg_bg_colors, "
            "get_terminal_name_version, BlockImage render, terminal_size_cached/cached probes and their invalidation} "
            "on the real library against a virtual tty, each transition judged against a nondeterministic reference "
            "model (a memo may be returned only while its condition holds; fresh otherwise); plus all schedules with "
            "<= 2/3 preemptions of concurrent first calls of cached / terminal_size_cached / get_cell_size (also racing "
            "a process start): body runs <= 1 per argument tuple.",
            "Virtual tty and reference model (vlib/c15_model.py) trusted; states merged by implementation state + "
            "model belief, cross-checked by unmerged enumeration; AutoCellRatio.is_supported modelled as the "
            "documented determined-once status; pure pixel changes need not be noticed.",
            "DESIGN.md 3/C15, B.4"),
    "C06": ("exploration",
            "exhaustive product-grid enumeration of draw() executions on a terminal model",
            "Bounded exhaustive exploration of the real draw() (both APIs) on the terminal model: every tuple of "
            "renderable class / image style x terminal identity x render method x size 1..3x1..3 x padding/alignment x "
            "frames/loops/cache x terminals x every initial cursor row x tty settings, plus the full size-validation "
            "tables (28k draws quick, 545k thorough, 1.5M frame boundaries). Each frame boundary and the final screen "
            "are judged cell by cell against the frame drawn alone at the documented offset on a tagged pre-filled "
            "screen, together with scroll count, cursor position and visibility, and SGR state.",
            "Terminal = vlib/vterm model. ITerm2 WHOLE renders taller than the terminal on iTerm2/WezTerm are excluded "
            "as a documented limitation. Sizes and terminals bounded as stated in the evidence.",
            "DESIGN.md 3/C06"),
    "C07": ("fault_enumeration",
            "exhaustive fault-point enumeration (every write/flush/sleep/render point x every write prefix)",
            "Fault enumeration on the real draw(): for 122/356 configurations (both APIs, 13 style/terminal/method "
            "combinations, still and animated, tty settings, dynamic size, chunked kitty transmissions), every "
            "write/flush/sleep/render point before clean-up x {KeyboardInterrupt, RuntimeError} x {instead, after, "
            "every write prefix x rest lost/buffered}. Judged on cursor visibility, SGR, parser / kitty-chunk / ST "
            "termination, termios attributes, RenderData finalization, image size/tell(), KeyboardInterrupt semantics.",
            "Clean-up boundary decided from the payloads of the fault-free run. Equivalent cut positions inside one "
            "payload are represented by the first and last of the run (always in quick, only for writes over 700 "
            "characters in thorough). Faults at termios calls belong to C13. Faults only at environment-call boundaries.",
            "DESIGN.md 3/C07"),
    "C12": ("exploration",
            "exhaustive choice-tree search over terminal reply schedules x responder configurations",
            "Exhaustive exploration of the real query code (query_terminal/read_tty, get_fg_bg_colors, "
            "get_terminal_name_version, get_cell_size, Kitty/ITerm2/BlockImage.is_supported, auto_image_class, "
            "AutoImage, from_file) against a virtual tty: for every responder configuration (subsets of supported "
            "queries, all 64 width combinations of rgb: replies x value patterns x ST/BEL, identity strings, kitty "
            "replies, DA1 variants, ioctl pixel size present/zero, swap, queries disabled, mute terminal, every order of "
            "the operations) every schedule of the choice tree over atomic replies (1..k replies per wake-up, delay 0 / "
            "1 ms / 0.98 x remaining timeout). An independent reference judges the reported values, that no bytes remain "
            "unread, nothing is echoed, elapsed virtual time <= timeout per query, attributes restored. Replies may also "
            "be queued before the library starts reading (eager delivery at tcdrain), colour replies come in lower / "
            "UPPER / mixed case, and every history of length <= 4/5 over {colours bare / hex=False / hex=True, "
            "name+version, cell size, disable/enable_queries, win-size swap on/off} is compared with the responder "
            "under the settings in force.",
            "Terminal and timing are the vtty model with atomic in-order replies. Identity strings limited to "
            "name(version) / name version. Combinations the docs leave undecided are not judged. Late replies are "
            "outside the premise: only time, no exception and attributes are judged for them.",
            "DESIGN.md 3/C12"),
    "C13": ("fault_enumeration",
            "exhaustive fault enumeration at every environment call of every reply schedule",
            "Fault enumeration on the virtual tty over initial attribute sets (6 quick / 8 thorough) and operations "
            "(query_terminal, read_tty across timeout/min/echo/predicate kinds, read_tty_all, get_cell_size, the "
            "two-phase getters, KittyImage.is_supported, Renderable.draw with echo suppressed): for every reply / "
            "keystroke schedule the fault-free run is judged, then one exception (KeyboardInterrupt / OSError / "
            "termios.error, BrokenPipeError at stdout points) is injected instead of and right after every numbered "
            "environment call (each tty call, the caller's more(), every stdout write/flush/sleep of draw including its "
            "finally block). Oracle: struct termios afterwards == before, byte for byte; and after every execution "
            "(fault-free or faulted at any call, including the restoring tcsetattr) a fixed fault-free read_tty_all() + "
            "DA1 query in the same process must leave the attributes as it finds them.",
            "Faults strike at environment-call boundaries only. Excluded by definition: a fault instead of the restoring "
            "tcsetattr itself. read_tty combinations documented to wait forever are not enumerated. Single faults only.",
            "DESIGN.md 3/C13"),
    "C04": ("exploration",
            "exhaustive product-grid enumeration with an exact rational oracle + explicit-state BFS for the history clause",
            "Every tuple of (family BlockImage/KittyImage x terminal x cell size or cell ratio incl. auto modes x source "
            "size x frame size x mode FIT/AUTO/ORIGINAL/FIT_TO_WIDTH/width=k/height=k/manual x API "
            "set_size/size=/width=/height=/constructor/dynamic rendered_size) is executed on the real sizing code against "
            "a virtual tty and judged by the property stated in exact rational arithmetic; the history clause by "
            "explicit-state BFS to the fixpoint over size setting, resize, cell change, set_cell_ratio and render, plus "
            "all unmerged histories to depth 2/3; UrwidImage.rows() against the rendered canvas.",
            "Bounds in the evidence file; AUTO within half a pixel of the frame accepts either answer (counted); "
            "undetermined cell size = 1x2; cell-size memo staleness left to C15.",
            "DESIGN.md 3/C04"),
    "C19": ("exploration",
            "exhaustive enumeration of all strings up to a length bound against an independent recognizer",
            "All strings up to length 5 (quick) / 6 (thorough) over the 24-character specifier alphabet, all '#'-strings "
            "up to 8 / 9 characters over a 7-character alphabet, the full field-menu product and every single-character "
            "edit, each through the real _check_format_spec of BlockImage, KittyImage and ITerm2Image, judged by an "
            "independent recursive-descent recognizer/interpreter of the documented grammar (acceptance, error class, "
            "interpretation, no class-state change); accepted product and short sentences additionally through format() "
            "== explicit composition == draw(), ImageIterator and UrwidImage.",
            "Reference written from formatting.rst and the class docstrings; '+' needs a non-empty style; height 0 = "
            "full terminal height (as draw(pad_height=0)); the hex-colour field is reached only by the menu and '#' families.",
            "DESIGN.md 3/C19"),
    "C20": ("model_checking",
            "explicit-state BFS to the fixpoint over set/unset histories on dynamically built class trees",
            "For each program (KittyImage/ITerm2Image/BlockImage root x every subclass tree of <= 3 classes built with "
            "type() x setting group x background of other settings), BFS to the fixpoint over set / unset / invalid / "
            "instance-level operations on every class and instance; each transition is replayed on freshly reset classes "
            "and the complete observable snapshot (all settings at all nodes, the library's sibling classes, the global "
            "limit) is compared with an override-map reference; each state is rendered and the kitty/iterm2 framing and "
            "payload decoded by the terminal model must follow the effective values and per-call overrides.",
            "States deduplicated by the raw override attributes; class-wide render method read through the renderer's "
            "own attribute lookup and confirmed by renders; mixed interleavings and unmerged histories to bounded depth.",
            "DESIGN.md 3/C20, B.3"),
    "C01": ("exploration",
            "exhaustive product-grid enumeration; every render executed at every fitting cursor position on a terminal model",
            "Unions of full products (geometry: identity x method x mix x blend x every size in cells x every cell size; "
            "payload: alpha x source x z x compress x jpeg x read_from_file x source kind; format()/str() entry points; "
            "automatic sizing) are rendered by the real block/kitty/iterm2 renderers. Every distinct render string is "
            "executed on the terminal model at every (row, anchor column) where its rectangle fits on every screen "
            "(w..w+2/3) x (h..h+2/3): it must touch exactly the rectangle, never wrap or scroll, end on the last line "
            "just past the last column, reset attributes, leave no sequence incomplete, and contain h-1 newlines. "
            "Additionally every frame of a cached or uncached ImageIterator under every schedule of at most 1 (quick) / "
            "2 (thorough) terminal resizes between frames must occupy the rectangle rendered_size advertises.",
            "Trusts vlib/vterm.py (anchored line-start semantics, DESIGN 2.2) and PIL for the sources. The world "
            "terminal is fixed at 20x10 for manual sizes. A dropped per-line SGR reset is not observable under this "
            "statement (it is under C05).",
            "DESIGN.md 3/C01"),
    "C02": ("exploration",
            "exhaustive enumeration of all images over a pixel alphabet up to a width bound, per-pixel reference oracle",
            "Every one-line image of width 1..3 cells (thorough: 8-value pixel alphabet, width 4 over 4 values; quick: "
            "5 values) and every 2-line x 2-cell image over 3 values is rendered under every alpha setting x terminal "
            "background {known, known with r=255, unknown} x kitty workaround on/off x split_cells. Every cell half "
            "shown by the terminal model must equal a per-pixel reference (opaque RGB, composite over the requested or "
            "terminal colour, terminal default below the threshold, red +-1 for the documented kitty workaround). Plus "
            "ten source modes pixel for pixel, uniform sources through the resampling path at every size 1..6 x 1..4, "
            "and the str()/format() entry points.",
            "PIL mode conversion, 1-pixel alpha_composite and BOX resize are a trusted base. Threshold read as alpha < "
            "round(t*255). An unknown terminal background composites over black.",
            "DESIGN.md 3/C02"),
    "C03": ("exploration",
            "exhaustive enumeration of every payload length / render configuration, protocol decoder as oracle",
            "Transmission.get_chunks() is run for every payload length 0..9300 (thorough 0..13000) x compression level x "
            "payload kind, checked against the framing rules of the statement and reassembled by the terminal model's "
            "decoder. Kitty lines/whole and iterm2 lines/whole/anim renders over sources on and around the 3072-byte "
            "boundary, mixed-compressibility sources, small sources and all relevant modes, x cell sizes x sizes in "
            "cells x compress x alpha x z/mix/blend x jpeg x read_from_file x source kind are decoded end to end: "
            "stitched pixels compared byte for byte with PIL's convert/resize(BOX)/composite at the transmitted "
            "resolution; size= must equal the payload length; native animations and read-from-file payloads must be the "
            "untouched file exactly when the documented gate applies.",
            "Decoder: vlib/vterm.py. PIL codecs and resampling are a trusted base. JPEG payloads judged on format, mode "
            "and dimensions only. WHOLE may transmit either the render resolution or the source resolution.",
            "DESIGN.md 3/C03"),
    "C11": ("model_checking",
            "explicit-state BFS over operation histories x exhaustive single-fault enumeration at every library-to-PIL call",
            "Model checking with fault enumeration: explicit-state BFS over histories of {format, str, still / animated / "
            "interrupted / invalid draw, iterator create/next/seek/close/drop, image close/seek/n_frames, fixed/dynamic "
            "size, terminal resize} on the real classes, over path / PIL / in-memory / loopback-URL sources (GIF, APNG, "
            "PNG) x Block/Kitty/iTerm2(wezterm, konsole) x repeat {1,2,-1} x format specs x cached {False,True,<n,>=n}; "
            "exactly one PIL failure is injected at every index of every operation. Depths 3-5 with faults, to the "
            "fixpoint (depth <= 14) without, two iterators to depth 6, plus a 182-case constructor product (404/500/"
            "non-image/empty/refused URL, bad files, bad kwargs, unsupported style). Frames are compared with format() "
            "of an independent twin, tell() with a reference model, resources with explicitly tracked opens "
            "(harness-held references), /proc/self/fd, the library temp dir, close() calls on the caller's image and "
            "the size setting. State merging validated by plain enumeration to depth 3.",
            "Bounded by depth except the fixpoint configurations; one fault per history at library-to-PIL call "
            "boundaries; PIL and requests (against a loopback server) trusted.",
            "DESIGN.md 3/C11, B.5"),
    "C16": ("model_checking",
            "programs x explicit-state BFS over operator histories against a dict-based reference model",
            "Bounded-exhaustive model checking on the real implementation: every rooted tree of <= 4 render classes (up "
            "to isomorphism) x every subset of ArgsNamespace owners (+ a 2-field owner, + a field-inheriting namespace "
            "subclass) x eager/lazy interning of defaults; from the pool of default objects every history of <= 3 (quick; "
            "depth 2 on the largest programs) / 4 (thorough, <= 2 owners) operations of the full constructor / update / "
            "convert / | / + / to_render_args / ns.update / Args() alphabet is executed. Each transition is judged by a "
            "dict-based reference model for value / acceptance / documented error, by == / hash / [] / in laws, and by "
            "before/after snapshots of every pre-existing object, every interned default and every class table. Plus "
            "the full product of args/data owner subsets (4823 class tables) and a menu of malformed namespace class "
            "definitions.",
            "States merged by object value + interned bits with RenderArgs._interned rewound between branches; guarded "
            "by linear re-execution of every violation on fresh classes and by unmerged enumeration of all short "
            "histories. Out of scope: render classes with several render bases (diamonds); more than one mixin, or mixins on more than one class of the tree; RenderArgs subclasses; non-int / non-tuple field values.",
            "DESIGN.md 3/C16, B.2"),
    "C17": ("exploration",
            "exhaustive product-grid enumeration: every sub-rectangle of every canvas, differential oracle on a terminal model",
            "Exhaustive product grid on the real UrwidImage / UrwidImageCanvas: source images with all-distinct pixels "
            "and transparency/run patterns x {block@other, block@kitty, kitty LINES@kitty/konsole, iterm2 "
            "LINES@iterm2/wezterm/konsole} x box and flow widget sizes x 3x3 alignment x upscale x 4 alpha settings x "
            "disguise states; for every canvas EVERY sub-rectangle is requested (1.8M trims quick, 33.7M thorough). Each "
            "returned row is executed alone on the terminal model: exactly `cols` columns, no wrap, SGR default at the "
            "end, cell-for-cell equal halves/colours to the crop of the untrimmed canvas (text), verbatim lines / blank "
            "cells (graphics), exact row count, rows((c,)) equals rendered rows; the untrimmed canvas is cross-checked "
            "against format(image, spec).",
            "LINES method only for graphics; widths <= 10, heights <= 7, images <= 6x4 cells; vterm is the terminal.",
            "DESIGN.md 3/C17"),
    "C18": ("model_checking",
            "explicit-state BFS over scene-transition histories, differential oracle (incremental vs. fresh redraw)",
            "Explicit-state BFS over scene-transition histories executed on real urwid widgets (Pile / ListBox / Columns "
            "/ Overlay / BoxAdapter / SolidFill / bare image) and a real UrwidImageScreen whose output feeds a "
            "persistent terminal model; transitions {move/toggle/retarget overlay, scroll, switch layout, image<->text, "
            "delete+gc, create, clear(), stop/start, redraw}; identities kitty/konsole/other; depth 3 (quick) / 4 "
            "(thorough). Differential oracle: placements and visible text cells must equal a fresh screen drawing only "
            "the final canvas; one synchronized-update bracket per redraw, flushed; no placement after start/stop/clear; "
            "distinct in-range z-indexes; no exception. Plus BFS of the z-index allocator from states seeded at the "
            "2^31 limit.",
            "State merging guarded by an unmerged enumeration. iterm2-as-cell-content terminals, resize and the WHOLE "
            "method are not covered; urwid 2.6.16 as installed.",
            "DESIGN.md 3/C18"),
    "C08": ("model_checking",
            "explicit-state BFS over iterator operation histories to the fixpoint against a reference model of the docs",
            "Explicit-state BFS over histories of {next, seek(o, START|CURRENT|END), set_frame_duration, set_padding "
            "(exact, aligned absolute, aligned terminal-relative), set_render_args (compatible / incompatible), "
            "set_render_size, close, read loop} on real RenderIterators (definite 2-3 frames and INDEFINITE streams, loops "
            "in {-1,1,2}, cache False/True/n-1/n, static and DYNAMIC duration), each transition replayed on fresh real "
            "objects and compared with a reference model written from the documentation: yielded Frame (number, "
            "duration, size, output), loop countdown, raised exception type, state unchanged after a rejected operation, "
            "renderable.tell() untouched, pending seeks of INDEFINITE sources handed over exactly once. Runs to the "
            "fixpoint of (implementation canon, model state) for 16 (quick) / 72 (thorough) configurations; the canon captures "
            "unknown attributes, generator locals and cache-entry fields generically; merging cross-checked by unmerged "
            "enumeration (75k / 4.2M histories).",
            "Harness renderable (vlib/renderables.py) is a pure function of (frame, size, duration, args); reference "
            "model vlib/c08_model.py trusted; alphabets and bounds in the evidence file.",
            "DESIGN.md 3/C08, B.1"),
    "C09": ("model_checking",
            "explicit-state BFS on a pair (cached, uncached) driven in lock step; relational oracle",
            "Explicit-state BFS over the C08 operation alphabet on a PAIR of real iterators (cache on / cache off) "
            "driven in lock step, cache in {True, False, n-1, n, n+1}, loops {2,3,-1}, static and DYNAMIC duration, with "
            "render-size / duration / render-args / padding changes mid-iteration; and the image pair "
            "ImageIterator(cached=True|False|k) over {next, seek, image-size changes among fixed sizes and a dynamic one "
            "with a terminal resize, close} on a multi-frame GIF for each render style. Oracle: every yielded frame "
            "identical in the pair; under unchanged (size, duration, args) the cached render iterator renders each "
            "frame number at most once (render counter of the harness renderable).",
            "Relational check: no hand-written expectation; the uncached twin is the reference (image iterators are also "
            "compared with format() of an independent twin image). Bounded alphabets; full image alphabet for the "
            "block style only; a padding change counts as a settings change.",
            "DESIGN.md 3/C09"),
    "C10": ("model_checking",
            "explicit-state BFS over renderable/iterator histories x exhaustive fault index enumeration",
            "Explicit-state BFS over histories of {render, str, draw still/animated, create iterator (constructor / "
            "_from_render_data_ with finalize True/False and caller-owned data), next, seek, set_*, close, close again, "
            "drop reference + gc, finalize caller data} on an instrumented harness renderable (definite and "
            "INDEFINITE), x a fault injected into the k-th _render_, the k-th _get_render_data_ or size validation for "
            "all k (RenderError, StopIteration, AttributeError, KeyboardInterrupt), into the terminal-size query, or at every "
            "stdout write/flush/sleep of a draw incl. its closing sequence; incompatible render arguments through every "
            "entry point. The harness keeps strong references "
            "to every RenderData so __del__ cannot mask a missing finalization. Oracle per data object: finalize count "
            "<= 1 always, == 1 once its operation / iterator is over, == 0 for caller-owned data; no _render_ with "
            "finalized data; closed iterators stop / raise FinalizedIteratorError; close() and finalize() idempotent.",
            "Up to 3 faults per history; virtual stdout/clock for draw(); after a BaseException out of next() only 'at most "
            "once / eventually' is demanded; one live iterator and one caller data at a time; bounds in the evidence.",
            "DESIGN.md 3/C10"),
}

PENDING_REASON = "check not built yet in this round (design in DESIGN.md section 3); not claimed"


# Extensions made after the seeding waves (appended to the level text / note of the check).
ADDENDA = {
    "C09": " The pair also runs on FrameCount.POSTPONED renderables (resolving to definite / INDEFINITE, read or unread), with a hash-colliding pair of render-args values and with output that depends on the duration setting. "
           "Render-args re-application with equal-valued distinct objects (quick tier: the canon then also records whether a cache entry holds the current args object); draw()'s internal iterator with infinite / finite loops interrupted at every output point, render count <= distinct frames. "
           "Image-iterator pairs also run with padded specifiers of non-default alignment on both axes (re-rendered frames of a cached loop are formatted again).",
    "C01": " Plus the iter(image) entry point (frames == str(image) at that frame, exactly rendered_size).",
    "C12": " Configurations also vary the process environment (TERM_PROGRAM / TERM_PROGRAM_VERSION unset or set, judged against the documented fallback wherever XTVERSION is unsupported, disabled or unanswered, with a reply taking precedence) and the configured query timeout (0.05 / 0.1 / 0.5 s, + 0.03 in thorough) with reply delays on both sides of the 0.1 s default; elapsed virtual time is bounded by the configured timeout per query. "
           "DA1 reply variants include a 174-byte reply (drained tail longer than one read chunk).",
    "C16": " Field values include equal-but-distinguishable pairs (True/1, float(default)/default, fresh equal tuples); "
           "alteration of existing objects is judged by identity of constituent namespaces and by the type of every "
           "field, not by ==. "
           "Also every tree in which one class lists a plain, non-render mixin before or after its render base: class tables for every tree x owner subset x position; operator histories to depth 2 in quick, and in thorough to depth 3 for <= 3 classes (4-class trees: mixin first, depth 2). "
           "The unknown-field menu of ns.update / RenderArgs.update(cls, **fields) / Args(**fields) includes non-field names that are attributes of the namespace class (as_dict, _FIELDS, update, get_fields, get_render_cls, __doc__), each required to raise UnknownArgsFieldError and change nothing. "
           "A library exception raised for a rejected set must also belong to the documented RenderArgsError family (clause wrong-error-family).",
    "C17": " Also tall-narrow sources (columns < rows), off-grid pixel sizes at two cell sizes, the global cell ratio "
           "{0.25, 1.0, 2.0, ...}, canvases trimmed after their image was rendered again at another size, and pairs of "
           "content() iterators advanced in lock step. "
           "The flow-rows clause is also judged after the environment changed behind an existing widget: the cell ratio for text styles, the terminal's cell size for graphics styles. "
           "The flow-rows clause is also judged when the shared image object already carries a size: one set through set_size(height=...), or one left by an earlier render at the same width before the cell ratio or cell size changed.",
    "C04": " The history alphabet also contains a render that fails because the source file is missing, a repeated "
           "rendered_size read across a cell-size and cell-aspect change on the same instance, a history-free twin "
           "comparison of every fixed automatic size, and a cached ImageIterator running across a resize or ratio "
           "change (frame size == current size); the frame menu includes mixed absolute/relative frames. "
           "Also in unusual environments: a terminal reporting swapped pixel dimensions with the win-size-swap workaround enabled, and standard output not being the terminal (tty size versus stdout / shutil fallback size), in the grid and as extra history searches. "
           "Plus a terminal whose pixel size is only available through XTWINOPS CSI 14 t, and resizes that happen while terminal queries are disabled (sizes are those for the real cell size once queries are re-enabled).",
    "C02": " The format(image, spec) entry point is exercised with every alpha-field form (`#`, thresholds, hex colours "
           "including digits-only ones, black and upper-case), and frames of mixed modes within one multi-page file are "
           "reached from every other page. "
           "Terminal backgrounds include components below 16 (zero-padded hex backdrop), and the history queries disabled, render, queries enabled, render is judged on every known background. "
           "Known backgrounds are reported with ST- and with BEL-terminated colour replies.",
    "C03": " Interaction dimensions: render method set on the instance or class x per-call override (all pairs, kitty "
           "and iterm2, sources smaller and larger than the render with heights not divisible by the line count); "
           "jpeg_quality configured on ITerm2Image x a subclass x the instance (expectation derived from the "
           "configuration, never read back); blend=False with multi-chunk strips; animated PNG/GIF still frames against "
           "the read-from-file gate. "
           "Per-call method overrides in upper or mixed case; ANIM as effective method (override, +A, set on instance or class) on still file sources with read-from-file on and off (the reference gate treats ANIM on a still image as WHOLE).",
    "C05": " Plus real old-API draw() calls (still / animated, every style, terminal identity and mix setting, pad "
           "width/height below / equal / above the render and terminal-relative) judged on the screen per frame, and "
           "AlignedPadding subclasses (trivial; overriding _get_exact_dimensions_) x relative/absolute dimensions through "
           "resolve, to_exact, pad, render, RenderIterator(), set_padding, draw(): a relative instance behaves as the same "
           "class with the clamped absolute dimensions. "
           "Format specs with an explicit zero height / width (relative to the terminal dimension, unlike an omitted field); animated draw() calls of at least 3 frames whose padded width equals the terminal width with RIGHT alignment (each frame ends in the pending-wrap state). "
           "Including worlds in which standard output is not the active terminal (fd 1 / COLUMNS x LINES report 80x24): terminal-relative dimensions resolve against the active terminal through render, RenderIterator, set_padding, draw() and old-API format specs.",
    "C06": " Plus: kitty versions around the blend / clear-by-z gate and style-specific draw() parameters (z_index, mix, "
           "compress); histories within one execution (dynamic-size image drawn, terminal resized, drawn again); "
           "INDEFINITE streams of 1-5 frames in both frame-numbering modes; renderables whose render data fixes a "
           "per-iteration size different from render_size; AlignedPadding subclasses; standard output not being the "
           "active terminal (fd 1 / COLUMNS x LINES report another size): all size rules and relative dimensions refer "
           "to the active terminal. "
           "Non-default cell ratios (0.4 / 0.5 / 1.0) x automatically sized images over a range of source aspect ratios: the automatic size must fit the area it was fitted to (draw() never validates a dynamic size) and is then placed like any other.",
    "C07": " Delivery disciplines unbuffered / fully buffered / line-buffered (a fault during the hand-over at flush() "
           "delivers any prefix of everything pending); pre-seeked images and renderables; two-draw histories with the "
           "tty attributes changed in between; faults at every write / drain / wait call of the terminal queries that a "
           "render issues inside draw().",
    "C08": " A terminal-resize operation with terminal-relative paddings (resolved at the moment of set_padding / "
           "construction) and a harness renderable whose output depends on the duration setting are part of the "
           "alphabet. "
           "Construction through RenderIterator() and through _from_render_data_ on pre-seeked renderables; FrameCount.POSTPONED renderables resolving to definite / INDEFINITE, read or unread; render-args values incl. a hash-colliding pair.",
    "C10": " The render-data finalizer hook and every call into a (subclassed) padding object during size validation / "
           "iterator priming are fault points too (OSError, KeyboardInterrupt); a constructor that raised is followed by "
           "a garbage collection. "
           "Padding-object faults also strike inside _from_render_data_ (caller data with finalize=False must stay un-finalized and reusable). "
           "_from_render_data_ over already-finalized caller data with finalize=True and finalize=False must be rejected. "
           "The protected _init_render_(renderer, iteration=, finalize=) called directly (both flags, returning / raising renderer) is part of the operation alphabet.",
    "C11": " Dynamic sizes (FIT, FIT_TO_WIDTH) with terminal resizes between and inside cached loops are part of the "
           "fault-free iteration searches (depth 7 / 8); for every draw(), a persistent standard-output failure from "
           "every write/flush index on (BrokenPipeError; ValueError of a closed stream in thorough), after which the "
           "current frame, the size setting and every opened file must be as after any other draw. "
           "Also: TermImageUserWarning raised as an error combined with a native-animation size limit below the image size (the refused render must leave neither the raw file nor the image open), and two URL-sourced images with the same URL base name open side by side (each keeps its own, correct temp copy for exactly as long as it is open).",
    "C13": " Fault exceptions: KeyboardInterrupt, SystemExit, a custom BaseException subclass, OSError (+ termios.error, "
           "BrokenPipeError in thorough) at every point; draw() is exercised with a renderable whose finalizer hook "
           "_finalize_render_data_ is itself a fault point. "
           "draw() is run with sys.stdout.fileno() in {0, 1, 101}.",
    "C14": " Including synchronized functions obtained by decorating the same function object twice or an already "
           "synchronized wrapper again, and reply schedules in which a reply (or its tail) arrives after its caller's "
           "query timed out and before the next caller's query (the next caller must not read it as its own). "
           "Plus rarely used entry points with their own synchronization (KittyImage.is_supported()'s two-step query after the lock migration, get_cell_size()'s three-reply query next to another caller with slow atomic replies); locks that other library modules imported by name are scheduled too and go stale at the first Process.start() as in reality. "
           "A synchronized call that raises followed by further synchronized calls of the same thread, and the library's urwid screen input poll next to a terminal query (urwid's own reader replaced by one on the virtual tty); threading.local state of the library is reset per simulated thread.",
    "C15": " The probes' memoized bodies also return None / False / 0 / () (a falsy result is a result) and can be made "
           "to raise once; get_cell_size() can be interrupted at representative tty calls; a process start (cache "
           "migration) is part of the cell alphabet; the probe and cell searches are repeated in a world where standard "
           "output is not the active terminal (shutil's size is a constant differing from every terminal size). "
           "Also a get racing with enable_win_size_swap() followed by a sequential get (<= 2 preemptions), and a search in which a cell-size query times out and its replies arrive before the next query after a resize (nothing stale may be memoized). "
           "cached probe arguments are distinct tuples with equal hashes (each needs its own entry), and a terminal_size_cached body during which the terminal is resized (the value belongs to the size the call started with). "
           "One more probe search calls the cached probe with keyword arguments of equal values and different names (a=-1 / b=-1: two argument tuples, two entries).",
    "C18": " Identities kitty / kitty 0.25.0 / konsole / unrecognised terminal with forced kitty support / other; "
           "transitions include a neighbour on the image's rows changing, the public clear_images() in all its forms, and "
           "widgets of a subclass with format-spec z fields. A fault dimension: the k-th write of a redraw raises EAGAIN "
           "once, for every k and every transition out of the fault roots, the application survives; whatever a failed "
           "redraw wrote must be bracketed, and the following redraws are judged by the full ghost oracle. "
           "The screen's output stream and the active terminal device are modelled as two devices; some roots run the screen on a terminal other than the active one, so clear / start / stop must clean the screen's own terminal.",
    "C19": " Plus a non-ASCII-digit pass and control-whitespace variants (newline, tab, CR as prefix / infix / suffix) of "
           "every sentence; every accepted sentence with a terminal-relative dimension is re-evaluated after a resize and "
           "after resizing back (same process). Entry points: cached ImageIterators with +style specs across a size "
           "change, UrwidImage-then-format-then-ImageIterator ordering, and rejected specifiers on live / closed / "
           "file-missing images (documented error wins, source not opened). "
           "A user-defined style with grouped field patterns written against the documented subclass hooks, with its own reference sub-grammar and exhaustive pass; iterm2 RGBA file sources decoded from the payload under each transparency setting. "
           "A colour-field family with near-miss characters; base-part rejections must carry the documented 'Invalid format specifier' message; long zero-padded and out-of-range z-index digit strings. "
           "The single-edit pass also inserts / substitutes the str.format and %-formatting metacharacters { } % (rejected specifiers are quoted in the error message).",
    "C20": " Class trees include mixin-first and mixin-last multiple inheritance, a diamond, the library's real abstract "
           "ancestry (BaseImage / GraphicsImage / TextImage) for forced support, and a subclass with a derived metaclass; "
           "the reference resolves along Python's MRO computed on a shadow hierarchy. Values include negative jpeg "
           "qualities and non-lowercase method spellings; every state is also checked through a cached ImageIterator with "
           "an overriding spec across a size change. "
           "KittyImage.clear() (plain / now / cursor / z_index) on a non-supporting terminal is an observation of effective forced support on every class node. "
           "An ImageIterator without a method in its spec follows instance- and class-level set / unset applied between its construction and later frames.",
}
NOTE_ADDENDA = {
    "C13": " Thread interleavings inside a mode-changing operation are out of C13's fault model; they are explored by "
           "C14, which also judges the final attributes.",
    "C03": " Concurrent renders (two threads inside one renderer) are outside this statement's quantifier.",
    "C01": " draw()-level frame re-positioning (_display_animated) is outside this statement and owned by C06 / C05; "
           "C01 judges render strings and ImageIterator frames only.",
}


def main():
    props = [json.loads(l) for l in open(os.path.join(HERE, "properties.jsonl"))]
    checks, na = [], []
    for p in props:
        pid = p["id"]
        mod = os.path.join(HERE, "vlib", "props", pid.lower() + ".py")
        if pid in CHECKS and os.path.exists(mod):
            cat, tech, text, note, ref = CHECKS[pid]
            text += ADDENDA.get(pid, "")
            note += NOTE_ADDENDA.get(pid, "")
            checks.append(dict(
                property_id=pid,
                quick_cmd=f"./check {pid} --tier quick",
                thorough_cmd=f"./check {pid} --tier thorough",
                evidence_file=f"/verif/evidence/{pid}.json",
                replay_cmd_template=f"./check {pid} --replay {{path}}",
                engine="vlib",
                level_claimed=dict(category=cat, text=text, design_ref=ref),
                level_note=note,
                technique=tech,
            ))
        else:
            na.append(dict(property_id=pid, reason=PENDING_REASON))
    manifest = dict(
        version=1,
        setup_cmd="./check --selftest",
        hooks=dict(
            guard="TERM_IMAGE_VERIF",
            enable="none needed: the checks import /repo/src as is and substitute module globals (DESIGN 2.1); "
                   "TERM_IMAGE_VERIF=1 is exported by ./check but no source hook reads it",
            baseline_off_cmd="cd /repo && /venv/bin/python -m pytest -ra -q -p no:cacheprovider --timeout=900 "
                             "--continue-on-collection-errors",
            source_commits=[],
            add_only=True,
        ),
        engines=[dict(name="vlib", path="/verif/vlib", serves_properties=[c["property_id"] for c in checks],
                      kind_free_text="hand-written exhaustive explorers for Python (product grids, deviation-bounded "
                                     "choice-tree search, explicit-state BFS over operation histories, controlled "
                                     "thread scheduler) run directly on the implementation, with a terminal model "
                                     "(vterm), a tty device model (vtty) and reference models as oracles")],
        checks=checks,
        not_applicable=na,
        notes="All checks run the real code of /repo/src (imported fresh each run); no model/code gap.",
    )
    with open(os.path.join(HERE, "MANIFEST.json"), "w") as f:
        json.dump(manifest, f, indent=1)
        f.write("\n")
    print(f"MANIFEST: {len(checks)} checks, {len(na)} not claimed")


if __name__ == "__main__":
    main()
