#!/usr/bin/env python3
"""Runs checks against every seeded change and (re)writes seeded/<id>/meta.json + seeded/MATRIX.md.

usage: seed_matrix.py [--only C05a,C06b] [--checks own|all] [--tier quick]
Each seeded change is applied to a scratch copy of /repo/src under /var/tmp (never to /repo), the
checks run against it with evidence/replays redirected, and the copy is removed.
"""
import argparse
import json
import os
import re
import shutil
import subprocess
import sys
import tempfile
from concurrent.futures import ThreadPoolExecutor

HERE = os.path.dirname(os.path.dirname(os.path.abspath(__file__)))
SEEDED = os.path.join(HERE, "seeded")


def available_checks():
    return sorted(f[:-3].upper() for f in os.listdir(os.path.join(HERE, "vlib", "props"))
                  if re.fullmatch(r"c\d+\.py", f))


def run_seed(name, checks, tier):
    d = os.path.join(SEEDED, name)
    patch = os.path.join(d, "patch.diff")
    scratch = tempfile.mkdtemp(prefix="ti-seed-", dir="/var/tmp")
    res = {}
    try:
        shutil.copytree("/repo/src", os.path.join(scratch, "src"))
        p = subprocess.run(["patch", "-p1", "-s", "-i", patch], cwd=scratch, capture_output=True, text=True)
        if p.returncode != 0:
            return name, {"_patch": "FAILED: " + (p.stdout + p.stderr)[-300:]}
        os.makedirs(os.path.join(scratch, "ev"))
        os.makedirs(os.path.join(scratch, "rp"))
        env = dict(os.environ, VERIF_REPO=scratch, VERIF_EVIDENCE_DIR=os.path.join(scratch, "ev"),
                   VERIF_REPLAY_DIR=os.path.join(scratch, "rp"))
        for c in checks:
            r = subprocess.run(["./check", c, "--tier", tier], cwd=HERE, env=env, capture_output=True, text=True)
            lines = [l for l in (r.stdout + r.stderr).splitlines()
                     if l.startswith(("VIOLATION", "  what:", "  signature:", "HARNESS-ERROR"))]
            res[c] = dict(exit=r.returncode, detail=lines[:6])
    finally:
        shutil.rmtree(scratch, ignore_errors=True)
    return name, res


def main():
    ap = argparse.ArgumentParser()
    ap.add_argument("--only")
    ap.add_argument("--checks", default="own")
    ap.add_argument("--tier", default="quick")
    ap.add_argument("--jobs", type=int, default=2)
    a = ap.parse_args()
    names = sorted(n for n in os.listdir(SEEDED) if os.path.isdir(os.path.join(SEEDED, n)) and not n.startswith("_"))
    if a.only:
        names = [n for n in names if n in a.only.split(",")]
    avail = available_checks()
    jobs = []
    for n in names:
        own = n[:3]
        if a.checks == "own":
            cs = [own] if own in avail else []
        elif a.checks == "all":
            cs = avail
        else:
            cs = [c for c in a.checks.split(",") if c in avail]
        jobs.append((n, cs))
    with ThreadPoolExecutor(a.jobs) as ex:
        results = list(ex.map(lambda j: run_seed(j[0], j[1], a.tier), jobs))
    for name, res in results:
        d = os.path.join(SEEDED, name)
        mp = os.path.join(d, "meta.json")
        meta = json.load(open(mp)) if os.path.exists(mp) else {}
        meta.setdefault("property", name[:3])
        meta.setdefault("variant", name[3:])
        runs = meta.setdefault("check_results", {})
        for c, r in res.items():
            runs[c] = r
        caught = sorted(c for c, r in runs.items() if isinstance(r, dict) and r.get("exit") == 1)
        meta["caught_by"] = caught
        json.dump(meta, open(mp, "w"), indent=1, sort_keys=True)
        print(name, {c: (r["exit"] if isinstance(r, dict) else r) for c, r in res.items()})
    # matrix
    rows = []
    for n in sorted(os.listdir(SEEDED)):
        mp = os.path.join(SEEDED, n, "meta.json")
        if os.path.exists(mp):
            m = json.load(open(mp))
            rows.append(f"| {n} | {m.get('summary', '')} | {', '.join(m.get('caught_by', [])) or '-'} |")
    with open(os.path.join(SEEDED, "MATRIX.md"), "w") as f:
        f.write("| seeded change | what it does / needs | caught by (quick tier, exit 1) |\n|---|---|---|\n")
        f.write("\n".join(rows) + "\n")


if __name__ == "__main__":
    main()
