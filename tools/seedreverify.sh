#!/bin/sh
# usage: tools/seedreverify.sh C07a   -> re-verifies seeded/C07a (patch.diff + demo.py) against the CURRENT /repo HEAD
# in a scratch worktree: demo PASS on clean tree, suite == baseline with patch, demo FAIL with patch.
N="$1"; D="/verif/seeded/$N"; WT="/tmp/reverify-$N"
git -C /repo worktree add --detach -q "$WT" HEAD || exit 2
cd "$WT"
rc0=$(cd "$D" && PYTHONPATH="$WT/src" timeout 300 /venv/bin/python demo.py >/tmp/rv-$N.out 2>&1; echo $?)
git apply "$D/patch.diff" || { echo "APPLY FAILED $N"; git -C /repo worktree remove --force "$WT"; exit 3; }
tests="$(python3 /verif/tools/baseline.py "$WT" | tail -1)"
rc1=$(cd "$D" && PYTHONPATH="$WT/src" timeout 300 /venv/bin/python demo.py >/tmp/rv-$N.out 2>&1; echo $?)
echo "$N: clean demo exit=$rc0, with patch: $tests, demo exit=$rc1" | tee -a "$D/verify.log"
git -C /repo worktree remove --force "$WT"; rm -f /tmp/rv-$N.out
