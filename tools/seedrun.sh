#!/bin/sh
# usage: tools/seedrun.sh <patch.diff> <Cxx> [<Cyy> ...]
# Applies the patch to a scratch copy of /repo/src (outside /repo and /verif), runs the quick tier of the
# given checks against it (evidence/replays redirected to the scratch dir) and removes the copy.
# Prints one line per check: "<id> exit=<n>" (+ the VIOLATION / KNOWN-FINDING lines).
PATCH="$(realpath "$1")"; shift
D="$(mktemp -d /var/tmp/ti-seed-XXXXXX)"
trap 'rm -rf "$D"' EXIT
cp -r /repo/src "$D/src"
(cd "$D" && patch -p1 -s < "$PATCH") || { echo "PATCH-FAILED $PATCH"; exit 3; }
mkdir -p "$D/ev" "$D/rp"
TIER="${SEED_TIER:-quick}"
for id in "$@"; do
  OUT="$(cd /verif && VERIF_REPO="$D" VERIF_EVIDENCE_DIR="$D/ev" VERIF_REPLAY_DIR="$D/rp" ./check "$id" --tier "$TIER" 2>&1)"
  rc=$?
  echo "$id exit=$rc"
  echo "$OUT" | grep -E "^(VIOLATION|KNOWN-FINDING|HARNESS-ERROR|  what:)" | head -8
done
