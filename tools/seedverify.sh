#!/bin/sh
# usage: tools/seedverify.sh C09 a   -> verifies /tmp/seed-C09/_seed/a.diff + demo_a.py in that worktree,
# and on success stores it as /verif/seeded/C09a/{patch.diff,demo.py,notes.md,verify.log}
ID="$1"; V="$2"; WT="${SEED_PREFIX:-/tmp/seed}-$ID"; S="$WT/_seed"
[ -f "$S/$V.diff" ] && [ -f "$S/demo_$V.py" ] || { echo "missing files for $ID$V"; exit 2; }
cd "$WT" || exit 2
git checkout -q -- . ; LOG="$(mktemp)"
run_demo() { (cd "$S" && PYTHONPATH="$WT/src" timeout 300 /venv/bin/python "demo_$V.py" >"$LOG.out" 2>&1; echo $?); }
rc0=$(run_demo); echo "clean demo exit=$rc0: $(tail -1 "$LOG.out")" | tee -a "$LOG"
git apply "$S/$V.diff" || { echo "APPLY FAILED" | tee -a "$LOG"; exit 3; }
tests="$(PYTHONPATH="$WT/src" /venv/bin/python -m pytest -q -p no:cacheprovider --timeout=900 --continue-on-collection-errors -o addopts="" 2>&1 | tail -1)"
echo "tests with change: $tests" | tee -a "$LOG"
rc1=$(run_demo); echo "mutated demo exit=$rc1: $(tail -2 "$LOG.out" | tr '\n' ' ')" | tee -a "$LOG"
git checkout -q -- .
ok=1
[ "$rc0" = 0 ] || ok=0; [ "$rc1" != 0 ] || ok=0
echo "$tests" | grep -q "4 failed, 1178 passed, 1 error" || ok=0
if [ $ok = 1 ]; then
  D="/verif/seeded/$ID$V"; mkdir -p "$D"
  cp "$S/$V.diff" "$D/patch.diff"; cp "$S/demo_$V.py" "$D/demo.py"; cp "$S/notes.md" "$D/notes.md" 2>/dev/null; cp "$LOG" "$D/verify.log"
  echo "VERIFIED $ID$V -> $D"
else
  echo "NOT VERIFIED $ID$V (clean=$rc0 mutated=$rc1 tests=$tests)"
fi
rm -f "$LOG" "$LOG.out"
