"""Helpers shared by C01 / C02 / C03: sources, image objects, running renders, reference pixels.

A *case* is a JSON-able dict; everything here is a pure function of the case, so a recorded case
replays exactly.

    src   ["pat", w, h, mode]            deterministic pattern (imgkit.pattern), all pixels distinct
          ["gif", w, h, nframes, frame]  animated GIF file (imgkit.gif), image seeked to *frame*
          ["apng", w, h, nframes, frame, mode]  animated PNG file in mode RGB / RGBA (all frames distinct,
                                         RGBA frames with an alpha pattern), image seeked to *frame*
          ["tiff", w, h, npages, page]   multi-page TIFF whose pages have MIXED modes (RGB, RGBA, LA, RGB...;
                                         same pattern, alpha 0 / 39 / 40 / 128 / 255), image seeked to *page*
          ["uni", w, h, [r,g,b,a]]       uniformly coloured RGBA image
          ["pix", w, h, mode, [..]]      explicit pixel list (putdata)
          ["mode", w, h, m]              pattern in PIL mode m incl. "P+t" (palette + transparent index)
          ["fn"|"nf", w, h, mode]        flat top / noise bottom half (or the reverse): strips of very
                                         different compressibility
    set_method  [level, m]: set_render_method(m) on the "instance" or the "class" before rendering (the
            per-call override, if any, is case["method"])
    jpeg / jpeg_sub / jpeg_cls  iterm2 jpeg_quality set on the instance / on a fresh subclass the instance
            is made from / on ITerm2Image itself (absent = left unset); "sub": true alone = subclass, nothing set
    bel     true: the terminal terminates its colour (OSC 10/11) replies with BEL instead of ST
    pil_at  (pilfile / pilmem only) frame the PIL image is left positioned on before the image object is built
    kind  "pil"      PIL image built in memory (no file behind it)
          "file"     <Style>Image.from_file(path)
          "pilfile"  <Style>Image(PIL.Image.open(path))   (a PIL source with a readable file)
          "pilmem"   <Style>Image(PIL.Image.open(BytesIO(file bytes)))  (decoded from a format, no file)
    fmt   file format for the file kinds: "png" | "jpeg" | "gif"
"""
from __future__ import annotations

import functools
import os

from . import imgkit, vterm, world

OPAQUE_MODES = {"1", "L", "RGB", "HSV", "CMYK"}
TERM = (20, 10)            # size of the world's terminal while rendering (sizes are set manually)
DEFAULT_BG = b"rgb:0000/0000/0000"


def spread(cases):
    """Deterministic pseudo-random order: product grids are periodic, and pmap deals items out with
    a fixed stride, so without this whole shards would get only the expensive cases."""
    from .harness import h64

    return sorted(cases, key=lambda c: h64(repr(sorted(c.items()))))


def vt_identity(identity):
    """world identity -> vterm identity (base name)."""
    base = identity.split("-")[0]
    return base if base in ("kitty", "konsole", "iterm2", "wezterm") else "other"


def alpha_value(a):
    """case encoding -> what the library takes: None | float | '#' | '#rrggbb'."""
    if a == "default":
        return world.load().common._ALPHA_THRESHOLD
    return a


def alpha_spec(a):
    """Format-spec text for an alpha setting (None if it cannot be expressed)."""
    if a == "default":
        return ""
    if a is None:
        return "#"
    if isinstance(a, float):
        return "#" + repr(a).lstrip("0")
    if a == "#":
        return None          # "terminal background" has no format-spec form
    return a


# ---------------------------------------------------------------------------------- sources
def _pil_source(src):
    from PIL import Image

    k = src[0]
    if k == "pat":
        return imgkit.pattern(src[1], src[2], src[3])
    if k == "uni":
        return Image.new("RGBA", (src[1], src[2]), tuple(src[3]))
    if k == "pix":
        im = Image.new(src[3], (src[1], src[2]))
        im.putdata([tuple(p) if isinstance(p, (list, tuple)) else p for p in src[4]])
        return im
    if k == "mode":
        return _mode_source(src)
    if k in ("fn", "nf"):
        return _flat_noise(src)
    raise ValueError(src)


def _flat_noise(src):
    """["fn", w, h, mode]: flat (compressible) top half, noise (incompressible) bottom half;
    ["nf", ...] the other way round.  Strips of such an image encode to very different lengths,
    which is what exposes state shared between the strips of a LINES render."""
    import hashlib

    from PIL import Image

    k, w, h, mode = src
    bpp = len(mode)
    top = h // 2
    flat = bytes((40, 90, 160, 255)[:bpp]) * (w * top)
    noise = hashlib.shake_256(f"verif {w}x{h} {mode}".encode()).digest(w * (h - top) * bpp)
    data = flat + noise if k == "fn" else noise + flat[: w * top * bpp]
    if k == "nf":
        data = noise[: w * top * bpp] + bytes((40, 90, 160, 255)[:bpp]) * (w * (h - top))
    return Image.frombytes(mode, (w, h), data)


def _mode_source(src):
    """["mode", w, h, m]: a small image in PIL mode m, with transparency where the mode can carry
    any ("P+t" = palette image with a transparent index)."""
    _, w, h, m = src
    base = imgkit.pattern(w, h, "RGBA")
    if m == "P+t":
        p = base.convert("RGB").quantize(colors=6)
        p.info["transparency"] = p.getpixel((1, 0))
        return p
    if m == "PA":
        pa = base.convert("RGB").quantize(colors=6).convert("PA")
        pa.putalpha(base.getchannel("A"))
        return pa
    if m == "LA":
        la = base.convert("L").convert("LA")
        la.putalpha(base.getchannel("A"))
        return la
    return imgkit.pattern(w, h, m)


def source_path(src, fmt):
    """Path of the file holding *src* (created on first use, atomically; the directory must have
    been created by the parent process - call prepare() before forking)."""
    d = imgkit.tmpdir()
    name = "-".join(str(x) for x in src if not isinstance(x, (list, tuple))) + "." + fmt
    path = os.path.join(d, name)
    if os.path.exists(path):
        return path
    tmp = os.path.join(d, f"tmp-{os.getpid()}-{name}")
    try:
        _write_source(src, fmt, tmp)
    except Exception as e:  # the harness cannot build its own input: never a verdict
        raise world.HarnessError(f"cannot create source file {path}: {type(e).__name__}: {e}")
    os.replace(tmp, path)
    return path


ANIMATED_KINDS = ("gif", "apng", "tiff")
TIFF_MODES = ("RGB", "RGBA", "LA")


def is_animated_src(src):
    return src[0] in ANIMATED_KINDS and src[3] > 1


def default_fmt(src):
    return {"gif": "gif", "apng": "png", "tiff": "tiff"}.get(src[0], "png")


def _write_source(src, fmt, tmp):
    if src[0] == "tiff":
        _, w, h, n, _page = src
        base = imgkit.pattern(w, h, "RGBA")
        pages = []
        for k in range(n):
            m = TIFF_MODES[k % len(TIFF_MODES)]
            if m == "LA":
                pg = base.convert("L").convert("LA")
                pg.putalpha(base.getchannel("A"))
            else:
                pg = base.convert(m)
            pages.append(pg)
        pages[0].save(tmp, "TIFF", save_all=True, append_images=pages[1:])
    elif src[0] == "apng":
        _, w, h, n, _frame, mode = src
        frames = [imgkit.pattern(w, h, mode, seed=3 * k + 1) for k in range(n)]
        frames[0].save(tmp, "PNG", save_all=True, append_images=frames[1:], duration=100, loop=0,
                       default_image=False, disposal=0, blend=0)
    elif src[0] == "gif":
        imgkit.gif(src[1], src[2], src[3], path=tmp)
    else:
        im = _pil_source(src)
        if fmt == "png":
            from PIL.PngImagePlugin import PngInfo

            info = PngInfo()
            info.add_text("verif", "source file - a re-encoded render never carries this chunk")
            im.save(tmp, "PNG", pnginfo=info, compress_level=7)
        elif fmt == "jpeg":
            im.convert("RGB" if im.mode not in ("L", "CMYK") else im.mode).save(
                tmp, "JPEG", quality=91, comment=b"verif source file")
        elif fmt == "gif":
            im.save(tmp, "GIF")
        else:
            raise ValueError(fmt)


def prepare():
    """Call in the parent before pmap(): workers create their files inside this directory."""
    return imgkit.tmpdir()


def needs_file(case):
    return case.get("kind", "pil") != "pil" or case["src"][0] in ANIMATED_KINDS


def reference_source(case):
    """A fresh PIL image with the pixels of the frame the case renders (independent object)."""
    from PIL import Image

    src = case["src"]
    if needs_file(case):
        with Image.open(source_path(src, case.get("fmt", default_fmt(src)))) as im:
            if src[0] in ANIMATED_KINDS:
                im.seek(src[4])
            im.load()
            return im.copy()
    return _pil_source(src)


class Subject:
    """The image object under test plus what the checks need to know about its source."""

    def __init__(self, img, pil, path, animated):
        self.img, self.pil, self.path, self.animated = img, pil, path, animated

    def close(self):
        try:
            self.img.close()
        finally:
            if self.pil is not None:
                self.pil.close()


def build(case, w=None, h=None):
    """World set up for the case + the image object.  Returns a Subject."""
    from PIL import Image

    L = world.load()
    kw = {}
    if "termbg" in case:      # None = the terminal does not answer the colour query
        kw["bg"] = case["termbg"].encode() if case["termbg"] else None
    cell = tuple(case["cell"]) if case.get("cell") else None
    world.setup(case["identity"], *(case.get("term") or TERM), cell=cell, **kw)
    if case.get("bel"):       # the terminal ends its OSC colour replies with BEL instead of ST (both are legal)
        world.W.tty.responder.st = b"\x07"
    cls = imgkit.style_class(case["style"])
    if case["style"] == "iterm2":
        if case.get("jpeg_cls") is not None:
            cls.jpeg_quality = case["jpeg_cls"]        # undone by reset_world() of the next setup
        if case.get("sub") or case.get("jpeg_sub") is not None:
            cls = type("VerifSub", (cls,), {})
            if case.get("jpeg_sub") is not None:
                cls.jpeg_quality = case["jpeg_sub"]
    sm = case.get("set_method")
    if sm and sm[0] == "class":
        cls.set_render_method(sm[1])                   # undone by reset_world() of the next setup
    src = case["src"]
    kind = case.get("kind", "pil")
    if src[0] in ANIMATED_KINDS and kind == "pil":
        kind = "pilfile"
    if case.get("fit"):          # automatic sizing (Size.FIT) on the case's terminal
        size_kw = {}
    else:
        size_kw = dict(width=case["size"][0] if w is None else w, height=case["size"][1] if h is None else h)
    pil = path = None
    if kind == "pil":
        img = cls(_pil_source(src), **size_kw)
    else:
        path = source_path(src, case.get("fmt", default_fmt(src)))
        if kind == "file":
            img = cls.from_file(path, **size_kw)
        elif kind == "pilmem":
            import io

            with open(path, "rb") as f:
                pil = Image.open(io.BytesIO(f.read()))
            if case.get("pil_at") is not None:
                pil.seek(case["pil_at"])
            img = cls(pil, **size_kw)
            path = None
        else:
            pil = Image.open(path)
            if case.get("pil_at") is not None:
                pil.seek(case["pil_at"])
            img = cls(pil, **size_kw)
    if src[0] in ANIMATED_KINDS:
        img.seek(src[4])
    if sm and sm[0] == "instance":
        img.set_render_method(sm[1])
    if case["style"] == "iterm2":
        if case.get("jpeg") is not None:
            img.jpeg_quality = case["jpeg"]
        if case.get("rff") is not None:
            img.read_from_file = case["rff"]
    return Subject(img, pil, path, is_animated_src(src))


def effective_method(case):
    """Per-call override, else what was set on the instance / class, else the default (lines)."""
    return (case.get("method") or (case.get("set_method") or [None, None])[1] or "lines").lower()


def effective_jpeg(case):
    """jpeg_quality the documentation promises for what the case CONFIGURED: instance value, else
    the nearest class that has one, else disabled (None)."""
    for k in ("jpeg", "jpeg_sub", "jpeg_cls"):
        if case.get(k) is not None:
            return case[k]
    return None


def style_args(case):
    a = {}
    st = case["style"]
    if case.get("method"):
        a["method"] = case["method"]
    if st == "kitty":
        for k, name in (("z", "z_index"), ("mix", "mix"), ("compress", "compress"), ("blend", "blend")):
            if case.get(k) is not None:
                a[name] = case[k]
    elif st == "iterm2":
        for k in ("mix", "compress"):
            if case.get(k) is not None:
                a[k] = case[k]
    elif st == "block":
        if case.get("split"):
            a["split_cells"] = True
    return a


def format_spec(case):
    """The format() specifier equivalent to the case (None when there is none)."""
    a = alpha_spec(case.get("alpha", "default"))
    if a is None or case.get("blend") is False or case.get("split"):
        return None
    st = case["style"]
    tail = ""
    if case.get("method"):
        tail += case["method"][0].upper()
    if st == "kitty" and case.get("z") is not None:
        tail += f"z{case['z']}"
    if case.get("mix") is not None and st != "block":
        tail += f"m{int(case['mix'])}"
    if case.get("compress") is not None and st != "block":
        tail += f"c{case['compress']}"
    return "1.1" + a + ("+" + tail if tail else "")


def resize_terminal(cols, rows, cell=None):
    """The user resizes the terminal window (cell size unchanged)."""
    tty = world.W.tty
    tty.cols, tty.rows = cols, rows
    if cell:
        tty.xpx, tty.ypx = cols * cell[0], rows * cell[1]


def render(subject, case):
    """Run the real renderer the way the case says (via = renderer | format | str)."""
    img = subject.img
    via = case.get("via", "renderer")
    if via == "renderer":
        return img._renderer(img._render_image, alpha_value(case.get("alpha", "default")), **style_args(case))
    if via == "format":
        return format(img, format_spec(case))
    if via == "str":
        return str(img)
    raise ValueError(via)


# ---------------------------------------------------------------------------------- reference pixels
def termbg_rgb(case):
    """(r, g, b) the terminal of the case reports as its background, None if it does not answer."""
    tb = case.get("termbg", DEFAULT_BG.decode())
    if not tb:
        return None
    parts = tb.split(":")[1].split("/")
    return tuple(int(p[:2], 16) for p in parts)     # the checks only use xxxx = 0xXYXY-style values


def hex_of(rgb):
    return "#%02x%02x%02x" % tuple(rgb)


def expected_image(src, alpha, size, termbg):
    """The pixels a render at *size* must show: PIL convert / resize(BOX) / composite (trusted
    base).  RGB when transparency is disabled, replaced by a colour or absent; RGBA otherwise."""
    from PIL import Image

    if alpha is None or src.mode in OPAQUE_MODES:
        im = src if src.mode == "RGB" else src.convert("RGB")
        return im if im.size == tuple(size) else im.resize(tuple(size), Image.Resampling.BOX)
    im = src if src.mode == "RGBA" else src.convert("RGBA")
    if im.size != tuple(size):
        im = im.resize(tuple(size), Image.Resampling.BOX)
    if isinstance(alpha, str):
        colour = alpha if alpha != "#" else (hex_of(termbg) if termbg else "#000000")
        bg = Image.new("RGBA", im.size, colour)
        bg.alpha_composite(im)
        return bg.convert("RGB")
    return im


@functools.lru_cache(maxsize=None)
def composite1(px, bg):
    """One RGBA pixel over an opaque colour, by PIL."""
    from PIL import Image

    if px[3] == 255:
        return tuple(px[:3])
    base = Image.new("RGBA", (1, 1), tuple(bg) + (255,))
    base.alpha_composite(Image.new("RGBA", (1, 1), tuple(px)))
    return base.getpixel((0, 0))[:3]


# ---------------------------------------------------------------------------------- rectangle oracle
def positions(w, h, extra=2):
    """Every (cols, rows, r0, c0): screens (w..w+extra) x (h..h+extra), every anchor that fits."""
    for cols in range(w, w + extra + 1):
        for rows in range(h, h + extra + 1):
            for r0 in range(rows - h + 1):
                for c0 in range(cols - w + 1):
                    yield cols, rows, r0, c0


def judge_rectangle(s, ident, w, h, cols, rows, r0, c0, decode=False):
    """Execute *s* anchored at (r0, c0); return [(clause, text)] of everything C01 forbids."""
    t = vterm.run(s, cols, rows, ident, at=(r0, c0), strict=True, decode_images=decode)
    bad = []
    if t.errors:
        bad.append(("sequences", f"malformed/incomplete sequences: {t.errors[:2]}"))
    if not t.in_ground() or t.pending_kitty is not None:
        bad.append(("sequences", f"output ends inside a sequence: parser={t.parser_state} "
                                 f"chunked-transmission-open={t.pending_kitty is not None}"))
    if t.wraps:
        bad.append(("wrap", f"{t.wraps} line wrap(s)"))
    if t.scrolls:
        bad.append(("scroll", f"{t.scrolls} scroll(s)"))
    rect = {(r, c) for r in range(r0, r0 + h) for c in range(c0, c0 + w)}
    touched = t.touched()
    for p in t.placements:
        touched |= p.cells()
    if touched - rect:
        bad.append(("outside-rect", f"cells outside the {w}x{h} rectangle changed: {sorted(touched - rect)[:4]}"))
    if rect - touched:
        bad.append(("rect-covered", f"cells of the {w}x{h} rectangle not covered: {sorted(rect - touched)[:4]}"))
    if not t.scrolls:
        moved = [(r, c) for r in range(rows) for c in range(cols)
                 if (r, c) not in rect and t.grid[r][c].orig != (r, c)]
        if moved:
            bad.append(("outside-rect", f"cells outside the rectangle were shifted: {moved[:4]}"))
    want = (r0 + h - 1, min(c0 + w, cols - 1))
    if t.cursor() != want:
        bad.append(("final-cursor", f"cursor ends at {t.cursor()}, expected {want}"))
    if not t.sgr_default():
        bad.append(("attrs-reset", f"text attributes not reset: fg={t.fg} bg={t.bg} attrs={t.attrs}"))
    if not t.visible:
        bad.append(("attrs-reset", "cursor left hidden"))
    return bad
