"""Shared driver and oracles for C06 (draw() placement / size validation) and C07 (interrupted draw()).

A *case* is a jsonable dict describing one call of `draw()`:

  common   api 'new'|'old', term (cols, rows), row0 (initial cursor row), isatty, frames (1 = still),
           size (w, h) in cells, animate
  new API  cls 'TextR'|'ClearR', mode 'plain'|'sgr', pad ('aligned', pw, ph, ha, va, fill) |
           ('exact', l, t, r, b, fill), loops, cache, check_size, allow_scroll, hide_cursor, echo_input,
           seek (current frame of the renderable)
  old API  style 'block'|'kitty'|'iterm2', ident, method 'lines'|'whole'|None, fmt (h_align, pad_width,
           v_align, pad_height), repeat, cached, check_size, scroll, src 'pil'|'file', dyn (dynamic size),
           cell (pixel size of a cell), compress, style_kw (other style-specific draw() parameters:
           z_index / mix / compress)
  C07      buffering 'none'|'full'|'line' (delivery discipline of the virtual stdout, see world.VStdout)
  new API  cls 'FitR' + iter_size (per-operation size of an iteration, see extra_classes), padcls
           'base'|'trivial'|'thirds' (AlignedPadding subclass used for an aligned `pad`)
  world    cell_ratio (term_image.set_cell_ratio), srcpx (pixel size of the source image instead of the
           default size-in-cells x cell size);
           stdout_size (cols, rows): standard output is NOT the active terminal (VTty.stdout_size);
           alpha (old API draw() argument, C07 only)
  history  term0 (terminal size at the start), pre: steps executed before the judged draw in the same world on
           the same object - {"op": "draw", "kw": {overrides}} | {"op": "resize", "term": (c, r)} |
           {"op": "attrs", "set": "cooked"|"noecho"|"raw"}; `term` is the size at the judged draw

`execute(case, plan, on_frame)` runs the real `draw()` against a VStdout/VTerm/VTty world and returns a
`Run`; `expected(case)` is the reference (geometry of the padded region and the documented validation
verdict), written from the documentation of `draw()` only.
"""
from __future__ import annotations

import sys

from . import imgkit, vterm, world
from .renderables import classes

CELL = (2, 3)
TOUCHED = ("T", "E", "G")
H_SHARE = {0: (0, 1), 1: (1, 2), 2: (1, 1)}       # LEFT/TOP, CENTER/MIDDLE, RIGHT/BOTTOM: share of slack before
OLD_H = {None: 1, "<": 0, "|": 1, ">": 2, "left": 0, "center": 1, "right": 2}
OLD_V = {None: 1, "^": 0, "-": 1, "_": 2, "top": 0, "middle": 1, "bottom": 2}
Z_ANIM = -(1 << 31)


def ref_offsets(w, h, W, H, ha, va):
    """(left, top) of a w x h render aligned inside a W x H box."""
    n, d = H_SHARE[ha]
    left = (W - w) * n // d
    n, d = H_SHARE[va]
    top = (H - h) * n // d
    return left, top


class Expect:
    """Reference verdict + geometry of one draw() call (from the documented rules only)."""

    def __init__(self, **kw):
        self.__dict__.update(kw)


def is_animation(case):
    return bool((case["frames"] > 1 or case.get("indef")) and case.get("animate", True))


def eff_size(case):
    """Size of what is drawn: a renderable may fix a per-operation size for an iteration in its render data
    (cls FitR, case["iter_size"]) that differs from its nominal render_size."""
    if case["api"] == "new" and case.get("iter_size") and is_animation(case):
        return tuple(case["iter_size"])
    return tuple(case["size"])


def expected(case):
    cols, rows = case["term"]
    w, h = eff_size(case)
    animation = is_animation(case)
    if case["api"] == "new":
        pad = case["pad"]
        fill = pad[-1]
        if pad[0] == "aligned":
            _, pw, ph, ha, va, _ = pad
            pw = pw if pw > 0 else max(cols + pw, 1)
            ph = ph if ph > 0 else max(rows + ph, 1)
            W, H = max(pw, w), max(ph, h)
            left, top = ref_offsets(w, h, W, H, ha, va)
            if case.get("padcls") == "thirds":       # the placement rule of the harness subclass
                left, top = (W - w) // 3, (H - h) - (H - h) // 3
        else:
            _, left, top, right, bottom, _ = pad
            W, H = left + w + right, top + h + bottom
        reject = None
        # "If check_size is True (or it's an animation), the padded render width must not be greater than
        #  the terminal width; and allow_scroll is False (or it's an animation), the padded render height
        #  must not be greater than the terminal height."
        if case.get("check_size", True) or animation:
            if W > cols or ((not case.get("allow_scroll", False) or animation) and H > rows):
                reject = ("RenderSizeOutofRangeError",)
        return Expect(reject=reject, W=W, H=H, left=left, top=top, w=w, h=h, fill=fill,
                      animation=animation, fits_width=W <= cols)
    # ---- old API
    ha, pw, va, ph = case["fmt"]
    dyn = case.get("dyn", False)
    reasons = []
    # "pad_width: must not be greater than the terminal width" (always validated)
    if pw > cols:
        reasons.append("ValueError")
    # "pad_height: must not be greater than the terminal height, for animations"
    if animation and ph > rows:
        reasons.append("ValueError")
    # image size: validated if check_size (non-animations) / always for animations, "if set";
    # scroll lifts the height rule for non-animations only
    if not dyn and (case.get("check_size", True) or animation):
        if w > cols or ((not case.get("scroll", False) or animation) and h > rows):
            reasons.append("InvalidSizeError")
    pw_abs = pw if pw > 0 else max(cols + pw, 1)
    ph_abs = ph if ph > 0 else max(rows + ph, 1)
    W, H = max(pw_abs, w), max(ph_abs, h)
    left, top = ref_offsets(w, h, W, H, OLD_H[ha], OLD_V[va])
    return Expect(reject=tuple(reasons) or None, W=W, H=H, left=left, top=top, w=w, h=h, fill=" ",
                  animation=animation, fits_width=W <= cols)


# ------------------------------------------------------------------------------------ world pieces
class Clock(world.VClock):
    """Virtual clock; `on_sleep` is called before each sleep (= a frame is completely on screen)."""

    on_sleep = None

    def sleep(self, d):
        if self.on_sleep is not None:
            self.on_sleep()
        super().sleep(d)


class Run:
    pass


def vterm_identity(ident):
    """Identity of the terminal *model* for a world identity (every kitty version is the kitty model)."""
    return "kitty" if ident.startswith("kitty") else ident


def make_term(cols, rows, ident, row0):
    t = vterm.VTerm(cols, rows, vterm_identity(ident), onlcr=True, line_start=0)
    t.r, t.c = row0, 0
    return t


def _wrap_render(obj, name, stdout):
    """Route frame renders through a fault point of the virtual stdout."""
    orig = getattr(obj, name)

    def wrapper(*a, **k):
        n = stdout.point("render")
        try:
            return orig(*a, **k)
        finally:
            # "after" faults hit when the call ends, however it ends (the old API's iterator ends on
            # an EOFError raised by the render of the frame past the last one)
            stdout.after(n, "render")

    setattr(obj, name, wrapper)


def old_style_args(case):
    kw = {}
    if case.get("method"):
        kw["method"] = case["method"]
    if case.get("compress") is not None:
        kw["compress"] = case["compress"]
    kw.update(case.get("style_kw") or {})     # further style-specific draw() parameters: z_index, mix, compress
    return kw


def _file(kind, pw, ph, n=1):
    """Source file, written once (atomically): workers of a pool share the directory and must never
    see a file that another worker is rewriting."""
    import os

    path = os.path.join(imgkit.tmpdir(), f"c06-{kind}-{pw}x{ph}-{n}.{kind}")
    if not os.path.exists(path):
        tmp = f"{path}.{os.getpid()}.{kind}"
        if kind == "gif":
            imgkit.gif(pw, ph, n, path=tmp)
        else:
            imgkit.png(pw, ph, "RGB", path=tmp, alpha="opaque")
        os.replace(tmp, path)
    return path


def old_image(case, L=None):
    """A fresh old-API image object for *case* (after world.setup)."""
    from PIL import Image

    L = L or world.load()
    style = case["style"]
    cls = imgkit.style_class(style)
    cls.is_supported()          # the real query code fills in _TERM / _KITTY_VERSION
    w, h = case["size"]
    sw, sh = case.get("srcsize") or (w, h)      # the source image is sw x sh cells worth of pixels
    cw, chh = case.get("cell") or CELL
    pw, ph = case.get("srcpx") or (sw * cw, sh * (chh if style != "block" else 2))
    n = case["frames"]
    kw = {} if case.get("dyn") else dict(width=w, height=h)
    if n > 1:
        path = _file("gif", pw, ph, n)
        if case.get("src", "file") == "file":
            img = cls.from_file(path, **kw)
        else:
            img = cls(Image.open(path), **kw)
    else:
        if case.get("src", "pil") == "file":
            img = cls.from_file(_file("png", pw, ph), **kw)
        else:
            img = cls(imgkit.pattern(pw, ph, "RGB", alpha="opaque"), **kw)
    if case.get("seek"):
        img.seek(case["seek"])
    return img


_extra = {}


def extra_classes():
    """Harness subclasses of library extension points (built once per process on the real classes):
    FitR      renderable whose `_get_render_data_` fixes a per-operation size for an iteration (`iter_size`)
              that differs from its nominal `render_size`
    Preset    trivial subclass of AlignedPadding (adds nothing)
    Thirds    subclass of AlignedPadding overriding the documented `_get_exact_dimensions_` hook: the render
              sits one third of the horizontal slack from the left, one third of the vertical one from the
              bottom (alignments ignored)"""
    if _extra:
        return _extra
    L = world.load()
    ns = classes()
    Renderable = L.renderable.Renderable
    P = L.padding
    Size = L.geometry.Size

    class FitR(ns.TextR):
        iter_size = None

        def _get_render_data_(self, *, iteration):
            rd = super()._get_render_data_(iteration=iteration)
            if iteration and self.iter_size:
                rd[Renderable].size = Size(*self.iter_size)
            return rd

    class Preset(P.AlignedPadding):
        pass

    class Thirds(P.AlignedPadding):
        def _get_exact_dimensions_(self, render_size):
            if self.relative:
                raise P.RelativePaddingDimensionError("Relative minimum render dimension(s)")
            sw = max(self.width - render_size.width, 0)
            sh = max(self.height - render_size.height, 0)
            left, top = sw // 3, sh - sh // 3
            return left, top, sw - left, sh - top

    _extra.update(FitR=FitR, Preset=Preset, Thirds=Thirds)
    return _extra


def padding_class(name):
    P = world.load().padding
    return {None: P.AlignedPadding, "base": P.AlignedPadding, "trivial": extra_classes()["Preset"],
            "thirds": extra_classes()["Thirds"]}[name]


def new_renderable(case):
    ns = classes()
    name = case.get("cls", "TextR")
    cls = extra_classes()[name] if name == "FitR" else getattr(ns, name)
    if case.get("indef"):
        # INDEFINITE frame count: a stream of case["frames"] frames
        FC = world.load().renderable.FrameCount
        return ns.make(FC.INDEFINITE, tuple(case["size"]), 100, case.get("mode", "plain"),
                       stream_len=case["frames"], cls=cls, number_mode=case.get("number_mode", "position"))
    r = ns.make(case["frames"], tuple(case["size"]), 100, case.get("mode", "plain"), cls=cls)
    if case.get("iter_size"):
        r.iter_size = tuple(case["iter_size"])
    if case.get("seek"):
        r.seek(case["seek"])
    return r


def new_padding(case, L=None):
    L = L or world.load()
    P = L.padding
    pad = case["pad"]
    if pad[0] == "aligned":
        _, pw, ph, ha, va, fill = pad
        return padding_class(case.get("padcls"))(pw, ph, P.HAlign(ha), P.VAlign(va), fill)
    _, left, top, right, bottom, fill = pad
    return P.ExactPadding(left, top, right, bottom, fill)


ATTR_SETS = {"cooked": dict(), "noecho": dict(echo=False),
             "raw": dict(canonical=False, echo=False, vmin=0, vtime=3)}


def resize(tty, cols, rows, cell=CELL):
    """The user resizes the terminal window (same cell size)."""
    tty.cols, tty.rows = cols, rows
    if tty.xpx or tty.ypx:
        tty.xpx, tty.ypx = cols * cell[0], rows * cell[1]


TTY_IO_CALLS = ("write", "tcdrain", "select", "read", "monotonic")


def execute(case, plan=None, on_frame=None, prepare=None, tty_fault=None):
    """Run the real draw() for *case*.  `on_frame(run, j)` is called when the j-th drawn frame is
    completely on the screen (before the sleep that follows it)."""
    L = world.load()
    cols, rows = case["term"]
    ident = case.get("ident", "other")
    cell = tuple(case.get("cell") or CELL)
    term = make_term(cols, rows, ident, case["row0"])
    stdout = world.VStdout(term=term, isatty=case.get("isatty", True), plan=None,
                           buffering=case.get("buffering", "none"))
    clock = Clock(stdout)
    cols0, rows0 = case.get("term0") or (cols, rows)      # terminal size before the history `pre`
    tty = world.setup(ident, cols0, rows0, cell=cell, stdout=stdout, clock=clock)
    if case.get("cell_ratio"):
        L.ti.set_cell_ratio(case["cell_ratio"])
    if case.get("stdout_size"):
        # standard output is not the active terminal: only the tty's own fd reports the terminal's size,
        # the shutil fallback reports this one
        tty.stdout_size = tuple(case["stdout_size"])
    run = Run()
    run.case, run.term, run.stdout, run.clock, run.tty = case, term, stdout, clock, tty
    run.exc = None
    run.harness_exc = None
    run.frames_seen = 0
    try:
        if case["api"] == "new":
            subj = new_renderable(case)
            pad = new_padding(case, L)
            _wrap_render(subj, "_render_", stdout)
            kw = dict(animate=case.get("animate", True), loops=case.get("loops", 1),
                      cache=case.get("cache", False), check_size=case.get("check_size", True),
                      allow_scroll=case.get("allow_scroll", False),
                      hide_cursor=case.get("hide_cursor", True), echo_input=case.get("echo_input", False))

            def call(**over):
                subj.draw(None, pad, **dict(kw, **over))

            run.state = lambda: (subj.tell(), tuple(subj.render_size))
        else:
            subj = old_image(case, L)
            _wrap_render(subj, "_render_image", stdout)
            ha, pw, va, ph = case["fmt"]
            kw = dict(animate=case.get("animate", True), repeat=case.get("repeat", 1),
                      cached=case.get("cached", False), scroll=case.get("scroll", False),
                      check_size=case.get("check_size", True))
            kw.update(old_style_args(case))
            if "alpha" in case:
                kw["alpha"] = case["alpha"]

            def call(**over):
                subj.draw(ha, pw, va, ph, **dict(kw, **over))

            run.state = lambda: (subj.tell(), subj.size if case.get("dyn") else tuple(subj.size),
                                 subj._size)
        run.subject = subj
        # ---- history inside this execution (same world, same subject): earlier draws, a terminal resize,
        # a change of the tty attributes; their output goes to a scratch screen
        run.pre_log = []
        for step in case.get("pre") or ():
            if step["op"] == "resize":
                resize(tty, *step["term"], cell)
            elif step["op"] == "attrs":
                tty.attrs = world.default_attrs(**ATTR_SETS[step["set"]])
            elif step["op"] == "draw":
                stdout.term = make_term(tty.cols, tty.rows, ident, 0)
                try:
                    call(**(step.get("kw") or {}))
                    run.pre_log.append(("draw", None, repr(getattr(subj, "size", None))))
                except Exception as e:
                    run.pre_log.append(("draw", type(e).__name__, repr(getattr(subj, "size", None))))
                stdout._handover()
        if (tty.cols, tty.rows) != (cols, rows):
            resize(tty, cols, rows, cell)
        stdout.term = term
        del stdout.data[:]
        if prepare is not None:
            prepare(run)
        run.attrs_before = [x if not isinstance(x, list) else list(x) for x in tty.attrs]
        run.state_before = run.state()
        if on_frame is not None:
            def _on_sleep():
                j = run.frames_seen
                run.frames_seen += 1
                try:
                    on_frame(run, j)
                except Exception as e:   # an oracle failure must never look like a failure of draw()
                    import traceback

                    run.harness_exc = run.harness_exc or (e, traceback.format_exc())

            clock.on_sleep = _on_sleep
        stdout.plan = plan
        stdout.npoints = 0
        del stdout.log[:]
        # calls into the tty device made by draw() itself (terminal queries of a render, termios of the new
        # API) are numbered from here; tty_fault = (i, mode, exc_factory) hits the i-th of them
        n0 = tty.ncalls
        tty.log_calls, tty.calls = True, []
        tty.fault, tty.fault_fired = None, False
        if tty_fault is not None:
            tty.fault = (n0 + tty_fault[0], tty_fault[1], tty_fault[2])
        try:
            call()
        except BaseException as e:  # noqa - the verdict on it belongs to the oracle
            if isinstance(e, (world.HarnessError, SystemExit, MemoryError, GeneratorExit)):
                raise
            run.exc = e
        finally:
            clock.on_sleep = None
            stdout.plan = None
            run.tty_fault_fired = tty.fault_fired
            tty.fault = None
            tty.log_calls = False
            run.tty_calls = [(n - n0, kind) for n, kind, _ in tty.calls]
        # what a real buffered stream still holds is written out eventually
        stdout._handover()
        run.attrs_after = tty.attrs
        run.state_after = run.state()
    finally:
        sys.stdout = L.orig["stdout"]
    if run.harness_exc is not None:
        raise world.HarnessError(f"oracle callback failed for {case}: {run.harness_exc[1]}")
    return run


# ------------------------------------------------------------------------------------ reference frames
_ref_cache = {}


def _inner_key(case, k):
    if case["api"] == "new":
        return ("new", case.get("mode", "plain"), eff_size(case), k)
    return ("old", case["style"], case.get("ident", "other"), case.get("method"), tuple(case["size"]),
            tuple(case.get("srcsize") or ()), case["frames"], k, tuple(case.get("cell") or CELL), case.get("compress"),
            bool(case["frames"] > 1 and case.get("animate", True)),
            tuple(sorted((case.get("style_kw") or {}).items())), case.get("cell_ratio"),
            tuple(case.get("srcpx") or ()))


def inner_frame(case, k):
    """Render output of frame *k* alone (unpadded), obtained through the non-draw public API."""
    key = _inner_key(case, k)
    if key in _ref_cache:
        return _ref_cache[key]
    L = world.load()
    cols, rows = 40, 30
    ident = case.get("ident", "other")
    world.setup(ident, cols, rows, cell=tuple(case.get("cell") or CELL))
    if case.get("cell_ratio"):
        L.ti.set_cell_ratio(case["cell_ratio"])
    if case["api"] == "new":
        r = new_renderable(dict(case, seek=k, cls="TextR", indef=False, frames=max(case["frames"], k + 1, 2),
                                size=eff_size(case), iter_size=None))
        out = str(r)
    else:
        c = dict(case, seek=k, dyn=False, src=None)
        c.pop("src")
        img = old_image(c, L)
        spec = "1.1"
        style = case["style"]
        animation = case["frames"] > 1 and case.get("animate", True)
        if style != "block":
            skw = case.get("style_kw") or {}
            spec += "+" + {"lines": "L", "whole": "W", None: ""}[case.get("method")]
            if style == "kitty" and skw.get("z_index") is not None and not animation:
                spec += f"z{skw['z_index']}"      # (an animation uses a z-index of its own)
            if style == "iterm2" and animation or skw.get("mix"):
                spec += "m1"
            compress = skw.get("compress", case.get("compress"))
            if compress is not None:
                spec += f"c{compress}"
            if spec.endswith("+"):
                spec = spec[:-1]
        out = format(img, spec)
    _ref_cache[key] = out
    return out


_ref_term_cache = {}


def ref_screen(case, k, exp, cols):
    """The frame *k* drawn alone at offset (top, left) inside an H-row screen of the same width."""
    key = (_inner_key(case, k), exp.left, exp.top, exp.H, cols)
    t = _ref_term_cache.get(key)
    if t is None:
        inner = inner_frame(case, k)
        t = vterm.run(inner, cols, exp.H + 1, vterm_identity(case.get("ident", "other")), at=(exp.top, exp.left))
        if len(_ref_term_cache) > 20000:
            _ref_term_cache.clear()
        _ref_term_cache[key] = t
    return t


# ------------------------------------------------------------------------------------ screen oracle
def judge_screen(run, exp, k, bad, *, final, scrolls_expected):
    """The screen shows frame *k* in the padded region, and nothing else has changed.

    `bad(clause, what)` reports.  Region top row = row0 - scrolls so far.
    """
    case = run.case
    term = run.term
    cols, rows = case["term"]
    S = term.scrolls
    if S != scrolls_expected:
        bad("scroll-count", f"{S} scroll(s), the region ({exp.W}x{exp.H} at row {case['row0']} of {rows}) "
            f"makes {scrolls_expected} necessary{'' if final else ' before the end of the animation'}")
        return False
    top = case["row0"] - S
    ref = ref_screen(case, k, exp, cols)
    W, H = exp.W, exp.H
    in_l, in_t, w, h = exp.left, exp.top, exp.w, exp.h
    grid = term.grid
    covered = set()          # cells under a graphics placement count as drawn (an image clipped at the
    for p in term.placements:  # bottom margin comes into view when the screen scrolls)
        covered |= p.cells()
    for r in range(rows):
        i = r - top
        row = grid[r]
        for c in range(cols):
            cell = row[c]
            tag = cell.tag.upper()
            inside = 0 <= i < H and c < W
            inner = inside and in_t <= i < in_t + h and in_l <= c < in_l + w
            if inside and (inner or exp.fill):
                if tag not in TOUCHED and (r, c) not in covered:
                    bad("region-covered", f"cell {(r, c)} of the padded region (row {i} of it) was never drawn")
                    return False
                rc = ref.grid[i][c]
                if inner:
                    if cell.key() != rc.key():
                        bad("region-shows-frame", f"cell {(r, c)} shows {cell}, frame {k} drawn alone at that "
                            f"place shows {rc}")
                        return False
                elif cell.key() != (exp.fill, None, None, ()):
                    bad("region-padding", f"padding cell {(r, c)} is {cell}, expected blank fill {exp.fill!r}")
                    return False
            else:
                if tag in TOUCHED or (r, c) in covered:
                    bad("outside-untouched", f"cell {(r, c)} outside the {W}x{H} region (rows {top}..{top + H - 1}) "
                        f"was written: {cell}")
                    return False
                if (r, c) in covered:
                    pass
                elif r + S < rows:
                    if cell.orig != (r + S, c):
                        bad("outside-shifted", f"cell {(r, c)} holds what was at {cell.orig}, expected {(r + S, c)}")
                        return False
                elif cell.tag != "S":
                    bad("outside-shifted", f"cell {(r, c)} on a scrolled-in row is {cell}")
                    return False
    # (the z-index of an animation is not compared: kitty animations use one that the public format spec
    # cannot express; leftovers of earlier frames show up as additional placements whatever their z-index)
    zcmp = not exp.animation
    got = sorted((p.proto, p.row - top, p.col, p.cols, p.rows, p.digest, p.z if zcmp else 0) for p in term.placements)
    want = sorted((p.proto, p.row, p.col, p.cols, p.rows, p.digest, p.z if zcmp else 0) for p in ref.placements
                  if p.row + p.rows + top > 0)
    if got != want:
        bad("region-placements", f"graphics on screen (rows relative to the region) {got} != frame {k} drawn "
            f"alone {want}")
        return False
    return True
