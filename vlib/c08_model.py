"""Reference model of the documented RenderIterator behaviour + drivers shared by C08 and C09.

  Model            ~120 lines written from the class / method docstrings of RenderIterator and
                   DESIGN appendix B.1 - it never looks at the implementation
  Impl             a fresh real RenderIterator on a fresh instrumented harness renderable
  impl_canon()     everything `RenderIterator._iterate` and the public methods read
  Explorer         explicit-state BFS over operation histories to the fixpoint (a state is the
                   history that reaches it; every transition = full replay on fresh real objects)
  unmerged()       all histories up to a depth *without* merging, walked against the merged graph

Operations (JSON-able tuples):
  ("next",) ("close",) ("seek", offset, "START"|"CURRENT"|"END") ("dur", int|"DYN")
  ("pad", key of PADS) ("args", "t1"|"t2"|"base"|"bad") ("size", w, h)
"""
from __future__ import annotations

import collections
import itertools

from . import world
from .harness import h64
from .renderables import classes

TERM = (8, 6)        # terminal size relative paddings are resolved against (at the start of every history)
TERM2 = (6, 5)       # the other size of the ("term", cols, rows) resize operation
SIZE0 = (2, 2)       # render size of the harness renderable
DUR0 = 100

PADS = {
    "E0": ("exact", 0, 0, 0, 0),
    "E1010": ("exact", 1, 0, 1, 0),
    "E0101": ("exact", 0, 1, 0, 1),
    "E2000": ("exact", 2, 0, 0, 0),   # same padded size as E1010, different output
    "A32": ("aligned", 3, 2),
    "A14": ("aligned", 1, 4),
    "Arel": ("aligned", 0, -2),       # terminal-relative: TERM[0] x (TERM[1] - 2)
    "Arel2": ("aligned", -5, 1),      # relative width only: (TERM[0] - 5) x 1
}
# tm1 / tm2: hash(-1) == hash(-2) - unequal render args with equal hashes
ARG_TAG = {"t1": 1, "t2": 2, "base": 0, "tm1": -1, "tm2": -2}
GLYPHS = "abcdefghijklmnopqrstuvwxyzABCDEFGHIJKLMNOPQRSTUVWXYZ"


# ------------------------------------------------------------------------------ the model
def dur_shift(dur):
    """The harness renderable lets the duration SETTING show in the output (the library re-renders on a duration
    change precisely because 'frame duration may affect the render output of some renderables')."""
    return 3 if dur == "DYN" else dur % 5


def ref_text(k, size, tag):
    """What the harness renderable documents for frame k: cell (x, y) = GLYPHS[(7k + y*w + x + tag) % 52]
    (tag = render-args tag + dur_shift(duration setting))."""
    w, h = size
    return "\n".join("".join(GLYPHS[(k * 7 + y * w + x + tag) % 52] for x in range(w)) for y in range(h))


def ref_resolve(key, term=TERM):
    """Padding key -> exact-or-aligned description with absolute dimensions."""
    p = PADS[key]
    if p[0] == "aligned":
        w, h = p[1], p[2]
        return ("aligned", w if w > 0 else max(term[0] + w, 1), h if h > 0 else max(term[1] + h, 1))
    return p


def ref_pad(text, size, pad):
    """Independent padder (fill ' ', AlignedPadding defaults CENTER / MIDDLE)."""
    w, h = size
    if pad[0] == "aligned":
        W, H = max(pad[1], w), max(pad[2], h)
        left, top = (W - w) // 2, (H - h) // 2
        right, bottom = W - w - left, H - h - top
    else:
        _, left, top, right, bottom = pad
        W, H = left + w + right, top + h + bottom
    lines = [" " * left + ln + " " * right for ln in text.split("\n")]
    return "\n".join([" " * W] * top + lines + [" " * W] * bottom), (W, H)


class Model:
    """The documented behaviour.  apply(op) -> (result, seeks handed to an INDEFINITE source)
    result: ("frame", number, duration, (w, h), output) | ("stop",) | ("ok",) | ("raise", name)"""

    def __init__(self, cfg):
        n = cfg["n"]
        self.indef = isinstance(n, str)
        self.n = None if self.indef else n
        self.stream_len = int(n[1:]) if self.indef else None
        self.loop = 1 if self.indef else cfg["loops"]     # loops is ignored for INDEFINITE
        self.nxt = 0                                       # iteration starts at frame 0
        self.pending = None                                # INDEFINITE: last seek not yet handed over
        self.first = True
        self.stream_pos = 0
        self.closed = False
        self.dur = cfg["dur0"]
        self.size = SIZE0
        self.tag = 0
        self.term = TERM
        self.pad = ref_resolve(cfg["pad0"], self.term)

    def canon(self):
        return (self.closed, self.loop, self.nxt, self.pending, self.first, self.stream_pos,
                self.dur, self.size, self.tag, self.pad, self.term)

    def frame(self, k):
        dur = 10 + k if self.dur == "DYN" else self.dur
        out, psize = ref_pad(ref_text(k, self.size, self.tag + dur_shift(self.dur)), self.size, self.pad)
        return ("frame", k, dur, psize, out)

    def apply(self, op):
        kind = op[0]
        if kind == "next":
            return self.next()
        if kind == "term":                                 # the terminal is resized: nothing happens to the
            self.term = (op[1], op[2])                     # iterator until a relative padding is handed in again
            return ("ok",), []
        if kind == "close":                                # idempotent, never raises
            self.closed = True
            return ("ok",), []
        if self.closed:                                    # finalized: every control operation rejected
            return ("raise", "FinalizedIteratorError"), []
        if kind == "seek":
            o, wh = op[1], op[2]
            if self.indef:
                if (wh == "START" and o < 0) or (wh == "END" and o > 0):
                    return ("raise", "ValueError"), []
                self.pending = (o, wh)                     # the last one wins
            else:
                t = o if wh == "START" else (self.nxt + o if wh == "CURRENT" else self.n - 1 + o)
                if not 0 <= t < self.n:
                    return ("raise", "ValueError"), []
                self.nxt = t                               # no loop change
        elif kind == "dur":
            if op[1] != "DYN" and op[1] <= 0:
                return ("raise", "ValueError"), []
            self.dur = op[1]
        elif kind == "pad":
            self.pad = ref_resolve(op[1], self.term)       # relative: resolved at the call, against the
                                                           # terminal size of that moment
        elif kind == "args":
            if op[1] == "bad":
                return ("raise", "IncompatibleRenderArgsError"), []
            self.tag = ARG_TAG[op[1]]
        elif kind == "size":
            self.size = (op[1], op[2])
        else:
            raise world.HarnessError(f"unknown op {op!r}")
        return ("ok",), []

    def next(self):
        if self.closed:
            return ("stop",), []
        if self.indef:
            if self.pending is not None:
                off, wh = self.pending
            else:
                off, wh = (0, "START") if self.first else (0, "CURRENT")
            self.pending, self.first = None, False
            # the stream semantics of the harness renderable (it implements every seek)
            pos = off if wh == "START" else (self.stream_len - 1 + off if wh == "END" else self.stream_pos + off)
            pos = max(pos, 0)
            if pos >= self.stream_len:                     # the source ends: iterator exhausted
                self.closed, self.loop = True, 0
                return ("stop",), [(off, wh)]
            self.stream_pos = pos + 1
            return self.frame(pos), [(off, wh)]
        if self.nxt == self.n:                             # a new loop begins (or the iteration ends)
            self.nxt = 0
            if self.loop > 0:
                self.loop -= 1
            if self.loop == 0:
                self.closed = True
                return ("stop",), []
        k = self.nxt
        self.nxt += 1
        return self.frame(k), []


# ------------------------------------------------------------------------------ the real thing
def durkey(d):
    if type(d) is int:
        return d
    return "DYN" if getattr(d, "name", "") == "DYNAMIC" else repr(d)


_lib = {}


def lib():
    if not _lib:
        L = world.load()
        ns = classes()
        R = L.renderable
        P = L.padding

        class OtherR(R.Renderable):          # an unrelated render class -> incompatible render args
            def _get_render_size_(self):
                return L.geometry.Size(1, 1)

            def _render_(self, render_data, render_args):
                raise NotImplementedError

        class OtherArgs(R.ArgsNamespace, render_cls=OtherR):
            foo: int = 0

        DYNAMIC = R.FrameDuration.DYNAMIC

        class DurR(ns.TextR):                # the duration setting shows in the output: glyphs shifted by dur_shift
            _resolved = None                 # FrameCount.POSTPONED: what the postponed evaluation gives

            def _get_frame_count_(self):
                return self._resolved

            def _render_(self, render_data, render_args):
                f = super()._render_(render_data, render_args)
                d = render_data[R.Renderable].duration
                shift = dur_shift("DYN" if d is DYNAMIC else d)
                if type(self).Args is None:      # TextR only reads its tag when the class itself owns the namespace
                    shift += render_args[ns.TextR].tag
                if not shift:
                    return f
                out = "".join(GLYPHS[(GLYPHS.index(c) + shift) % 52] if c in GLYPHS else c for c in f.render_output)
                return R.Frame(f.number, f.duration, f.render_size, out)

        _lib.update(L=L, ns=ns, R=R, P=P, RI=L.render.RenderIterator, Size=L.geometry.Size, Seek=R.Seek,
                    OtherR=OtherR, DurR=DurR,
                    args={"t1": R.RenderArgs(ns.TextR, ns.TextRArgs(1)), "t2": R.RenderArgs(ns.TextR, ns.TextRArgs(2)),
                          "tm1": R.RenderArgs(ns.TextR, ns.TextRArgs(-1)), "tm2": R.RenderArgs(ns.TextR, ns.TextRArgs(-2)),
                          "base": R.RenderArgs(R.Renderable), "bad": R.RenderArgs(OtherR, OtherArgs(1))})
    return _lib


def make_pad(key):
    P = lib()["P"]
    p = PADS[key]
    return P.ExactPadding(*p[1:]) if p[0] == "exact" else P.AlignedPadding(p[1], p[2])


def ensure_world():
    """The one terminal all RenderIterator explorations run against."""
    tty = world.W.tty
    if tty is None or tty is not _tty.get("tty") or world.W.stdout is not None:
        _tty["tty"] = world.setup("other", *TERM)
    else:
        tty.cols, tty.rows = TERM          # every history starts at TERM


_tty = {}


class Impl:
    def __init__(self, cfg, cache=None):
        lb = lib()
        R = lb["R"]
        n = cfg["n"]
        dur0 = R.FrameDuration.DYNAMIC if cfg["dur0"] == "DYN" else cfg["dur0"]
        count = R.FrameCount.INDEFINITE if isinstance(n, str) else n
        postponed = cfg.get("postponed")        # None | "read" | "unread": frame count evaluated lazily
        r = lb["ns"].make(R.FrameCount.POSTPONED if postponed else count, SIZE0, dur0,
                          stream_len=int(n[1:]) if isinstance(n, str) else 4, cls=lb["DurR"])
        r._resolved = count
        if postponed != "unread":
            r.frame_count                        # (evaluates a postponed count)
            if not isinstance(n, str):
                r.seek(n - 1)                    # the renderable's own position must not matter
        self.r = r
        self.tell0 = r.tell()
        cache = cfg["cache"] if cache is None else cache
        if cfg.get("ctor") == "frd":             # the extension constructor, with data made by the renderable itself
            self.it = lb["RI"]._from_render_data_(r, r._get_render_data_(iteration=True), None, make_pad(cfg["pad0"]),
                                                  cfg["loops"], cache)
        else:
            self.it = lb["RI"](r, None, make_pad(cfg["pad0"]), cfg["loops"], cache)

    def apply(self, op):
        lb = lib()
        it, r = self.it, self.r
        k = len(r.seen_seeks)
        kind = op[0]
        try:
            if kind == "next":
                try:
                    f = next(it)
                except StopIteration:
                    return ("stop",), r.seen_seeks[k:]
                res = ("frame", f.number, durkey(f.duration), tuple(f.render_size), f.render_output)
            else:
                if kind == "term":
                    world.W.tty.cols, world.W.tty.rows = op[1], op[2]
                elif kind == "close":
                    it.close()
                elif kind == "seek":
                    it.seek(op[1], lb["Seek"][op[2]])
                elif kind == "dur":
                    it.set_frame_duration(lb["R"].FrameDuration.DYNAMIC if op[1] == "DYN" else op[1])
                elif kind == "pad":
                    it.set_padding(make_pad(op[1]))
                elif kind == "args":
                    it.set_render_args(lb["args"][op[1]])
                elif kind == "size":
                    it.set_render_size(lb["Size"](op[1], op[2]))
                else:
                    raise world.HarnessError(f"unknown op {op!r}")
                res = ("ok",)
        except world.HarnessError:
            raise
        except Exception as e:
            res = ("raise", type(e).__name__)
        return res, r.seen_seeks[k:]


def argkey(a):
    ns = lib()["ns"]
    try:
        return (a.render_cls.__name__, a[ns.TextR].tag)
    except Exception:
        return repr(a)


_ADDR = __import__("re").compile(r" at 0x[0-9a-fA-F]+|0x[0-9a-fA-F]{6,}")
# locals of `_iterate` that are dead at every suspension point (overwritten before they are read again)
_STALE_LOCALS = {"frame", "cache_entry", "frame_details", "exc"}
_OWN_LOCALS = {"self", "renderable", "render_data", "renderable_data", "CURRENT", "cache"}


def generic(v):
    """Canonical text of an arbitrary value (tuples / lists / dicts structurally, everything else by its
    repr without addresses) - used for state the harness does not know by name, e.g. a field added to a
    cache entry, a new attribute or a new generator local."""
    if isinstance(v, (tuple, list)):
        return "(" + ",".join(generic(x) for x in v) + ")"
    if isinstance(v, dict):
        return "{" + ",".join(f"{k}:{generic(x)}" for k, x in sorted(v.items(), key=lambda kv: str(kv[0]))) + "}"
    return _ADDR.sub("", repr(v))


_KNOWN_ATTRS = {"loop", "_cached", "_closed", "_finalize_data", "_loops", "_padded_size", "_padding", "_render_args",
                "_render_data", "_renderable_data", "_iterator", "_renderable"}
_KNOWN_LOCALS = {"loop", "frame_no", "frame_count", "definite", "render_args"} | _STALE_LOCALS | _OWN_LOCALS
_KNOWN_FIELDS = {"size", "frame_offset", "seek_whence", "duration", "iteration"}


def framekey(f):
    try:
        return (f[0], durkey(f[1]), tuple(f[2]), f[3]) + tuple(generic(x) for x in f[4:])
    except Exception:
        return generic(f)


# also distinguish cache entries by the IDENTITY of their render args (equal-valued but distinct objects); set by
# C09's quick tier only - it roughly doubles the cached state spaces
CANON_IDENTITY = False


def impl_canon(im):
    """Everything the future behaviour of the iterator depends on (see c08.py for the argument).  The state
    the current implementation has is read field by field; anything else found in the instance, in the live
    locals of the suspended generator, in a cache entry or in the render data namespace (state added by a
    changed implementation) is captured generically, so that it cannot be merged away."""
    it, r = im.it, im.r
    tty = world.W.tty
    base = (r.tell(), r.stream_pos, it.loop, None if tty is None else (tty.cols, tty.rows))
    if it._closed:
        return ("closed",) + base
    fr = it._iterator.gi_frame
    if fr is None:                               # generator finished but the iterator was not closed
        return ("dead",) + base
    loc = fr.f_locals
    d = it._renderable_data
    cache = loc.get("cache")
    csig = None
    if cache is not None:
        csig = tuple((None if e[0] is None else framekey(e[0]), None if e[1] is None else tuple(e[1]), durkey(e[2]),
                      None if e[3] is None else (argkey(e[3]), CANON_IDENTITY and e[3] is it._render_args))   # value (AND identity)
                     + tuple(generic(x) for x in e[4:])
                     if type(e) is tuple and len(e) >= 4 else generic(e) for e in cache)
    extra = [(k, generic(v)) for k, v in loc.items() if k not in _KNOWN_LOCALS]
    extra += [(k, generic(v)) for k, v in it.__dict__.items() if k not in _KNOWN_ATTRS]
    fields = type(d).get_fields()
    if len(fields) != 5:
        extra += [(k, generic(getattr(d, k, None))) for k in fields if k not in _KNOWN_FIELDS]
    return ("open", base, d.frame_offset, d.seek_whence.name, tuple(d.size), durkey(d.duration), d.iteration,
            loc["loop"], loc.get("frame_no"), fr.f_lineno, argkey(it._render_args), repr(it._padding),
            tuple(it._padded_size), bool(it._cached), it._loops, it._finalize_data, it._render_data.finalized, csig,
            tuple(sorted(extra)))


# ------------------------------------------------------------------------------ alphabets
def seeks(n):
    """Every seek with an offset in -n-1 .. n+1 (n = frame count or stream length)."""
    return [("seek", o, wh) for wh in ("START", "CURRENT", "END") for o in range(-n - 1, n + 2)]


PROFILES = {
    # durations (0 is invalid), paddings, render args ('bad' is incompatible), render sizes
    "full": dict(durs=[1, 7, "DYN", 0], pads=["E0", "E1010", "A32", "Arel"], args=["t1", "t2", "bad"],
                 sizes=[(1, 1), (2, 1)]),
    "wide": dict(durs=[1, 7, "DYN", 0, -3], pads=["E0", "E1010", "E2000", "E0101", "A32", "A14", "Arel", "Arel2"],
                 args=["t1", "t2", "base", "bad"], sizes=[(1, 1), (2, 1), (1, 3)]),
    "small": dict(durs=[7, "DYN", 0], pads=["E1010", "E2000", "Arel"], args=["t1", "bad"], sizes=[(1, 1)]),
    "tiny": dict(durs=[7, 0], pads=["E1010", "Arel"], args=["t1", "bad"], sizes=[(1, 1)]),
    # 10 = the duration frame 0 reports under DYNAMIC (a cache keyed by the frame's duration instead of the setting)
    "dur": dict(durs=[1, 7, 10, "DYN", 0], pads=["E0", "Arel"], args=["bad"], sizes=[]),
    # terminal resizes between receptions of (equal) terminal-relative paddings
    "resize": dict(durs=[0], pads=["E0", "Arel", "Arel2"], args=["bad"], sizes=[(1, 1)], terms=[TERM, TERM2]),
    "args": dict(durs=[0], pads=["E0", "E1010"], args=["t1", "tm1", "tm2", "base", "bad"], sizes=[]),
    "size": dict(durs=[0], pads=["E1010", "A32"], args=["bad"], sizes=[(1, 1), (2, 1), (2, 2)]),
    # every cached profile offers at least two paddings that differ from each other (a padded frame stored in
    # the cache only shows after the padding changed to another one that pads)
    # ... and two that pad to the SAME size with different output (a memo keyed by the padded size)
    "one": dict(durs=[0], pads=["E0", "E1010", "E2000"], args=["tm1", "tm2", "bad"], sizes=[]),
    "pad": dict(durs=[0], pads=["E0", "E1010", "E2000", "A32", "Arel", "Arel2"], args=["bad"], sizes=[(1, 1)]),
}


def alphabet(cfg):
    p = PROFILES[cfg["profile"]]
    n = cfg["n"]
    n = int(n[1:]) if isinstance(n, str) else n
    ops = [("next",), ("close",)] + seeks(n)
    ops += [("dur", d) for d in p["durs"]] + [("pad", k) for k in p["pads"]]
    ops += [("args", a) for a in p["args"]] + [("size", w, h) for (w, h) in p["sizes"]]
    ops += [("term", c, r) for (c, r) in p.get("terms", [])]
    return ops


def op_sig(op):
    """The part of an operation that goes into a violation signature (no free-running values)."""
    names = dict(next="next", close="close", seek="seek", dur="set_frame_duration", pad="set_padding",
                 args="set_render_args", size="set_render_size", term="terminal-resize")
    arg = None
    if op[0] == "seek":
        arg = op[2]
    elif op[0] == "pad":
        p = PADS[op[1]]
        arg = "exact" if p[0] == "exact" else ("aligned-absolute" if p[1] > 0 < p[2] else "aligned-relative")
    elif op[0] == "args":
        arg = "incompatible" if op[1] == "bad" else "compatible"
    elif op[0] == "dur":
        arg = "DYNAMIC" if op[1] == "DYN" else ("valid" if op[1] > 0 else "invalid")
    return names[op[0]], arg


def res_sig(res):
    return res[0] if res[0] != "raise" else "raise:" + res[1]


# ------------------------------------------------------------------------------ judging one transition
def judge(im, mo, op, cfg, history_ops):
    """Apply *op* to the real iterator and to the model; returns (observation, violation|None).
    violation = (signature, what)."""
    before = impl_canon(im)
    res_i, seeks_i = im.apply(op)
    res_m, seeks_m = mo.apply(op)
    loop_i = im.it.loop
    obs = (res_i, loop_i, tuple(seeks_i))
    name, arg = op_sig(op)

    def v(clause, what, **kw):
        sig = dict(clause=clause, op=name, arg=arg)
        sig.update(kw)
        return obs, (sig, f"{what} [cfg={cfg} after {len(history_ops)} ops, op={op}]")

    if res_sig(res_i) != res_sig(res_m):
        return v("outcome", f"{name}({op[1:]}) -> {res_sig(res_i)}, the documented behaviour is {res_sig(res_m)}",
                 got=res_sig(res_i), want=res_sig(res_m))
    if res_i[0] == "frame":
        for i, field in ((1, "number"), (2, "duration"), (3, "size"), (4, "output")):
            if res_i[i] != res_m[i]:
                return v("frame-" + field, f"yielded frame {field} {res_i[i]!r}, documented {res_m[i]!r} "
                         f"(frame {res_i[1:4]} vs {res_m[1:4]})")
    if loop_i != mo.loop:
        return v("loop", f"loop countdown is {loop_i}, documented {mo.loop}")
    if im.r.tell() != im.tell0:
        return v("renderable-tell", f"the renderable's current frame moved from {im.tell0} to {im.r.tell()}")
    if list(seeks_i) != list(seeks_m):
        return v("indefinite-seek-handoff", f"the INDEFINITE source was handed {list(seeks_i)}, documented {seeks_m}")
    if res_m[0] == "raise" and impl_canon(im) != before:
        return v("rejected-op-changed-state", f"{name} was rejected ({res_sig(res_i)}) but changed the iterator")
    return obs, None


def replay_ops(cfg, ops_list, cache=None):
    """Fresh real objects + fresh model driven through *ops_list* without judging."""
    ensure_world()
    im, mo = Impl(cfg, cache), Model(cfg)
    for op in ops_list:
        im.apply(op)
        mo.apply(op)
    return im, mo


def state_key(im, mo):
    return h64(repr((impl_canon(im), mo.canon())))


class Explorer:
    """BFS over histories of one configuration to the fixpoint of (implementation canon, model state)."""

    def __init__(self, cfg, col, record_graph=False, max_states=None):
        self.cfg, self.col = cfg, col
        self.ops = alphabet(cfg)
        self.graph = {} if record_graph else None
        self.max_states = max_states
        self.states = self.transitions = self.max_depth = 0
        self.capped = False
        self.key0 = None

    def case(self, h, op):
        return dict(cfg=self.cfg, history=[list(self.ops[i]) for i in h], op=list(op))

    def run(self):
        cfg, ops, col = self.cfg, self.ops, self.col
        ensure_world()
        self.key0 = key0 = state_key(Impl(cfg), Model(cfg))
        seen = {key0}
        frontier = collections.deque([((), key0)])
        while frontier:
            h, hkey = frontier.popleft()
            self.max_depth = max(self.max_depth, len(h))
            hops = [ops[i] for i in h]
            row = [] if self.graph is not None else None
            pair = None
            for oi, op in enumerate(ops):
                if pair is None:
                    pair = replay_ops(cfg, hops)
                im, mo = pair
                col.count()
                self.transitions += 1
                obs, viol = judge(im, mo, op, cfg, hops)
                nkey = None
                if viol is not None:
                    col.violation(viol[0], viol[1], self.case(h, op))
                    pair = None
                else:
                    nkey = state_key(im, mo)
                    if nkey != hkey:         # the objects moved on: rebuild for the next operation
                        pair = None
                    if nkey not in seen:
                        if self.max_states is not None and len(seen) >= self.max_states:
                            self.capped = True
                        else:
                            seen.add(nkey)
                            frontier.append((h + (oi,), nkey))
                            col.add_distinct(h64(repr((sorted(cfg.items()), nkey))))
                            if len(seen) % 1499 == 0:
                                col.sample(self.case(h, op))
                if row is not None:
                    row.append((h64(repr(obs)), nkey))
            if row is not None:
                self.graph[hkey] = row
        self.states = len(seen)
        return self


def unmerged(ex, depth, col, first=None):
    """Every history of exactly *depth* operations (optionally: starting with operation *first*),
    executed without merging; every step is judged and must land on the state the merged graph
    predicts with the observation it recorded."""
    cfg, ops, graph = ex.cfg, ex.ops, ex.graph
    n = 0
    heads = [range(len(ops))] if first is None else [[first]]
    for h in itertools.product(*heads, *[range(len(ops))] * (depth - 1)):
        ensure_world()
        im, mo = Impl(cfg), Model(cfg)
        key = ex.key0
        n += 1
        col.count()
        for j, oi in enumerate(h):
            op = ops[oi]
            hops = [ops[i] for i in h[:j]]
            obs, viol = judge(im, mo, op, cfg, hops)
            want_obs, want_key = graph[key][oi]
            if viol is not None:
                col.violation(viol[0], viol[1], ex.case(h[:j], op))
                if want_key is not None:
                    raise world.HarnessError(f"unmerged history {h[:j + 1]} violates but the merged graph does not: {cfg}")
                break
            got_key = state_key(im, mo)
            if h64(repr(obs)) != want_obs or got_key != want_key:
                raise world.HarnessError(
                    f"canon unsound: history {[ops[i] for i in h[:j + 1]]} of {cfg} observes {obs} / state {got_key}, "
                    f"the merged graph predicts {want_obs} / {want_key}")
            key = got_key
    return n
