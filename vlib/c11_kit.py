"""C11 helpers: PIL tracking / fault injection, loopback HTTP server, source images.

* `Tracker` replaces `PIL.Image.open` (and `new`, `frombytes`), the PIL image methods the library
  calls and the builtin `open` seen by `term_image.image.iterm2`.  A call is *tracked* only when it
  is made directly from a frame of the library (file under $VERIF_REPO/src/term_image) while the
  tracker is armed, so PIL internals and the harness' own (twin) work never count.
  - every image the library opens is recorded together with its underlying file objects and the
    harness keeps strong references: only an explicit close closes the file, the GC cannot mask a
    leak.  "closed" = every recorded file object reports `.closed` (`img.fp is None` is NOT used:
    PIL sets `fp = None` after loading a frame of a multi-frame image while `_fp` stays open).
  - every tracked call is a numbered fault point of the current operation; `fault = (k, kind)`
    raises instead of the k-th call.
  - `close()` calls are logged (object identity) to decide "a caller-supplied image is never closed".
* `start_server` forks a loopback HTTP server process (the workers are daemonic and cannot fork).
"""
from __future__ import annotations

import builtins
import io
import linecache
import os
import sys

from . import imgkit, world


class InjectedOSError(OSError):
    pass


class InjectedValueError(ValueError):
    pass


KINDS = {"OSError": InjectedOSError, "ValueError": InjectedValueError}

METHODS = ("convert", "resize", "tobytes", "save", "seek", "getdata", "alpha_composite", "putalpha",
           "getchannel")


def injected_in(exc):
    """Is an injected fault the exception or in its cause/context chain?"""
    seen = 0
    while exc is not None and seen < 8:
        if isinstance(exc, (InjectedOSError, InjectedValueError)):
            return True
        exc = exc.__cause__ or exc.__context__
        seen += 1
    return False


class Rec:
    __slots__ = ("img", "files", "path", "filebacked", "op", "owner", "repaired", "site")

    def __init__(self, img, op, site):
        self.img = img
        files = []
        for f in (getattr(img, "fp", None), getattr(img, "_fp", None)):
            if f is not None and hasattr(f, "closed") and all(f is not g for g in files):
                files.append(f)
        self.files = files
        self.path = getattr(img, "filename", "") or ""
        self.filebacked = any(isinstance(f, (io.BufferedReader, io.FileIO)) for f in files)
        self.op = op
        self.owner = None       # iterator slot that legitimately owns it
        self.repaired = False   # leak already reported and closed by the harness
        self.site = site

    def is_open(self):
        return any(not f.closed for f in self.files)

    def force_close(self):
        for f in self.files:
            try:
                f.close()
            except Exception:
                pass


class RawRec:
    """A plain file the library opened with the builtin open()."""
    __slots__ = ("f", "op", "site", "repaired")

    def __init__(self, f, op, site):
        self.f, self.op, self.site, self.repaired = f, op, site, False

    def is_open(self):
        return not self.f.closed

    def force_close(self):
        try:
            self.f.close()
        except Exception:
            pass


class Tracker:
    def __init__(self):
        self.installed = False
        self.libdir = None
        self.orig = {}
        self.reset()

    # ------------------------------------------------------------------ per execution / per op
    def reset(self):
        self.records = []
        self.raw = []
        self.closed_ids = set()
        self.armed = False
        self.op = None
        self.points = []
        self.fault = None
        self.fired = None

    def scrub(self):
        """PIL parks a ValueError in a closed image (`im = DeferredError(ex)`); every later use raises that very
        object, so its traceback pins the library frames (and through them iterators / images) for as long as
        the harness keeps the PIL image alive.  Real callers do not keep it; drop the tracebacks."""
        for r in self.records:
            for v in r.img.__dict__.values():
                if type(v).__name__ == "DeferredError":
                    ex = v.__dict__.get("ex")
                    if ex is not None:      # (raised while another exception was handled: context chain too)
                        ex.__traceback__ = None
                        ex.__context__ = None
                        ex.__cause__ = None

    def begin_op(self, op, fault=None):
        self.scrub()
        self.op = op
        self.points = []
        self.fault = fault
        self.fired = None
        self.armed = True

    def end_op(self):
        self.armed = False
        self.fault = None
        self.scrub()

    # ------------------------------------------------------------------ plumbing
    def _lib_frame(self, depth=2):
        f = sys._getframe(depth)
        fn = f.f_code.co_filename
        if fn.startswith(self.libdir):
            return f
        return None

    def _site(self, name, f):
        mod = os.path.splitext(os.path.basename(f.f_code.co_filename))[0]
        step = f"{name}@{mod}.{f.f_code.co_name}"
        line = (linecache.getline(f.f_code.co_filename, f.f_lineno) or "").strip()
        return step, line

    def _chain(self, f, limit=10):
        """Names of the library functions on the stack, outermost first (identifies *which* open it is)."""
        names = []
        while f is not None and len(names) < limit:
            if f.f_code.co_filename.startswith(self.libdir) and not f.f_code.co_name.endswith("_wrapper"):
                names.append(f.f_code.co_name)
            f = f.f_back
        names.reverse()
        return ">".join(n for i, n in enumerate(names) if i == 0 or names[i - 1] != n)

    def _point(self, name, f):
        step, line = self._site(name, f)
        self.points.append((step, line))
        flt = self.fault
        if flt is not None and self.fired is None and flt[0] == len(self.points):
            self.fired = (step, line)
            raise KINDS[flt[1]](f"injected fault at {step}")
        return step, line

    def install(self):
        if self.installed:
            return
        L = world.load()
        import PIL.Image as PI
        from PIL import Image as _I  # noqa

        PI.init()
        self.libdir = os.path.join(os.path.realpath(os.path.join(world.REPO, "src")), "term_image") + os.sep
        lib_file = os.path.realpath(L.common.__file__)
        if not lib_file.startswith(self.libdir):
            self.libdir = os.path.dirname(os.path.dirname(lib_file)) + os.sep
        T = self
        orig_open = PI.open
        self.orig["open"] = orig_open

        def t_open(*a, **k):
            f = T._lib_frame() if T.armed else None
            if f is None:
                return orig_open(*a, **k)
            site = T._point("open", f)
            img = orig_open(*a, **k)
            T.records.append(Rec(img, T.op, site + (T._chain(f),)))
            return img

        PI.open = t_open

        for fname in ("new", "frombytes"):
            orig = getattr(PI, fname)
            self.orig[fname] = orig

            def t_func(*a, _orig=orig, _name=fname, **k):
                f = T._lib_frame() if T.armed else None
                if f is not None:
                    T._point(_name, f)
                return _orig(*a, **k)

            setattr(PI, fname, t_func)

        def all_subclasses(c):
            out = [c]
            for s in c.__subclasses__():
                out.extend(all_subclasses(s))
            return out

        classes = all_subclasses(PI.Image)
        for name in METHODS:
            for c in classes:
                orig = c.__dict__.get(name)
                if orig is None or not callable(orig):
                    continue

                def t_meth(self, *a, _orig=orig, _name=name, **k):
                    f = T._lib_frame() if T.armed else None
                    if f is not None:
                        T._point(_name, f)
                    return _orig(self, *a, **k)

                t_meth.__name__ = name
                setattr(c, name, t_meth)
        for c in classes:
            orig = c.__dict__.get("close")
            if orig is None:
                continue

            def t_close(self, _orig=orig):
                if T.armed:
                    T.closed_ids.add(id(self))
                return _orig(self)

            setattr(c, "close", t_close)

        def t_rawopen(file, mode="r", *a, **k):
            f = T._lib_frame() if T.armed else None
            if f is None:
                return builtins.open(file, mode, *a, **k)
            site = T._point("open-raw", f)
            fo = builtins.open(file, mode, *a, **k)
            T.raw.append(RawRec(fo, T.op, site + (T._chain(f),)))
            return fo

        L.iterm2.open = t_rawopen
        from . import world as _world

        _world.adopt(L.iterm2, "open")
        self.installed = True

    def orig_open(self, *a, **k):
        return self.orig["open"](*a, **k)


TRACKER = Tracker()


# ---------------------------------------------------------------------------------- source images
W_PX, H_PX = 4, 6


def _pattern_frames(n, mode):
    return [imgkit.pattern(W_PX, H_PX, mode, seed=k + 1) for k in range(n)]


_FILES = {}


def files():
    """Paths of the source files (created once, before forking)."""
    if _FILES:
        return _FILES
    d = imgkit.tmpdir()
    g = imgkit.gif(W_PX, H_PX, 3, path=os.path.join(d, "c11-anim.gif"))
    _FILES["gif"] = g
    _FILES["gif2"] = imgkit.gif(W_PX, H_PX, 2, path=os.path.join(d, "c11-anim2.gif"), duration=70)
    for mode, key in (("RGBA", "apng"), ("RGB", "apng-rgb")):
        p = os.path.join(d, f"c11-{key}.png")
        fr = _pattern_frames(2, mode)
        fr[0].save(p, save_all=True, append_images=fr[1:], duration=100, loop=0)
        _FILES[key] = p
    _FILES["png"] = imgkit.png(W_PX, H_PX, "RGBA", path=os.path.join(d, "c11-still.png"))
    _FILES["png-rgb"] = imgkit.png(W_PX, H_PX, "RGB", path=os.path.join(d, "c11-still-rgb.png"), alpha="opaque")
    p = os.path.join(d, "c11-text.gif")
    with open(p, "wb") as f:
        f.write(b"this is not an image, whatever the name says\n" * 3)
    _FILES["text"] = p
    return _FILES


def file_bytes(key):
    with open(files()[key], "rb") as f:
        return f.read()


N_FRAMES = {"gif": 3, "gif2": 2, "apng": 2, "apng-rgb": 2, "png": 1, "png-rgb": 1}


# ---------------------------------------------------------------------------------- HTTP server
def _serve(conn, routes):
    import http.server

    class H(http.server.BaseHTTPRequestHandler):
        protocol_version = "HTTP/1.0"

        def do_GET(self):
            r = routes.get(self.path)
            if r is None:
                status, ctype, body = 404, "text/html", b"<html><body>404 not found</body></html>"
            else:
                status, ctype, body = r
            self.send_response(status)
            self.send_header("Content-Type", ctype)
            self.send_header("Content-Length", str(len(body)))
            self.end_headers()
            self.wfile.write(body)

        def log_message(self, *a):
            pass

    srv = http.server.ThreadingHTTPServer(("127.0.0.1", 0), H)
    conn.send(srv.server_address[1])
    conn.close()
    srv.serve_forever()


_SERVER = None


def start_server():
    """Fork the loopback server (idempotent); returns the port."""
    global _SERVER
    if _SERVER is not None:
        return _SERVER[1]
    import atexit
    import multiprocessing as mp

    routes = {
        "/anim.gif": (200, "image/gif", file_bytes("gif")),
        "/a/x.gif": (200, "image/gif", file_bytes("gif")),       # same base name, different contents
        "/b/x.gif": (200, "image/gif", file_bytes("gif2")),
        "/anim.png": (200, "image/png", file_bytes("apng")),
        "/still.png": (200, "image/png", file_bytes("png")),
        "/text.gif": (200, "image/gif", file_bytes("text")),
        "/empty.gif": (200, "image/gif", b""),
        "/error.gif": (500, "text/plain", b"internal error"),
        "/gone-with-image.gif": (404, "image/gif", file_bytes("gif")),
    }
    ctx = mp.get_context("fork")
    a, b = ctx.Pipe(duplex=False)
    p = ctx.Process(target=_serve, args=(b, routes), daemon=True)
    p.start()
    b.close()
    port = a.recv()
    a.close()
    pid = os.getpid()

    def stop():
        if os.getpid() == pid and p.is_alive():
            p.terminate()

    atexit.register(stop)
    _SERVER = (p, port)
    return port


def stop_server():
    global _SERVER
    if _SERVER is not None:
        p = _SERVER[0]
        if p.is_alive():
            p.terminate()
            p.join(2)
        _SERVER = None


def nfds():
    return len(os.listdir("/proc/self/fd"))
