"""Reference model for C12 / C13: what a terminal's replies *mean*, written from the XParseColor
man page, the xterm ctlseqs document (XTVERSION, XTWINOPS 14/16, OSC 10/11, DA1), the kitty
graphics protocol and the class docstrings of KittyImage / ITerm2Image - not from the code under
test.  Also the instrumented tty used by both checks.
"""
from __future__ import annotations

import copy
from fractions import Fraction

from . import world


# ------------------------------------------------------------------------------------ colours
def ref_component(digits: str):
    """XParseColor `rgb:` device specification: a component of n hex digits (1 <= n <= 4) is a
    value *scaled in 4n bits*, i.e. v / (16**n - 1) of full intensity, independently of the other
    components.  Scaled into 0..255 this is the rational v * 255 / (16**n - 1); the statement does
    not fix the rounding, so both neighbouring integers are accepted (only one when exact).
    """
    n = len(digits)
    assert 1 <= n <= 4
    exact = Fraction(int(digits, 16) * 255, 16 ** n - 1)
    lo = exact.numerator // exact.denominator
    return {lo} if exact.denominator == 1 else {lo, lo + 1}


def ref_colour(spec):
    """'rgb:R/G/B' -> tuple of three sets of acceptable 0..255 values (None for no reply)."""
    if spec is None:
        return None
    if isinstance(spec, bytes):
        spec = spec.decode()
    assert spec.startswith("rgb:")
    comps = spec[4:].split("/")
    assert len(comps) == 3
    return tuple(ref_component(c) for c in comps)


def colour_ok(got, ref):
    """got: what the library returned for one colour (tuple or None)."""
    if ref is None:
        return got is None
    if not (isinstance(got, tuple) and len(got) == 3):
        return False
    return all(isinstance(g, int) and g in acc for g, acc in zip(got, ref))


def hex_ok(got, ref):
    if ref is None:
        return got is None
    if not (isinstance(got, str) and len(got) == 7 and got[0] == "#"):
        return False
    try:
        rgb = tuple(int(got[i:i + 2], 16) for i in (1, 3, 5))
    except ValueError:
        return False
    return colour_ok(rgb, ref)


def widths(spec):
    if spec is None:
        return None
    if isinstance(spec, bytes):
        spec = spec.decode()
    return tuple(len(c) for c in spec[4:].split("/"))


# ------------------------------------------------------------------------------------ identity
def ref_name_version(text):
    """XTVERSION reports `DCS > | text ST`; terminals use `name(version)` or `name version`."""
    if text is None:
        return (None, None)
    if isinstance(text, bytes):
        text = text.decode()
    cut = min((i for i in (text.find("("), text.find(" ")) if i >= 0), default=-1)
    assert cut > 0, text
    name, rest = text[:cut], text[cut + 1:]
    if text[cut] == "(" and rest.endswith(")"):
        rest = rest[:-1]
    return (name.lower(), rest)


def ver_tuple(version):
    """Dotted decimal version -> tuple of ints, or None when it is not one."""
    if not version:
        return None
    parts = version.split(".")
    if not all(p.isascii() and p.isdigit() for p in parts):
        return None
    return tuple(int(p) for p in parts)


def _ge(v, ref):
    n = max(len(v), len(ref))
    return tuple(v) + (0,) * (n - len(v)) >= tuple(ref) + (0,) * (n - len(ref))


def ref_kitty(name, version, kreply):
    """KittyImage docstring: 'Kitty >= 0.20.0, Konsole >= 22.04.0' + the protocol's own support
    query (an `OK` reply to `a=q`).  True / False / None (= not decided by the documentation)."""
    if kreply != b"OK":
        return False            # the terminal did not acknowledge the graphics protocol
    if name == "kitty":
        v = ver_tuple(version)
        if v is None:
            return None         # version string not understood
        return _ge(v, (0, 20, 0))
    if name == "konsole":
        v = ver_tuple(version)
        if v is None:
            return None
        # docstring says >= 22.04.0; older Konsoles never answer OK, the designer's table accepts
        # any Konsole that does -> not decided for an (unreal) old Konsole answering OK
        return True if _ge(v, (22, 4, 0)) else None
    return False


def ref_iterm2(name, version):
    """ITerm2Image docstring: iTerm2, Konsole >= 22.04.0, WezTerm."""
    if name in ("iterm2", "wezterm"):
        return True
    if name == "konsole":
        v = ver_tuple(version)
        if v is None:
            return None
        return _ge(v, (22, 4, 0))
    return False


# ------------------------------------------------------------------------------------ cell size
def ref_cell(cols, rows, xpx, ypx, t16, t14, swap, enabled):
    """ioctl pixel size when present (both non-zero), else XTWINOPS 16 (cell size, height;width),
    else XTWINOPS 14 (text area, height;width) divided by the terminal size; the swap workaround
    swaps reported *window* dimensions.  None = undetermined."""

    def fin(cell):
        return None if 0 in cell else tuple(cell)

    if xpx and ypx:
        ta = (ypx, xpx) if swap else (xpx, ypx)
        return fin((ta[0] // cols, ta[1] // rows))
    if not enabled:
        return None
    if t16 is not None:
        return fin((t16[1], t16[0]))
    if t14 is not None:
        ta = (t14[1], t14[0])
        if swap:
            ta = ta[::-1]
        return fin((ta[0] // cols, ta[1] // rows))
    return None


# ------------------------------------------------------------------------------------ termios
def norm_attrs(attrs):
    """The kernel's struct termios, byte for byte: control characters as integers (Python's
    termios presents VMIN/VTIME as ints in raw mode and everything else as 1-byte strings)."""
    a = list(attrs)
    cc = []
    for c in a[6]:
        if isinstance(c, (bytes, bytearray)):
            cc.append(c[0] if len(c) else 0)
        else:
            cc.append(int(c))
    return (a[0], a[1], a[2], a[3], a[4], a[5], tuple(cc))


def attrs_diff(before, after):
    names = ("iflag", "oflag", "cflag", "lflag", "ispeed", "ospeed", "cc")
    b, a = norm_attrs(before), norm_attrs(after)
    out = []
    for i, n in enumerate(names[:6]):
        if b[i] != a[i]:
            out.append(f"{n}: {b[i]:#o} -> {a[i]:#o}")
    for j, (x, y) in enumerate(zip(b[6], a[6])):
        if x != y:
            out.append(f"cc[{j}]: {x} -> {y}")
    return ", ".join(out)


ATTR_SETS = {
    "canon-echo": (True, True, 1, 0),
    "canon-noecho": (True, False, 1, 0),
    "raw-echo-vmin1": (False, True, 1, 0),
    "raw-noecho-vmin0-vtime5": (False, False, 0, 5),
    "raw-noecho-vmin3-vtime2": (False, False, 3, 2),
    "canon-echo-vmin0": (True, True, 0, 0),
    "raw-noecho-vmin0-vtime0": (False, False, 0, 0),     # exactly read_tty(echo=False)'s own working mode
    "raw-echo-vmin0-vtime0": (False, True, 0, 0),        # exactly read_tty(echo=True)'s own working mode
}


def make_attrs(name):
    return world.default_attrs(*ATTR_SETS[name])


class TraceTty(world.VTty):
    """VTty that records the realised delivery trace and whether a wait expired while replies were
    still undelivered (= a reply later than the timeout, outside C12's premise)."""

    def __init__(self, *a, **kw):
        super().__init__(*a, **kw)
        self.trace = []
        self.expired_with_pending = False
        self.nwrites = 0
        self.initial_attrs = copy.deepcopy(self.attrs)
        self.restoring_instead = False   # the fault replaced a tcsetattr(initial attrs)
        self.changed_ever = False        # the attributes differed from the initial ones at some point
        self.fault_kind = None           # kind of the environment call the fault is attached to
        self.log_calls = False

    def _deliver(self, k, delay):
        self.trace.append((k, round(delay, 9)))
        super()._deliver(k, delay)

    def _wait(self, timeout, force=False):
        had_input = bool(self.inq) and not force
        ok = super()._wait(timeout, force)
        if not ok and not had_input and self.pending and timeout is not None and timeout > 0:
            self.expired_with_pending = True
            self.trace.append((0, "expired"))
        return ok

    def write(self, fd, data):
        self.nwrites += 1
        return super().write(fd, data)

    def tcdrain(self, fd):
        n0 = len(self.pending)
        try:
            return super().tcdrain(fd)
        finally:
            if len(self.pending) < n0 and self.trace:
                self.trace[-1] = (n0 - len(self.pending), "eager")   # queued before the application's next call

    def tcsetattr(self, fd, when, attrs):
        try:
            return super().tcsetattr(fd, when, attrs)
        finally:
            if norm_attrs(self.attrs) != norm_attrs(self.initial_attrs):
                self.changed_ever = True

    def _enter(self, kind, detail=None):
        f = self.fault
        if f and f[0] == self.ncalls + 1:
            self.fault_kind = kind
        if (f and not self.fault_fired and f[1] == "instead" and f[0] == self.ncalls + 1
                and kind == "tcsetattr" and norm_attrs(detail[1]) == norm_attrs(self.initial_attrs)
                and norm_attrs(self.attrs) != norm_attrs(self.initial_attrs)):
            self.restoring_instead = True
        return super()._enter(kind, detail)
