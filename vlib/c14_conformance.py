"""C14 conformance smoke run (DESIGN 3/C14, not counted as exploration).

Runs the *real* library with *real* multiprocessing on a *real* pty and checks the facts the
process model of vlib/sched.py assumes about what crosses `Process.start`:

  1. with a tty present at import, `Process.start` / `Process.run` are the library's wrappers;
  2. the first start replaces the thread lock by a cross-process lock in the parent and stores it
     (and the shared cell-size array) on the process object;
  3. the child - fork, spawn or forkserver - ends up with a `_tty_lock` that excludes the parent's
     (the parent holds it: the child's non-blocking acquire fails; released: it succeeds);
  4. a spawn / forkserver child starts from import state (its `_tty_lock` before `run` is not the
     parent's) - observable because (3) only holds through the run wrapper.

`run_smoke()` (called by the check) starts this file as a script whose stdio is a pty slave and
reads the JSON report from a scratch file.  Returns (ok, report | reason).
"""
from __future__ import annotations

import json
import os
import subprocess
import sys


if __name__ in ("__main__", "__mp_main__"):
    # like an application that uses the library: imported by the main module, hence also by the
    # main module of a spawn / forkserver child before its process object runs
    import term_image.utils as u


def tname(x):
    return f"{type(x).__module__}.{type(x).__name__}"


def child(go, done, q):
    rep = dict(lock_type=tname(u._tty_lock), cache_type=tname(u._cell_size_cache))
    go.wait(20)
    got = u._tty_lock.acquire(False)
    rep["acquired_while_parent_holds"] = bool(got)
    if got:
        u._tty_lock.release()
    q.put(rep)
    done.wait(20)
    got = u._tty_lock.acquire(True, 10)
    if got:
        u._tty_lock.release()

    @u.lock_tty
    def probe():
        return "in"

    q.put(dict(acquired_after_release=bool(got), probe=probe()))


def main(out, api, method):
    import multiprocessing as mp

    report = dict(api=api, method=method, tty_fd=u._tty_fd, lock_before=tname(u._tty_lock), starts=[])
    if api == "Process":
        mp.set_start_method(method, force=True)
        ctx, P = mp, mp.Process
    else:
        ctx = mp.get_context(method)
        P = ctx.Process
    report["start_wrapped"] = P.start is u._process_start_wrapper
    report["run_wrapped"] = P.run is u._process_run_wrapper
    for k in range(2):          # first start (migration) and second start (already migrated)
        go, done, q = ctx.Event(), ctx.Event(), ctx.Queue()
        p = P(target=child, args=(go, done, q))
        p.start()
        lock = u._tty_lock
        r = dict(parent_lock_after=tname(lock), on_object=getattr(p, "_tty_lock", None) is lock,
                 cache_on_object=getattr(p, "_cell_size_cache", None) is u._cell_size_cache,
                 parent_cache_after=tname(u._cell_size_cache))
        lock.acquire()
        go.set()
        try:
            r.update(q.get(timeout=30))
        finally:
            lock.release()
        done.set()
        r.update(q.get(timeout=30))
        p.join(30)
        r["exitcode"] = p.exitcode
        report["starts"].append(r)
    with open(out, "w") as f:
        json.dump(report, f)


def contradictions(report):
    """What the real run shows against the property / the process model's assumptions."""
    bad = []
    if report["tty_fd"] == -1:
        return None
    m = f"{report['api']}/{report['method']}"
    if not (report["start_wrapped"] and report["run_wrapped"]):
        bad.append(f"{m}: start/run of this process class are not the library's wrappers")
    for k, r in enumerate(report["starts"]):
        w = f"{m} start #{k + 1}"
        if r["parent_lock_after"] == report["lock_before"]:
            bad.append(f"{w}: parent lock not migrated ({r['parent_lock_after']})")
        if not r["on_object"] or not r["cache_on_object"]:
            bad.append(f"{w}: lock / cache not stored on the process object")
        if r.get("acquired_while_parent_holds") is not False:
            bad.append(f"{w}: the child acquired the terminal lock while the parent held it")
        if r.get("acquired_after_release") is not True or r.get("probe") != "in":
            bad.append(f"{w}: child could not acquire the lock after the parent released it")
        if r.get("cache_type") != r["parent_cache_after"] or r.get("cache_type") == "builtins.list":
            bad.append(f"{w}: cell-size cache not shared (child {r.get('cache_type')}, parent {r['parent_cache_after']})")
        if r.get("exitcode") != 0:
            bad.append(f"{w}: child exit code {r.get('exitcode')}")
    return bad


def run_smoke(src, api, method, timeout=90):
    """Returns (contradictions | None if not runnable, report | reason)."""
    import pty
    import tempfile

    try:
        master, slave = pty.openpty()
    except OSError as e:
        return None, f"no pty: {e}"
    fd, out = tempfile.mkstemp(prefix="ti-c14-smoke-", suffix=".json", dir="/var/tmp")
    os.close(fd)
    os.unlink(out)
    env = dict(os.environ, PYTHONPATH=src, PYTHONDONTWRITEBYTECODE="1")
    try:
        p = subprocess.Popen([sys.executable, "-W", "ignore", os.path.abspath(__file__), out, api, method],
                             stdin=slave, stdout=slave, stderr=slave, env=env, start_new_session=True,
                             close_fds=True)
        os.close(slave)
        try:
            p.wait(timeout)
        except subprocess.TimeoutExpired:
            p.kill()
            return None, "smoke run timed out"
        try:
            with open(out) as f:
                report = json.load(f)
        except (OSError, ValueError):
            try:
                tail = os.read(master, 4000).decode("utf-8", "replace")
            except OSError:
                tail = ""
            return None, f"smoke run produced no report (exit {p.returncode}): {tail[-600:]}"
        c = contradictions(report)
        if c is None:
            return None, "the library found no tty inside the pty"
        return c, report
    finally:
        try:
            os.close(master)
        except OSError:
            pass
        try:
            os.unlink(out)
        except OSError:
            pass


if __name__ == "__main__":
    main(sys.argv[1], sys.argv[2], sys.argv[3])
