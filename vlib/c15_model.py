"""Reference model for C15 (DESIGN B.4), written from the documentation, not from the code.

A *fact* is a function of the environment description and the switches:

  cell size      = the cell size the terminal reports, else the window pixel size (ioctl, else the
                   text-area report; swapped when the window-size-swap workaround is on) divided by
                   the terminal size in cells; undetermined (None) if nothing gives non-zero numbers
                   or - when a query would be needed - queries are disabled
  fg/bg colours  = what the terminal answers, (None, None) when queries are disabled
  name/version   = what the terminal answers, (None, None) when queries are disabled
  kitty work-around in BlockImage renders = name is "kitty" (disabled when queries are disabled)

A *memo* of a fact records the condition it was computed under.  It may be returned only while
that condition still holds:

  cell size      same terminal size in cells, same swap setting, and not (computed while queries
                 were disabled and queries are enabled now).  A change of the pixel sizes alone need
                 not be noticed (documented: cached per terminal size) but may be.
  query memos    not (computed while queries were disabled and queries are enabled now)
  terminal_size_cached   same terminal size in cells as at the last call, not invalidated
  cached         until invalidated; the body runs once per distinct argument tuple

`AutoCellRatio.is_supported` is modelled as documented: determined once (None -> bool), then kept.
"""
from __future__ import annotations

from collections import namedtuple

Env = namedtuple("Env", "cols rows xpx ypx q_cell q_area")   # q_cell / q_area: (w, h) or None

ENVS = [
    Env(10, 5, 0, 0, None, (30, 40)),      # 0 no pixels from ioctl: text-area query -> (3, 8); swapped (4, 6)
    Env(10, 5, 0, 0, None, (50, 40)),      # 1 pure pixel change of 0 -> (5, 8); swapped (4, 10)
    Env(10, 4, 30, 40, None, (30, 40)),    # 2 same columns, other rows, pixels from ioctl -> (3, 10); swapped (4, 7)
    Env(8, 4, 32, 40, None, (32, 40)),     # 3 other size, ioctl -> (4, 10); swapped (5, 8)
    Env(10, 5, 30, 45, None, (30, 45)),    # 4 size of 0, ioctl path -> (3, 9); swapped (4, 6)
    Env(10, 5, 0, 0, (3, 7), (30, 40)),    # 5 size of 0, terminal reports the cell size itself: (3, 7)
    Env(8, 4, 0, 0, None, None),           # 6 size of 3, nothing known: None (auto cell ratio unsupported)
    Env(10, 4, 40, 44, None, (40, 44)),    # 7 size of 2 with other pixels (ioctl) -> (4, 11); swapped (4, 10):
                                           #   2 -> (0 with queries disabled: nothing determined) -> 7 is a change of
                                           #   the size in cells that a one-entry cache left un-updated would miss
    Env(8, 5, 0, 0, None, (24, 45)),       # 8 other size, again no pixels from ioctl: query -> (3, 9); swapped (5, 4)
]

FACTS = dict(name=("kitty", "0.30.1"), fg=(255, 255, 255), bg=(0, 0, 0))


def fresh_cell(env, queries, swap):
    if env.xpx and env.ypx:
        area = (env.xpx, env.ypx)
    elif not queries:
        return None
    elif env.q_cell:
        return None if 0 in env.q_cell else tuple(env.q_cell)
    elif env.q_area:
        area = tuple(env.q_area)
    else:
        return None
    if swap:
        area = area[::-1]
    cell = (area[0] // env.cols, area[1] // env.rows)
    return None if 0 in cell else cell


def ratio_of(cell):
    w, h = cell or (1, 2)
    return w / h


def px_sig(env):
    return (env.xpx, env.ypx, env.q_cell, env.q_area)


def fmt_colors(hexkw):
    fg, bg = FACTS["fg"], FACTS["bg"]
    if hexkw == 1:
        return ("#%02x%02x%02x" % fg, "#%02x%02x%02x" % bg)
    return (fg, bg)


class Mismatch(Exception):
    def __init__(self, clause, what, **sig):
        super().__init__(what)
        self.clause, self.what, self.sig = clause, what, sig


_FIELDS = ("e", "queries", "swap", "cell", "ratio", "supported", "support_dis", "colors", "name", "kitty", "tsc",
           "cached", "fail")


class St(namedtuple("St", _FIELDS)):
    """One model state.  cell = (size, swap, computed_while_disabled, value) | None; ratio = float |
    None (DYNAMIC); colors = 3 memos for get_fg_bg_colors() / (hex=False) / (hex=True), each
    (value, computed_while_disabled) | None; name, kitty likewise; tsc = (value, size) | None;
    cached = 2 memos (value | None) for the two argument tuples."""
    __slots__ = ()


def initial(env0=0):
    return St(env0, True, False, None, 0.5, None, False, (None, None, None), None, None, None, (None, None), False)


class Model:
    """Nondeterministic specification, tracked as the set of model states consistent with what was
    observed so far (`belief`).  A getter may return a memoized value only while the condition it
    was computed under still holds, and may always recompute."""

    def __init__(self, envs, env0=0):
        self.envs = envs
        self.belief = {initial(env0)}
        self.notes = set()

    def key(self):
        return tuple(sorted(self.belief, key=repr))

    # ------------------------------------------------------------------ facts with memos
    def _env(self, st):
        return self.envs[st.e]

    def _size(self, st):
        e = self.envs[st.e]
        return (e.cols, e.rows)

    def _get_cell(self, st, lenient=False):
        """yields (state, value, stale-tags)"""
        m = st.cell
        size = self._size(st)
        if m is not None:
            why = None
            if m[0] != size:
                why = "terminal-size-changed"
            elif m[1] != st.swap:
                why = "swap-toggled"
            elif m[2] and st.queries:
                why = "queries-re-enabled"
            if why is None:
                yield st, m[3], ()
            elif lenient:
                yield st, m[3], ("cell-size:" + why,)
        fresh = fresh_cell(self._env(st), st.queries, st.swap)
        yield st._replace(cell=(size, st.swap, not st.queries, fresh)), fresh, ()

    def _get_memo(self, st, field, idx, fresh, lenient, label):
        m = getattr(st, field)
        if idx is not None:
            m = m[idx]
        if m is not None:
            if not (m[1] and st.queries):
                yield st, m[0], ()
            elif lenient:
                yield st, m[0], (label + ":queries-re-enabled",)
        for st2, v, tags in fresh(st):
            new = (v, not st2.queries)
            if idx is not None:
                cur = list(getattr(st2, field))
                cur[idx] = new
                new = tuple(cur)
            yield st2._replace(**{field: new}), v, tags

    def _get_name(self, st, lenient=False):
        def fresh(s):
            yield s, (FACTS["name"] if s.queries else (None, None)), ()
        return self._get_memo(st, "name", None, fresh, lenient, "name-version")

    def _get_colors(self, st, hexkw, lenient=False):
        def fresh(s):
            yield s, (fmt_colors(hexkw) if s.queries else (None, None)), ()
        return self._get_memo(st, "colors", hexkw + 1, fresh, lenient, "fg-bg-colors")

    def _get_kitty(self, st, lenient=False):
        def fresh(s):
            for s2, nm, tags in self._get_name(s, lenient):
                yield s2, nm[0] == "kitty", tags
        return self._get_memo(st, "kitty", None, fresh, lenient, "is-on-kitty")

    # ------------------------------------------------------------------ operations: yield (state, prediction, tags)
    def _op(self, st, op, lenient=False):
        k = op[0]
        if k == "resize":
            yield st._replace(e=op[1]), None, ()
        elif k == "swap":
            yield st._replace(swap=bool(op[1])), None, ()
        elif k == "queries":
            yield st._replace(queries=bool(op[1])), None, ()
        elif k == "cell_size":
            yield from self._get_cell(st, lenient)
        elif k == "cell_size_silent":
            # the terminal answers this get's query too late (if it needs one): the documented outcome
            # is "undetermined", which may be memoized like any other result for this size
            yield from self._get_cell(st, lenient)
            e = self._env(st)
            if st.queries and not (e.xpx and e.ypx) and (e.q_cell or e.q_area):
                yield st._replace(cell=(self._size(st), st.swap, False, None)), None, ()
        elif k == "cell_size_int":
            # an interrupted get determines nothing and must memoize nothing; if the interruption
            # did not happen it is an ordinary get
            yield st, "interrupted", ()
            yield from self._get_cell(st, lenient)
        elif k == "cell_ratio":
            if st.ratio is not None:
                yield st, st.ratio, ()
            else:
                for s, v, t in self._get_cell(st, lenient):
                    yield s, ratio_of(v), t
        elif k == "ratio":
            mode = op[1]
            if isinstance(mode, float):
                yield st._replace(ratio=mode), (False, mode), ()
                return
            if st.supported is None:
                first = [(s._replace(supported=v is not None, support_dis=not s.queries), t)
                         for s, v, t in self._get_cell(st, lenient)]
            else:
                first = [(st, ())]
            for s1, t1 in first:
                if not s1.supported:
                    yield s1, (True, None), t1
                elif mode == "FIXED":
                    for s2, v, t2 in self._get_cell(s1, lenient):
                        r = ratio_of(v)
                        yield s2._replace(ratio=r), (False, r), t1 + t2
                else:
                    for s2, v, t2 in self._get_cell(s1._replace(ratio=None), lenient):
                        yield s2, (False, ratio_of(v)), t1 + t2
        elif k == "name":
            yield from self._get_name(st, lenient)
        elif k == "colors":
            yield from self._get_colors(st, op[1], lenient)
        elif k == "render":
            pixel = op[1] if len(op) > 1 else (0, 0, 0)
            for s1, cols, t1 in self._get_colors(st, -1, lenient):
                for s2, kit, t2 in self._get_kitty(s1, lenient):
                    want = tuple(pixel)
                    if kit and cols[1] == want:
                        r = want[0]
                        want = (r + 1 if r < 255 else r - 1,) + want[1:]
                    yield s2, (cols, want), t1 + t2
        elif k == "tsc":
            size = self._size(st)
            if st.tsc is None or st.tsc[1] != size:
                if st.fail:
                    # the body raises: the exception propagates and nothing is memoized, so the next
                    # call has to run the body again
                    yield st._replace(fail=False), ("raised", 1), ()
                    return
                v = tval(st.e, self._env(st))
                yield st._replace(tsc=(v, size)), (v, 1), ()
            else:
                yield st, (st.tsc[0], 0), ()
                if lenient:
                    pass
        elif k == "tsc_inv":
            yield st._replace(tsc=None), None, ()
        elif k == "tsc_resizing":
            # like "tsc", but if the body runs the terminal changes to environment op[1] meanwhile: the
            # value it returns belongs to the size the call started with, and is memoized for that size
            size = self._size(st)
            if st.tsc is None or st.tsc[1] != size:
                if st.fail:
                    yield st._replace(fail=False), ("raised", 1), ()
                    return
                v = tval(st.e, self._env(st))
                yield st._replace(tsc=(v, size), e=op[1]), (v, 1), ()
            else:
                yield st, (st.tsc[0], 0), ()
        elif k == "cached":
            a = op[1]
            if st.cached[a] is None and st.fail:
                yield st._replace(fail=False), ("raised", 1), ()
            elif st.cached[a] is None:
                v = cval(a, st.e)
                c = list(st.cached)
                c[a] = (v,)             # boxed: the memoized value may itself be None
                yield st._replace(cached=tuple(c)), (v, 1), ()
            else:
                yield st, (st.cached[a][0], 0), ()
        elif k == "cached_inv":
            yield st._replace(cached=(None, None)), None, ()
        elif k == "fail_next":
            yield st._replace(fail=True), None, ()
        elif k == "start":
            yield st, None, ()      # starting a process changes no terminal fact and no setting
        else:
            raise ValueError(op)

    CLAUSE = dict(tsc_resizing="terminal-size-cached", cell_size="cell-size", cell_size_int="cell-size", cell_size_silent="cell-size", cell_ratio="cell-ratio", ratio="set-cell-ratio", name="name-version",
                  colors="fg-bg-colors", render="kitty-workaround", tsc="terminal-size-cached", cached="cached")

    def step(self, op, obs):
        """Advance the belief by one observed operation; raises Mismatch if nothing explains it."""
        obs = _norm(obs)
        new = set()
        preds = []
        for st in self.belief:
            for s2, pred, _ in self._op(st, op):
                preds.append(pred)
                if _norm(pred) == obs:
                    new.add(s2)
        if new:
            self.belief = new
            if op[0] == "ratio" and obs and obs[0]:
                for st in new:
                    if st.queries and st.support_dis and fresh_cell(self._env(st), True, st.swap) is not None:
                        self.notes.add("AutoCellRatio.is_supported determined while queries were disabled is kept "
                                       "after enable_queries() (documented: determined once) - not counted")
            return
        # diagnosis: would a memo that has outlived its condition explain the observation?
        tags = None      # the smallest set of outlived memos that explains the observation
        for st in sorted(self.belief, key=repr):
            for s2, pred, t in self._op(st, op, lenient=True):
                if _norm(pred) == obs and t:
                    t = tuple(sorted(set(t)))
                    if tags is None or (len(t), t) < (len(tags), tags):
                        tags = t
        sig = dict(stale="+".join(tags) if tags else "no")
        k = op[0]
        if k in ("tsc", "cached", "tsc_resizing") and preds:
            want = _norm(preds[0])
            if "raised" in (obs[0], want[0]) and obs[0] != want[0]:
                sig["how"] = "raised" if obs[0] == "raised" else "did-not-raise"
            elif obs[0] == want[0]:
                sig["how"] = "body-ran-again" if obs[1] > want[1] else "body-did-not-run"
            else:
                sig["how"] = "value"
        uniq = sorted(set(map(repr, preds)))
        raise Mismatch(self.CLAUSE.get(k, k), f"{_opname(op)} gave {obs!r}; acceptable: {', '.join(uniq)}"
                       + (f" - explained only by a memo that outlived its condition ({sig['stale']})" if tags else ""),
                       **sig)


def _norm(x):
    """Comparable form of an observation / prediction; booleans are tagged (False == 0 in Python)."""
    if isinstance(x, (list, tuple)):
        return tuple(_norm(v) for v in x)
    if isinstance(x, bool):
        return ("bool", x)
    return x


FALSY = (None, False, 0, ())


def cval(arg, e):
    """What the `cached` probe body returns for argument *arg* in environment *e*: argument 1 yields a
    falsy value (None / False / 0 / ()), which is a result like any other and must be memoized."""
    return (arg, e) if arg == 0 else FALSY[e % 4]


def tval(e, env):
    """What the `terminal_size_cached` probe body returns: falsy in environments 1 (None) and 3 (0)."""
    if e == 1:
        return None
    if e == 3:
        return 0
    return (env.cols, env.rows, env.xpx, env.ypx, env.q_area)


def _opname(op):
    names = dict(cell_size="get_cell_size()", cell_ratio="get_cell_ratio()", name="get_terminal_name_version()",
                 render="[get_fg_bg_colors(), background shown by a BlockImage render for a pixel equal to the default bg]",
                 tsc="terminal_size_cached probe", tsc_inv="probe._invalidate_terminal_size_cache()",
                 cached_inv="probe._invalidate_cache()", fail_next="make the next probe body run raise",
                 start="Process.start() (cell-size cache migrates to shared memory)")
    k = op[0]
    if k == "cell_size_int":
        return f"get_cell_size() with {'KeyboardInterrupt' if op[2] == 'kbd' else 'termios.error'} at its tty call #{op[1]}"
    if k == "tsc_resizing":
        return f"terminal_size_cached probe whose body resizes the terminal to environment {op[1]}"
    if k == "cell_size_silent":
        return "get_cell_size() while the terminal answers too late"
    if k == "ratio":
        return f"set_cell_ratio({op[1]}) [raised, get_cell_ratio() afterwards]"
    if k == "colors":
        return "get_fg_bg_colors(%s)" % ("" if op[1] < 0 else f"hex={bool(op[1])}")
    if k == "cached":
        return f"cached probe({op[1]}) [value, body runs]"
    return names.get(k, str(op))
