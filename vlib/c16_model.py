"""C16 helper: programs (render-class trees + namespace owners), their real construction and the
dict-based reference model of render-argument sets (DESIGN 3/C16, appendix B.2).

The reference model is written from the docstrings of ``RenderArgs`` / ``ArgsNamespace`` and
docs/source/api/renderable.rst - it never looks at the implementation's data structures.

Vocabulary
* class index: 0 is ``Renderable`` itself (owns no argument namespace), 1..n the program's classes;
  ``parents[c] < c`` (a class is created after its parent).
* ``nf[c]``: number of argument fields owned by class c (0 = no ArgsNamespace; 1 -> field ``a``;
  2 -> fields ``a`` and ``b``).  ``data[c]``: class owns a DataNamespace.  ``sub[c]``: the argument
  namespace class of c additionally has a field-inheriting subclass.
* model values: a namespace is ``("N", c, vals, is_sub)``; a set of render arguments is
  ``("A", c, comps)`` with ``comps = ((owner, vals), ...)`` in ascending owner order; ``vals`` is a tuple of
  type-sensitive field values ``(type name, value)`` - ``untyped()`` gives the equality class under ``==``.
"""
from __future__ import annotations

import itertools

ABSENT, NONE = -1, -2          # ``init`` operand codes of the constructor op

# Field values are named by tokens in the operations (the values themselves include pairs that are equal
# but distinguishable - True/1, 10.0/10 - so they cannot serve as dictionary keys of the search):
#   "d" the declared default (for ``b``: a fresh tuple equal to the declared default tuple)
#   "f" field ``a`` only: float(default), equal to the default but of another type
#   "1" the int 1      "T" True (== 1, another type)      "2" the int 2
def default_a(c):
    return 10 * c


def default_b(c):
    return tuple([c, 5])


def real_value(c, field, tok):
    if tok == "1":
        return 1
    if tok == "2":
        return 2
    if tok == "T":
        return True
    d = default_b(c) if field == "b" else default_a(c)
    if tok == "d":
        return d
    if tok == "f":
        return float(d)
    raise ValueError(tok)


def typed(v):
    """Type-sensitive rendering of a field value: ('bool', True) != ('int', 1)."""
    return (type(v).__name__, v)


def untyped(d):
    """Equality class of a descriptor under ``==`` of the library (field values compared with ==)."""
    if d[0] == "N":
        return ("N", d[1], tuple([v for _, v in d[2]]))
    return ("A", d[1], tuple([(o, tuple([v for _, v in vs])) for o, vs in d[2]]))


class Spec:
    """Immutable description of one program."""

    __slots__ = ("parents", "nf", "data", "sub", "seed", "mix", "key")

    def __init__(self, parents, nf, data, sub=None, seed="eager", mix=None):
        self.parents = tuple(parents)          # parents[0] is None
        self.nf = tuple(nf)                    # nf[0] == 0
        self.data = tuple(bool(x) for x in data)
        self.sub = tuple(bool(x) for x in (sub or [False] * len(self.parents)))
        self.seed = seed                       # "eager" | "lazy"
        # mix[c]: 0 = bases (parent,); 1 = (PlainMixin, parent); 2 = (parent, PlainMixin) - a non-render class
        # mixed into the bases of class c; the reference model ignores it
        self.mix = tuple(int(x) for x in (mix or [0] * len(self.parents)))
        self.key = (self.parents, self.nf, self.data, self.sub, self.seed, self.mix)

    def to_json(self):
        return dict(parents=list(self.parents), nf=list(self.nf), data=[int(x) for x in self.data],
                    sub=[int(x) for x in self.sub], seed=self.seed, mix=list(self.mix))

    @classmethod
    def from_json(cls, d):
        return cls(d["parents"], d["nf"], d["data"], d.get("sub"), d.get("seed", "eager"), d.get("mix"))

    def __repr__(self):
        return f"Spec({self.to_json()})"


# ------------------------------------------------------------------------------------ enumeration
def parent_vectors(n):
    """Every creation order of every rooted tree with n nodes below the root 0."""
    if n == 0:
        yield (None,)
        return
    for rest in itertools.product(*[range(i) for i in range(1, n + 1)]):
        yield (None,) + rest


def tree_canon(parents, labels):
    """Canonical form of a rooted, node-labelled, unordered tree."""
    n = len(parents)
    kids = [[] for _ in range(n)]
    for c in range(1, n):
        kids[parents[c]].append(c)

    def rec(c):
        return (labels[c], tuple(sorted(rec(k) for k in kids[c])))

    return rec(0)


def shapes(n):
    """One parent vector per unlabelled rooted tree shape with n nodes below Renderable."""
    seen = {}
    for pv in parent_vectors(n):
        k = tree_canon(pv, [0] * (n + 1))
        seen.setdefault(k, pv)
    return list(seen.values())


def labelled_programs(n, label_sets):
    """Every (shape, labelling) up to tree isomorphism.  label_sets: labels allowed for nodes 1..n.
    Yields (parents, labels) with labels[0] == None."""
    seen = {}
    for pv in shapes(n):
        for lab in itertools.product(label_sets, repeat=n):
            labels = (None,) + lab
            k = tree_canon(pv, [repr(x) for x in labels])
            if k not in seen:
                seen[k] = (pv, labels)
    return list(seen.values())


# ------------------------------------------------------------------------------------ the model
class Model:
    def __init__(self, spec):
        self.spec = spec
        p = spec.parents
        self.n = len(p) - 1
        self.classes = list(range(self.n + 1))
        self.anc = []
        for c in self.classes:
            a, x = [], c
            while x is not None:
                a.append(x)
                x = p[x]
            self.anc.append(a)
        self.ancset = [frozenset(a) for a in self.anc]
        self.nf = spec.nf
        self.owners = [c for c in self.classes if spec.nf[c]]
        self.omro = [sorted(x for x in self.anc[c] if spec.nf[x]) for c in self.classes]
        self.dmro = [sorted(x for x in self.anc[c] if (spec.data[x] or x == 0)) for c in self.classes]
        self.default = {c: ((typed(default_a(c)),) if spec.nf[c] == 1
                            else (typed(default_a(c)), typed(default_b(c)))) for c in self.owners}
        self.fields = {c: ("a", "b")[: spec.nf[c]] for c in self.owners}

    # -- helpers
    def issub(self, c, p):
        return p in self.ancset[c]

    def default_args(self, c):
        return ("A", c, tuple((o, self.default[o]) for o in self.omro[c]))

    def default_ns(self, c):
        return ("N", c, self.default[c], False)

    @staticmethod
    def value(d):
        """Equality class of a model object (== iff same class and values)."""
        return d[:3]

    # -- B.2 expected(cls, init, namespaces)
    def ctor(self, c, init, nss):
        errs = set()
        if init is not None and not self.issub(c, init[1]):
            errs.add("IncompatibleRenderArgsError")
        for ns in nss:
            if ns[1] not in self.omro[c]:
                errs.add("IncompatibleArgsNamespaceError")
        if errs:
            return ("err", frozenset(errs))
        comps = {o: self.default[o] for o in self.omro[c]}
        if init is not None:
            comps.update(dict(init[2]))
        for ns in nss:
            comps[ns[1]] = ns[2]
        return ("ok", ("A", c, tuple(sorted(comps.items()))))

    def ns_update(self, ns, fields):
        """fields: tuple of (name, value)."""
        names = self.fields[ns[1]]
        if any(k not in names for k, _ in fields):
            return ("err", frozenset(["UnknownArgsFieldError"]))
        vals = list(ns[2])
        for k, tok in fields:
            vals[names.index(k)] = typed(real_value(ns[1], k, tok))
        return ("ok", ("N", ns[1], tuple(vals), ns[3]))

    def ns_make(self, c, pos, kw, sub):
        names = self.fields[c]
        errs = set()
        if len(pos) > len(names):
            return ("err", frozenset(["TypeError"]))
        if any(k not in names for k, _ in kw):
            errs.add("UnknownArgsFieldError")
        if any(k in names[: len(pos)] for k, _ in kw):
            errs.add("TypeError")
        if errs:
            return ("err", frozenset(errs))
        vals = list(self.default[c])
        for i, tok in enumerate(pos):
            vals[i] = typed(real_value(c, names[i], tok))
        for k, tok in kw:
            vals[names.index(k)] = typed(real_value(c, k, tok))
        return ("ok", ("N", c, tuple(vals), sub))

    def getitem(self, args, c):
        """Outcome of args[cls c]."""
        comps = dict(args[2])
        if c in comps:
            return ("ok", ("N", c, comps[c], None))
        if self.issub(args[1], c):
            return ("err", frozenset(["NoArgsNamespaceError"]))
        return ("err", frozenset(["ValueError"]))

    def most_derived(self, c1, c2):
        if self.issub(c1, c2):
            return c1
        if self.issub(c2, c1):
            return c2
        return None

    # -- every operation of the alphabet; pool: list of model objects; returns ("ok", obj) | ("err", names)
    def expect(self, op, pool):
        kind = op[0]
        if kind == "ctor":
            _, c, init, nss = op
            i = pool[init] if init >= 0 else None
            return self.ctor(c, i, [pool[x] for x in nss])
        if kind == "upd_ns":
            _, a, nss = op
            return self.ctor(pool[a][1], pool[a], [pool[x] for x in nss])
        if kind == "upd_f":
            _, a, c, fields = op
            args = pool[a]
            g = self.getitem(args, c)
            if g[0] == "err":
                return g
            u = self.ns_update(g[1], fields)
            if u[0] == "err":
                return u
            return self.ctor(args[1], args, [u[1]])
        if kind in ("upd_bad_kw", "upd_bad_pos"):
            return ("err", frozenset(["TypeError"]))
        if kind == "conv":
            _, a, c = op
            args = pool[a]
            if not (self.issub(c, args[1]) or self.issub(args[1], c)):
                return ("err", frozenset(["ValueError"]))
            src = dict(args[2])
            return ("ok", ("A", c, tuple((o, src.get(o, self.default[o])) for o in self.omro[c])))
        if kind == "or":
            _, x, y = op
            x, y = pool[x], pool[y]
            if x[0] == "A":          # args | ns  ->  ns.__ror__(args): same as ns | args
                x, y = y, x
            if y[0] == "N":
                if x[1] == y[1]:
                    return self.ctor(x[1], None, [y])
                md = self.most_derived(x[1], y[1])
                if md is None:
                    return ("err", frozenset(["IncompatibleArgsNamespaceError"]))
                return self.ctor(md, None, [x, y])
            md = self.most_derived(x[1], y[1])
            if md is None:
                return ("err", frozenset(["IncompatibleRenderArgsError"]))
            return self.ctor(md, y, [x])
        if kind == "ror":            # x.__ror__(y), both namespaces
            _, x, y = op
            x, y = pool[x], pool[y]
            if x[1] == y[1]:
                return self.ctor(x[1], None, [x])
            md = self.most_derived(x[1], y[1])
            if md is None:
                return ("err", frozenset(["IncompatibleArgsNamespaceError"]))
            return self.ctor(md, None, [x, y])
        if kind == "pos":
            x = pool[op[1]]
            return self.ctor(x[1], None, [x])
        if kind == "tra":
            _, x, c = op
            x = pool[x]
            return self.ctor(x[1] if c < 0 else c, None, [x])
        if kind == "nsupd":
            _, x, fields = op
            return self.ns_update(pool[x], fields)
        if kind == "mk":
            _, c, pos, kw, sub = op
            return self.ns_make(c, pos, kw, sub)
        raise ValueError(f"unknown op {op!r}")

    # -- alphabet
    def a_tokens(self, full):
        if full:                                                             # thorough tier
            if self.n <= 2:
                return ("d", "f", "1", "T", "2")
            return ("d", "f", "T") if (self.n >= 4 and len(self.owners) >= 3) else ("d", "f", "1", "T")
        return ("d", "f", "T") if self.n >= 4 else ("d", "f", "1", "T")      # quick tier

    # keywords that are no fields but name attributes of every namespace class: unknown fields all the same
    ATTR_NAMES = ("as_dict", "_FIELDS", "update", "get_fields", "get_render_cls", "__doc__")

    def field_sets(self, c, full, via_args=False):
        """Keyword sets used for ``ns.update(**fields)`` / (via_args) ``args.update(cls, **fields)`` on class c."""
        if not self.nf[c]:
            return [(), (("a", "1"),)]
        out = [()] + [(("a", t),) for t in self.a_tokens(full)] + [(("zz", "1"),)]
        out += [((name, "1"),) for name in (self.ATTR_NAMES[:2] if (via_args and not full) else self.ATTR_NAMES)]
        if self.nf[c] == 2:
            out += [(("b", "1"),), (("a", "1"), ("b", "1")), (("b", "d"),)]
            if full:
                out += [(("a", "T"), ("b", "1")), (("a", "1"), ("zz", "1"))]
        return out

    def mk_ops(self, full=False):
        ops = []
        for c in self.owners:
            for sub in ([False, True] if self.spec.sub[c] else [False]):
                ops.append(("mk", c, (), (), sub))
                for t in self.a_tokens(full):
                    ops.append(("mk", c, (t,), (), sub))
                    ops.append(("mk", c, (), (("a", t),), sub))
                ops.append(("mk", c, ("1",), (("a", "T"),), sub))         # multiple values
                ops.append(("mk", c, (), (("zz", "1"),), sub))            # unknown field
                ops.append(("mk", c, (), (("as_dict", "1"),), sub))       # unknown field naming an attribute
                if self.nf[c] == 1:
                    ops.append(("mk", c, ("1", "T"), (), sub))            # too many values
                else:
                    ops.append(("mk", c, ("1", "1"), (), sub))
                    ops.append(("mk", c, ("T",), (("b", "1"),), sub))
                    ops.append(("mk", c, (), (("b", "d"),), sub))
                    ops.append(("mk", c, ("1", "1", "1"), (), sub))       # too many values
        return ops


# ------------------------------------------------------------------------------------ real programs
class Prog:
    """The real classes of one program, freshly created."""

    def __init__(self, L, spec, early_intern=False, tag=""):
        T = L._types
        R = L.renderable
        self.L, self.spec = L, spec
        self.RenderArgs, self.RenderData = R.RenderArgs, R.RenderData
        meta = type(R.Renderable)
        self.cls = [R.Renderable]
        self.args_cls = [None]
        self.sub_cls = [None]
        self.data_cls = [R.Renderable._Data_]
        self.early = []
        for c in range(1, len(spec.parents)):
            bases = (self.cls[spec.parents[c]],)
            if spec.mix[c]:
                mixin = type(f"Mix{c}", (), {"mixed_in": c})      # plain class, not a render class
                bases = (mixin,) + bases if spec.mix[c] == 1 else bases + (mixin,)
            k = meta(f"K{c}{tag}", bases, {})
            self.cls.append(k)
            a = s = d = None
            if spec.nf[c]:
                body = {"__annotations__": {"a": "int"}, "a": default_a(c)}
                if spec.nf[c] == 2:
                    body["__annotations__"]["b"] = "int"
                    body["b"] = default_b(c)
                a = T.ArgsNamespaceMeta(f"K{c}Args", (R.ArgsNamespace,), body, render_cls=k)
                if spec.sub[c]:
                    s = T.ArgsNamespaceMeta(f"K{c}SubArgs", (a,), {})
            if spec.data[c]:
                d = T.DataNamespaceMeta(f"K{c}Data", (R.DataNamespace,),
                                        {"__annotations__": {"x": "int", "y": "int"}}, render_cls=k)
            self.args_cls.append(a)
            self.sub_cls.append(s)
            self.data_cls.append(d)
            if early_intern:
                # the shared default of a class is interned before any subclass of it exists
                self.early.append(R.RenderArgs(k))
        self.idx = {k: i for i, k in enumerate(self.cls)}
