"""C18 helper: a stage on which real urwid scenes containing UrwidImage widgets are drawn through a
real UrwidImageScreen onto a persistent terminal model.

A *scene* is a small JSON-able description (layout, three slots holding an image widget / a text /
a hidden image, an optional movable overlay, a list scroll offset); `Stage.apply(op)` performs one
transition on the real objects and redraws; every redraw is judged (see props/c18.py).
"""
from __future__ import annotations

import copy
import errno
import gc
import weakref

from . import vterm, world
from .harness import h64

CELL = (2, 3)
BEGIN = "\x1b[?2026h"
END = "\x1b[?2026l"
Z_MAX = 2**31 - 1

LAYOUTS = ("pile", "list", "tlist", "cols", "bcols", "bare", "solid")
KINDS_BY_IDENTITY = {"kitty": ("K", "B"), "konsole": ("K", "I", "B"), "other": ("B",),
                     "kitty-0.25": ("K", "B"), "other+forced": ("K", "B")}
# scene identity -> (identity of the virtual tty / responder, placement semantics of the terminal model,
#                    KittyImage.forced_support)
#   kitty-0.25   : kitty 0.25.0 (the newest version for which the library avoids blend=False in animations)
#   other+forced : a terminal that implements the kitty protocol but is not recognised (WezTerm, Ghostty, ...):
#                  the application sets KittyImage.forced_support; placements behave as on kitty
IDENTITY_MAP = {"kitty": ("kitty", "kitty", False), "konsole": ("konsole", "konsole", False),
                "other": ("other", "other", False), "kitty-0.25": ("kitty-0.25", "kitty", False),
                "other+forced": ("other", "kitty", True)}


class Out:
    """The screen's output file: buffered like a real stream, delivered to the terminal on flush."""

    def __init__(self, term):
        self.term = term
        self.buf = []
        self.written = []      # everything written, in order (strings)
        self.flushes = 0
        self.fault_k = None    # the k-th write from now on raises once (the bytes are not taken)
        self.fault_n = 0
        self.fault_fired = False
        self.fault_payload = None
        self.injected = None

    def arm(self, k):
        self.fault_k, self.fault_n, self.fault_fired, self.fault_payload, self.injected = k, 0, False, None, None

    def write(self, s):
        if not isinstance(s, str):
            raise TypeError("screen output must be str")
        if self.fault_k is not None and not self.fault_fired:
            self.fault_n += 1
            if self.fault_n == self.fault_k:
                self.fault_fired = True
                self.fault_payload = s
                self.injected = BlockingIOError(errno.EAGAIN, "Resource temporarily unavailable (injected)")
                raise self.injected
        self.buf.append(s)
        self.written.append(s)
        return len(s)

    def flush(self):
        self.flushes += 1
        if self.buf:
            data = "".join(self.buf)
            self.buf = []
            self.term.feed(data)

    def isatty(self):
        return True

    def fileno(self):
        return world.STDOUT_FD


class In:
    """Input stream without a file descriptor: urwid then skips the termios / tty setup."""


def new_screen(um, term):
    out = Out(term)
    scr = um.UrwidImageScreen(In(), out)
    scr.signal_handler_setter = lambda *a, **k: None
    return scr, out


def canvas_kind(um, urwid, canv):
    if isinstance(canv, urwid.CompositeCanvas):
        return "composite"
    if isinstance(canv, um.UrwidImageCanvas):
        return "image-canvas"
    return "non-composite"


def layer(term):
    """Placements on the kitty-protocol layer (what clear_images() is responsible for)."""
    return [p for p in term.placements if p.proto == "kitty" or term.identity == "konsole"]


_frozen = False


def freeze_once():
    """Everything allocated so far (modules, library) goes to the permanent generation so that the
    many gc.collect() calls of the search only walk the objects of the current execution."""
    global _frozen
    if not _frozen:
        gc.collect()
        gc.freeze()
        # object lifetimes (a deleted widget gives its z-index back when it is finalized) must be a function
        # of the history alone: no automatic collections, explicit ones at fixed points (end of every redraw)
        gc.disable()
        _frozen = True


_SUB = None


def sub_class(um):
    """A (trivial) subclass of UrwidImage: applications subclass widgets; the z-index allocator is one
    allocator for UrwidImage and all of its subclasses."""
    global _SUB
    if _SUB is None or not issubclass(_SUB, um.UrwidImage):
        _SUB = type("SubUrwidImage", (um.UrwidImage,), {})
    return _SUB


def reset_sub(um):
    """Class-level state a (mis-behaving) allocator may have bound on the subclass."""
    sub = sub_class(um)
    for name in ("_ti_next_z_index", "_ti_free_z_indexes", "_ti_disguise_state", "_ti_error_placeholder"):
        if name in sub.__dict__:
            delattr(sub, name)


class Dead(Exception):
    """The execution cannot continue (the code under test raised); already reported."""


class Stage:
    def __init__(self, col, cfg, report):
        """cfg: dict(identity, size=[W,H], scene=<scene>).  report(sig, what) records a violation."""
        self.col, self.cfg, self.report = col, cfg, report
        L = world.load_urwid()
        self.L, self.um, self.urwid = L, L.urwid_mod, L.urwid
        freeze_once()
        self.urwid.CanvasCache.clear()
        gc.collect()
        self.ident = cfg["identity"]
        self.W, self.H = cfg["size"]
        self.world_ident, self.term_ident, forced = IDENTITY_MAP[self.ident]
        wkey = (self.ident, self.W, self.H)
        if Stage._world_key == wkey and world.W.tty is Stage._world_tty:
            # same terminal as the previous execution: the memoised terminal facts (name, colours, cell
            # size, style support) are unchanged by construction; only the urwid class state is reset
            self.tty = Stage._world_tty
            um = self.um
            um.UrwidImage._ti_error_placeholder = None
            um.UrwidImage._ti_disguise_state = 0
            um.UrwidImage._ti_free_z_indexes = set()
            um.UrwidImage._ti_next_z_index = 1
            um.UrwidImageCanvas._ti_disguise_state = 0
        else:
            self.tty = world.setup(self.world_ident, self.W, self.H, cell=CELL)
            if forced:
                L.image.KittyImage.forced_support = True
            # an application learns what the terminal supports when it creates its images
            L.image.KittyImage.is_supported()
            L.image.ITerm2Image.is_supported()
            L.utils.get_fg_bg_colors()
            L.utils.get_cell_size()
            Stage._world_key, Stage._world_tty = wkey, self.tty
        reset_sub(self.um)
        self.term = vterm.VTerm(self.W, self.H, self.term_ident)
        # Two devices: what the screen writes to its own output stream reaches self.term; what the library writes
        # to the ACTIVE terminal device (write_tty) reaches the tty's sink.  Normally the screen runs on the active
        # terminal (same model); a "detached" scene gives the screen its own streams on another terminal, so bytes
        # sent to the active terminal never reach the screen's one.
        self.detached = bool(cfg.get("detached"))
        self.tty_sink = vterm.VTerm(self.W, self.H, self.term_ident) if self.detached else self.term
        self.tty.sink = self.tty_sink
        self.screen, self.out = new_screen(self.um, self.term)
        self.widgets = {}          # wid -> UrwidImage
        self.kinds = {}            # wid -> "K" | "I" | "B"
        self.all_refs = []         # weakrefs to every UrwidImage ever created in this execution
        self.next_wid = 0
        self.top = None
        self.top_spec = None
        self.prev_top_kind = "none"
        self.draws = 0
        self.last_op = "init"
        self.pending_gc = False
        self.spec = dict(layout=cfg["scene"]["layout"], slots=[], scroll=cfg["scene"].get("scroll", 0),
                         ov=dict(cfg["scene"].get("ov", dict(on=False, x=0, y=0, img=False))))
        self.spec["ov"].setdefault("wid", None)
        self.spec["tick"] = 0
        for e in cfg["scene"]["slots"]:
            if e in ("K", "I", "B"):
                self.spec["slots"].append(["img", self.create(e)])
            else:
                self.spec["slots"].append(["txt"])
        if self.spec["ov"].get("img"):
            self.spec["ov"]["wid"] = self.create(self.primary_kind())
        if "K" in KINDS_BY_IDENTITY[self.ident]:
            # an image left on the terminal by an earlier program: start() must clear it
            self.term.feed("\x1b[2;2H\x1b_Ga=T,f=24,s=1,v=1,c=2,r=1,z=77,C=1;AAAA\x1b\\\x1b[H")
            if len(layer(self.term)) != 1 or self.term.errors:
                raise world.HarnessError("could not seed the leftover placement")
        self.guard("start", self.screen.start)
        self.out.flush()
        self.check_cleared("start")
        self.check_z()
        self.draw()

    # ------------------------------------------------------------------ widgets
    def primary_kind(self):
        return KINDS_BY_IDENTITY[self.ident][0]

    def create(self, kind):
        from .imgkit import pattern

        wid = self.next_wid
        self.next_wid += 1
        big = wid % 2 == 1
        cw, ch = (4, 3) if big else (3, 2)
        if kind == "B":
            img = self.L.image.BlockImage(pattern(cw, ch * 2, seed=wid + 1))
            spec = ""
        else:
            cls = self.L.image.KittyImage if kind == "K" else self.L.image.ITerm2Image
            img = cls(pattern(cw * CELL[0], ch * CELL[1], seed=wid + 1))
            # the z field of a kitty format specifier is documented as ignored by the widget (the z-index is
            # allocated internally): even-numbered kitty widgets all carry the SAME z field, odd ones none
            spec = "+Lz5" if kind == "K" and wid % 2 == 0 else "+L"
        # every other kitty widget is an instance of a subclass of UrwidImage
        wcls = sub_class(self.um) if kind == "K" and wid % 4 == 2 else self.um.UrwidImage
        try:
            w = wcls(img, spec)
        except Exception as e:  # noqa: BLE001
            self.report(dict(clause="exception", exc=type(e).__name__, where="create", identity=self.ident),
                        f"UrwidImage({kind}) raised {type(e).__name__}: {e}")
            raise Dead from e
        self.widgets[wid] = w
        self.kinds[wid] = kind
        self.all_refs.append((wid, kind, weakref.ref(w)))
        return wid

    def live_widgets(self):
        out = []
        for wid, kind, ref in self.all_refs:
            w = ref()
            if w is not None:
                out.append((wid, kind, w))
        return out

    # ------------------------------------------------------------------ scene -> real widgets
    def ov_size(self):
        return (4, 3) if self.spec["ov"]["img"] else (3, 2)

    def slot_widget(self, i, box):
        u = self.urwid
        e = self.spec["slots"][i]
        if e[0] == "img":
            return self.widgets[e[1]]
        t = u.Text(f"t{i}")
        return u.Filler(t, "top") if box else t

    def list_items(self):
        u = self.urwid
        n = len(self.spec["slots"])
        tall = self.spec["layout"] == "tlist"
        items = [] if tall else [u.Text("L0")]
        for i in range(n):
            if tall and i == 0:
                # a box (padded) image taller than the viewport: scrolling changes only its trim offset
                items.append(u.BoxAdapter(self.slot_widget(0, True), self.H + 2))
            else:
                items.append(self.slot_widget(i, False))
            if i == 0:
                items.append(u.Text("L1"))
        for k in range(2, 2 + self.H):
            items.append(u.Text(f"L{k}"))
        return items

    def list_rows(self):
        return [w.rows((self.W,)) for w in self.list_items()]

    def max_scroll(self):
        if self.spec["layout"] not in ("list", "tlist"):
            return 0
        return max(sum(self.list_rows()) - self.H, 0)

    def build_base(self):
        u = self.urwid
        sp = self.spec
        n = len(sp["slots"])
        lay = sp["layout"]
        if lay == "solid":
            return u.SolidFill("x")
        if lay == "bare":
            return self.slot_widget(0, True)
        if lay == "pile":
            items = [("pack", u.Text("head")), self.slot_widget(0, True)]
            for i in range(1, n):
                items.append(("pack", self.slot_widget(i, False)))
            return u.Pile(items)
        if lay == "cols":
            # the last column is a text that shares its screen rows with the images and changes on "tick"
            cols = u.Columns([self.slot_widget(i, False) for i in range(n)] + [(2, u.Text(f"n{sp['tick'] % 10}"))],
                             dividechars=1)
            return u.Pile([("pack", cols), u.Filler(u.Text("below"), "top")])
        if lay == "bcols":
            return u.Columns([self.slot_widget(i, True) for i in range(n)]
                             + [(2, u.Filler(u.Text(f"n{sp['tick'] % 10}\n..\nxx"), "top"))], dividechars=0)
        if lay in ("list", "tlist"):
            items = self.list_items()
            rows = [w.rows((self.W,)) for w in items]
            p = min(sp["scroll"], max(sum(rows) - self.H, 0))
            acc = 0
            idx, inset = 0, 0
            for k, h in enumerate(rows):
                if acc <= p < acc + h:
                    idx, inset = k, p - acc
                    break
                acc += h
            lb = u.ListBox(u.SimpleListWalker(items))
            lb.set_focus(idx)
            lb.shift_focus((self.W, self.H), -inset)
            return lb
        raise world.HarnessError(f"unknown layout {lay}")

    def build_top(self):
        u = self.urwid
        base = self.build_base()
        ov = self.spec["ov"]
        if not ov["on"]:
            return base
        ow, oh = self.ov_size()
        if ov["img"]:
            topw = self.widgets[ov["wid"]]
        else:
            topw = u.Filler(u.Text("##\n##"), "top")
        return u.Overlay(topw, base, align="left", width=ow, valign="top", height=oh,
                         left=ov["x"], top=ov["y"])

    # ------------------------------------------------------------------ transitions
    def enabled_ops(self, alphabet):
        sp = self.spec
        ops = []
        ov = sp["ov"]
        ow, oh = self.ov_size()
        for op in alphabet:
            k = op[0]
            if k == "F":
                if self.enabled_ops([tuple(op[2:])]):
                    ops.append(op)
                continue
            if k == "ov":
                if ov["on"] and 0 <= ov["x"] + op[1] <= self.W - ow and 0 <= ov["y"] + op[2] <= self.H - oh:
                    ops.append(op)
            elif k == "ovt":
                ops.append(op)
            elif k == "ovk":
                if ov["on"]:
                    ops.append(op)
            elif k == "scroll":
                if sp["layout"] in ("list", "tlist") and 0 <= sp["scroll"] + op[1] <= self.max_scroll():
                    ops.append(op)
            elif k == "layout":
                if sp["layout"] != op[1]:
                    ops.append(op)
            elif k == "txt":
                if op[1] < len(sp["slots"]) and sp["slots"][op[1]][0] in ("img", "hid"):
                    ops.append(op)
            elif k == "del":
                if op[1] < len(sp["slots"]) and sp["slots"][op[1]][0] in ("img", "hid"):
                    ops.append(op)
            elif k == "new":
                if op[1] in KINDS_BY_IDENTITY[self.ident] and any(e[0] == "txt" for e in sp["slots"]):
                    ops.append(op)
            elif k in ("clear", "restart", "redraw"):
                ops.append(op)
            elif k == "tick":
                if sp["layout"] in ("cols", "bcols"):
                    ops.append(op)
            elif k == "cimg":
                # now=True addresses the active terminal: meaningless for a screen living on another terminal
                if "K" in KINDS_BY_IDENTITY[self.ident] and not (self.detached and op[1] == "now"):
                    ops.append(op)
            elif k == "cimgw":
                if ("K" in KINDS_BY_IDENTITY[self.ident] and op[1] < len(sp["slots"])
                        and not (self.detached and op[2] == "now")
                        and sp["slots"][op[1]][0] == "img"):
                    ops.append(op)
            else:
                raise world.HarnessError(f"unknown op {op}")
        return ops

    def apply(self, op):
        """One transition + redraw.  Raises Dead when the code under test raised.
        ("F", k, *op): the same transition, but the k-th write of its redraw fails once (EAGAIN); the
        application survives (the exception is swallowed here) and goes on."""
        fault = None
        if op[0] == "F":
            fault, op = op[1], tuple(op[2:])
        self._fault_next_draw = fault
        sp = self.spec
        ov = sp["ov"]
        k = op[0]
        self.last_op = k if k not in ("layout",) else f"layout:{op[1]}"
        if k == "ov":
            ov["x"] += op[1]
            ov["y"] += op[2]
        elif k == "ovt":
            ov["on"] = not ov["on"]
        elif k == "ovk":
            ov["img"] = not ov["img"]
            if ov["img"] and ov["wid"] is None:
                ov["wid"] = self.create(self.primary_kind())
            ow, oh = self.ov_size()
            ov["x"] = min(ov["x"], self.W - ow)
            ov["y"] = min(ov["y"], self.H - oh)
        elif k == "scroll":
            sp["scroll"] += op[1]
        elif k == "layout":
            sp["layout"] = op[1]
            sp["scroll"] = min(sp["scroll"], self.max_scroll())
        elif k == "txt":
            e = sp["slots"][op[1]]
            e[0] = "hid" if e[0] == "img" else "img"
        elif k == "del":
            e = sp["slots"][op[1]]
            wid = e[1]
            sp["slots"][op[1]] = ["txt"]
            w = self.widgets.pop(wid)
            w._invalidate()
            del w
            self.top = None
            gc.collect()
            self.pending_gc = True
        elif k == "new":
            i = next(i for i, e in enumerate(sp["slots"]) if e[0] == "txt")
            sp["slots"][i] = ["img", self.create(op[1])]
        elif k == "clear":
            self.cells_tainted = False
            self.guard("clear", self.screen.clear)
            self.out.flush()       # "cleared when next the output buffer is flushed"
            self.check_cleared("clear")
        elif k == "restart":
            self.guard("stop", self.screen.stop)
            self.out.flush()
            self.check_cleared("stop")
            self.guard("start", self.screen.start)
            self.out.flush()
            self.check_cleared("start")
        elif k == "redraw":
            pass
        elif k == "tick":
            sp["tick"] = (sp["tick"] + 1) % 10
        elif k == "cimg":
            # the public clear_images(): all images, immediately (straight to the terminal device) or deferred
            now = op[1] == "now"
            self.guard("clear_images", lambda: self.screen.clear_images(now=now))
            if not now:
                self.out.flush()
            self.check_cleared("clear_images(now)" if now else "clear_images()")
            # the next frame is a NEW top-level canvas (around the cached, unmoved image canvases)
            if self.top is not None:
                self.top._invalidate()
        elif k == "cimgw":
            now = op[2] == "now"
            w = self.widgets[sp["slots"][op[1]][1]]
            self.guard("clear_images", lambda: self.screen.clear_images(w, now=now))
            if not now:
                self.out.flush()
            z = getattr(w, "_ti_z_index", None)
            left = [p for p in layer(self.term) if z is not None and p.z == z and p.proto == "kitty"]
            if left:
                self.report(dict(clause="not-cleared", when="clear_images(widget, now)" if now else
                                 "clear_images(widget)", identity=self.ident),
                            f"after clear_images(widget{', now=True' if now else ''}) {len(left)} placement(s) of the "
                            f"widget (z={z}) remain")
            del w
            if self.top is not None:
                self.top._invalidate()
        if sp["layout"] in ("list", "tlist"):
            sp["scroll"] = min(sp["scroll"], self.max_scroll())
        self.check_z()
        self.draw()
        self.check_z()

    def guard(self, where, fn, *a):
        try:
            return fn(*a)
        except Exception as e:  # noqa: BLE001
            self.report(dict(clause="exception", exc=type(e).__name__, where=where, identity=self.ident,
                             op=self.last_op),
                        f"screen.{where}() raised {type(e).__name__}: {e}")
            raise Dead from e

    # ------------------------------------------------------------------ judged redraw
    def check_cleared(self, when):
        left = layer(self.term)
        if left:
            self.report(dict(clause="not-cleared", when=when, identity=self.ident),
                        f"after screen.{when}() (output flushed) {len(left)} placement(s) remain: "
                        f"{[p.key()[:6] for p in left[:3]]}")

    def check_z(self):
        zs = {}
        for wid, kind, w in self.live_widgets():
            if kind != "K":
                continue
            z = getattr(w, "_ti_z_index", None)
            if not isinstance(z, int) or not -Z_MAX <= z <= Z_MAX:
                self.report(dict(clause="z-range", identity=self.ident),
                            f"live kitty widget #{wid} holds z-index {z!r}")
            elif z in zs:
                self.report(dict(clause="z-duplicate", identity=self.ident, op=self.last_op),
                            f"live kitty widgets #{zs[z]} and #{wid} both hold z-index {z}")
            else:
                zs[z] = wid
            if w._ti_style_args.get("z_index") != z:
                self.report(dict(clause="z-render-arg", identity=self.ident),
                            f"widget #{wid} renders with z_index={w._ti_style_args.get('z_index')} but holds {z}")

    def tracked_images(self):
        try:
            return bool(self.screen._ti_image_cviews)
        except AttributeError:
            return None

    def draw(self):
        um, u = self.um, self.urwid
        size = (self.W, self.H)
        key = repr(self.spec)
        if self.top is None or key != self.top_spec:
            # the containers are rebuilt around the persistent leaf widgets; drop urwid's record of the
            # discarded containers (CanvasCache._deps would keep them - and through them deleted image
            # widgets - alive for a history-dependent time, which no application that edits its containers
            # in place would see)
            u.CanvasCache._deps.clear()
            self.top = self.build_top()
            self.top_spec = key
        canvas = self.top.render(size, focus=True)
        ck = canvas_kind(um, u, canvas)
        had_images = self.tracked_images()
        old_cviews = getattr(self.screen, "_ti_image_cviews", None)
        self.draws += 1
        n_written = len(self.out.written)
        n_events = len(self.term.events)
        n_err = len(self.term.errors)
        wraps, scrolls = self.term.wraps, self.term.scrolls
        flushes = self.out.flushes
        fault = getattr(self, "_fault_next_draw", None)
        self._fault_next_draw = None
        self.out.arm(fault)
        raised = None
        try:
            self.screen.draw_screen(size, canvas)
        except Exception as e:  # noqa: BLE001
            raised = e
        finally:
            self.out.fault_k = None
        if self.out.fault_fired:
            self.judge_failed_redraw(raised, n_written, n_events, ck)
            del canvas
            gc.collect()
            return
        if raised is not None:
            e = raised
            self.report(dict(clause="exception", exc=type(e).__name__, where="draw_screen", identity=self.ident,
                             top_canvas=ck, prev_top_canvas=self.prev_top_kind, prev_images=had_images),
                        f"draw_screen of a {ck} canvas ({type(canvas).__name__}) after a frame "
                        f"{'with' if had_images else 'without'} tracked images raised {type(e).__name__}: {e}")
            raise Dead from e
        self.last_faulted = False
        data = "".join(self.out.written[n_written:])
        unflushed = bool(self.out.buf)
        self.out.flush()
        ctx = dict(identity=self.ident, top_canvas=ck, prev_top_canvas=self.prev_top_kind)
        if getattr(self, "last_fault_where", None):
            # an earlier redraw of this execution lost a write: say which kind, so that such findings are told
            # apart from failures of fault-free histories
            ctx["after_fault"] = self.last_fault_where
        # -- bracket
        sync = [e[1] for e in self.term.events[n_events:] if e[0] == "sync"]
        if not (data.startswith(BEGIN) and data.endswith(END) and data.count(BEGIN) == 1
                and data.count(END) == 1 and sync == [True, False]):
            self.report(dict(clause="sync-bracket", **ctx),
                        f"output of the redraw is not bracketed by one synchronized-update pair: starts "
                        f"{data[:12]!r} ends {data[-12:]!r} begin x{data.count(BEGIN)} end x{data.count(END)}")
        evs = self.term.events[n_events:]
        first_img = next((i for i, e in enumerate(evs) if e[0] == "image"), None)
        if first_img is not None and any(e[0] == "kitty-delete" and e[1] in "ZzAa" for e in evs[first_img:]):
            self.report(dict(clause="delete-after-content", **ctx),
                        "stale images are deleted (by z-index / all) after new image content of the same redraw "
                        "was already written")
        if unflushed or self.out.flushes == flushes:
            self.report(dict(clause="not-flushed", **ctx), "draw_screen returned with unflushed output")
        if self.term.errors[n_err:]:
            self.report(dict(clause="sequences", **ctx), f"malformed output: {self.term.errors[n_err:][:2]}")
        if (self.term.wraps, self.term.scrolls) != (wraps, scrolls) or not self.term.in_ground():
            self.report(dict(clause="wrap-scroll", **ctx),
                        f"redraw wrapped/scrolled the terminal or left the parser in {self.term.parser_state}")
        # -- the z-index a placement is drawn on must be the one its (live) widget holds: the screen deletes by it
        held = {getattr(w, "_ti_z_index", None) for wid, kind, w in self.live_widgets() if kind == "K"}
        used = {p.z for p in self.term.placements if p.proto == "kitty"}
        if used - held:
            self.report(dict(clause="z-placement-not-held", **ctx),
                        f"placements are drawn on z-index(es) {sorted(used - held)} but the live kitty widgets hold "
                        f"{sorted(z for z in held if z is not None)}")
        # -- differential: a fresh screen drawing only this canvas on a fresh terminal
        ref = self.fresh(canvas)
        got_p = self.term.snapshot_placements()
        if ref is not None:
            want_p, want_cells = ref
            if got_p != want_p:
                ghost = _msub(got_p, want_p)
                missing = _msub(want_p, got_p)
                diff = "ghost" if ghost and not missing else "missing" if missing and not ghost else "both"
                dup = bool(ghost) and set(ghost) <= set(want_p)
                # characterisation only (never the verdict): how many of the previously tracked canvas
                # views of one kitty widget went stale in this redraw
                stale3 = False
                try:
                    cnt = {}
                    for cv in set(old_cviews or ()) - set(self.screen._ti_image_cviews):
                        w = cv[0].widget_info[0]
                        if isinstance(w._ti_image, self.L.image.KittyImage):
                            cnt[id(w)] = cnt.get(id(w), 0) + 1
                    stale3 = any(n % 3 == 0 for n in cnt.values())
                except Exception:  # noqa: BLE001
                    pass
                self.report(dict(clause="placements", diff=diff, duplicate=dup, prev_images=had_images,
                                 stale_views_of_a_widget_multiple_of_3=stale3,
                                 protos=sorted({p[0] for p in ghost + missing}), **ctx),
                            f"after the redraw the terminal holds placements {list(got_p)}; a fresh screen drawing "
                            f"only this canvas gives {list(want_p)} (ghost: {ghost}, missing: {missing}); "
                            f"last op {self.last_op}; scene={self.spec}")
            covered = set()
            for p in self.term.placements:
                covered |= p.cells()
            bad = []
            for r in range(self.H):
                row = self.term.grid[r]
                wrow = want_cells[r]
                for c in range(self.W):
                    if row[c].key() != wrow[c] and (r, c) not in covered:
                        bad.append((r, c, row[c].key(), wrow[c]))
            # after a lost write urwid's own line cache (screen_buf) no longer describes the terminal; stale text
            # is then urwid's doing and text cells are not part of the property: judged again after a full repaint
            if bad and got_p == want_p and not getattr(self, "cells_tainted", False):
                self.report(dict(clause="cells", **ctx),
                            f"{len(bad)} text cell(s) differ from a fresh draw, first: {bad[0]}; scene={self.spec}")
        self.prev_top_kind = ck
        del canvas, ref
        gc.collect()

    def judge_failed_redraw(self, raised, n_written, n_events, ck):
        """A write of this redraw failed once.  Whatever the redraw did put out must still lie between one
        synchronized-update begin/end pair (nothing is judged when the refused bytes are the bracket's own
        BEGIN or END: no implementation can bracket with a write that fails)."""
        self.last_faulted = True
        self.cells_tainted = True
        self.faults_fired = getattr(self, "faults_fired", 0) + 1
        payload = self.out.fault_payload
        where = ("begin" if payload == BEGIN else "end" if payload == END else
                 "delete" if payload.startswith("\x1b_Ga=d") else "paint")
        data = "".join(self.out.written[n_written:])
        self.out.flush()      # whatever is still buffered reaches the terminal eventually
        self.last_fault_where = where
        ctx = dict(identity=self.ident, top_canvas=ck, prev_top_canvas=self.prev_top_kind, fault_in=where)
        chain = []
        e = raised
        while e is not None and len(chain) < 5:
            chain.append(e)
            e = e.__cause__ or e.__context__
        if raised is not None and self.out.injected not in chain:
            self.report(dict(clause="exception-during-failed-redraw", exc=type(raised).__name__, **ctx),
                        f"a failing write made draw_screen raise an unrelated {type(raised).__name__}: {raised}")
        sync = [ev[1] for ev in self.term.events[n_events:] if ev[0] == "sync"]
        if where not in ("begin", "end") and data:
            if not (data.startswith(BEGIN) and data.endswith(END) and data.count(BEGIN) == 1
                    and data.count(END) == 1 and sync == [True, False]):
                self.report(dict(clause="sync-bracket-failed-redraw", **ctx),
                            f"a write failed during the redraw ({where}: {payload[:20]!r}); its output is not bracketed "
                            f"by one synchronized-update pair: starts {data[:12]!r} ends {data[-12:]!r} "
                            f"begin x{data.count(BEGIN)} end x{data.count(END)}")
        if self.term.errors and not getattr(self, "_errs_seen", 0) == len(self.term.errors):
            pass     # a write cut out of the middle of the stream may leave malformed sequences: not judged
        self._errs_seen = len(self.term.errors)
        self.prev_top_kind = ck

    _fresh_cache = {}
    _world_key = None
    _world_tty = None

    def fresh(self, canvas):
        um = self.um
        size = (self.W, self.H)
        try:
            rows = [b"".join(seg[2] for seg in row) for row in canvas.content()]
        except Exception:  # noqa: BLE001 - reported by the real draw if it matters
            return None
        key = (self.ident, size, h64(b"\n".join(rows)))
        hit = Stage._fresh_cache.get(key)
        if hit is not None:
            return hit
        saved = um.UrwidImageCanvas._ti_disguise_state
        t = vterm.VTerm(self.W, self.H, self.term_ident)
        self.tty.sink = t
        try:
            scr, out = new_screen(um, t)
            scr.start()
            scr.draw_screen(size, canvas)
            out.flush()
        except Exception as e:  # noqa: BLE001
            self.report(dict(clause="exception", exc=type(e).__name__, where="fresh-draw", identity=self.ident,
                             top_canvas=canvas_kind(um, self.urwid, canvas)),
                        f"a fresh screen drawing the canvas raised {type(e).__name__}: {e}")
            return None
        finally:
            um.UrwidImageCanvas._ti_disguise_state = saved
            self.tty.sink = self.tty_sink
        res = (t.snapshot_placements(), t.snapshot_cells())
        Stage._fresh_cache[key] = res
        return res

    # ------------------------------------------------------------------ canonical state
    def canon(self):
        um = self.um
        ws = tuple((wid, kind, getattr(w, "_ti_z_index", None), w._ti_disguise_state, wid in self.widgets)
                   for wid, kind, w in self.live_widgets() if wid in self.widgets or kind == "K")
        sub = sub_class(um)
        # the screen's own bookkeeping (value abstraction): which canvas views it believes are on the terminal
        # and whether the canvas it remembers is the one it painted last
        wid_of = {id(w): wid for wid, kind, w in self.live_widgets()}
        views = []
        for cv in getattr(self.screen, "_ti_image_cviews", ()) or ():
            try:
                canv = cv[0]
                views.append((wid_of.get(id(canv.widget_info[0]), "?"), tuple(canv.size)) + tuple(cv[1:]))
            except Exception:  # noqa: BLE001
                views.append(("?", repr(cv[1:])))
        book = (sorted(views, key=repr),
                getattr(self.screen, "_ti_screen_canv", None) is getattr(self.screen, "_screen_buf_canvas", None),
                getattr(self.screen, "screen_buf", None) is not None)
        return h64(repr((self.spec, self.detached, ws, book, um.UrwidImageCanvas._ti_disguise_state,
                         sub.__dict__.get("_ti_next_z_index"), tuple(sub.__dict__.get("_ti_free_z_indexes", ())),
                         tuple(um.UrwidImage._ti_free_z_indexes), um.UrwidImage._ti_next_z_index)))

    def close(self):
        self.tty.sink = None
        self.top = None
        self.widgets.clear()
        self.screen = None
        self.urwid.CanvasCache.clear()


def _msub(a, b):
    """Multiset difference a - b of two sorted tuples."""
    b = list(b)
    out = []
    for x in a:
        if x in b:
            b.remove(x)
        else:
            out.append(x)
    return out


def clone_scene(scene):
    return copy.deepcopy(scene)
