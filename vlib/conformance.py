"""Real-pty conformance of the virtual stdout / virtual tty for the no-fault path (DESIGN 2.2 (b)).

For a handful of draw() configurations the *real* library is run in a child process whose stdio is
a real pty (output post-processing off, so the master sees the bytes as written) and the byte
stream read from the pty master must equal, byte for byte, what `world.VStdout` recorded for the
same configuration in-process.  This ties the virtual devices to reality; it is not exploration.

    python -m vlib.conformance child '<case json>'      (run inside the child)
"""
from __future__ import annotations

import json
import os
import sys

CASES = [
    dict(name="new-still-padded", api="new", frames=1, size=[3, 2], mode="sgr", pad=[7, 4], loops=1),
    dict(name="new-anim-plain", api="new", frames=3, size=[2, 2], mode="plain", pad=[0, -2], loops=2),
    dict(name="new-anim-clear", api="new", frames=2, size=[2, 1], mode="clear", pad=[4, 3], loops=1),
    dict(name="new-noecho-nohide", api="new", frames=2, size=[1, 1], mode="sgr", pad=[0, -2], loops=1,
         hide_cursor=False, echo_input=True),
    dict(name="old-block-still", api="old", frames=1, size=[4, 2], pad=[8, 4]),
    dict(name="old-block-anim", api="old", frames=3, size=[3, 2], pad=[5, 3], repeat=2),
]
COLS, ROWS = 20, 10


def do_case(case):
    """Runs one draw() with whatever sys.stdout / terminal is installed."""
    from . import world

    L = world.load()
    L.ti.disable_queries()
    if case["api"] == "new":
        from .renderables import classes

        ns = classes()
        P = L.padding
        cls = ns.ClearR if case["mode"] == "clear" else ns.TextR
        r = ns.make(case["frames"], tuple(case["size"]), duration=1,
                    mode="plain" if case["mode"] == "clear" else case["mode"], cls=cls)
        r.draw(None, P.AlignedPadding(*case["pad"]), loops=case["loops"], cache=False,
               hide_cursor=case.get("hide_cursor", True), echo_input=case.get("echo_input", False))
    else:
        from PIL import Image

        w, h = case["size"]
        frames = []
        for k in range(case["frames"]):
            im = Image.new("RGB", (w, h * 2))
            im.putdata([((40 * k + 17 * i) % 256, (200 - 9 * i) % 256, (90 * k + 5 * i) % 256)
                        for i in range(w * h * 2)])
            frames.append(im)
        path = os.path.join("/var/tmp", f"verif-conf-{os.getpid()}-{case['name']}.gif")
        if len(frames) > 1:
            frames[0].save(path, save_all=True, append_images=frames[1:], duration=10, loop=0)
            img = L.image.BlockImage.from_file(path, width=w, height=h)
        else:
            img = L.image.BlockImage(frames[0], width=w, height=h)
        try:
            img.draw(None, case["pad"][0], None, case["pad"][1], repeat=case.get("repeat", 1), cached=False)
        finally:
            img.close()
            if os.path.exists(path):
                os.unlink(path)


def virtual(case):
    from . import world

    so = world.VStdout(term=None, isatty=True)
    clock = world.VClock(so)
    world.setup("other", COLS, ROWS, stdout=so, clock=clock)
    try:
        do_case(case)
    finally:
        data = so.getvalue()
        world.uninstall()
        world.reset_world()
    return data


def real(case, timeout=60):
    """Runs the case in a child whose stdio is a pty; returns the bytes read from the master."""
    import fcntl
    import pty
    import select
    import struct
    import subprocess
    import termios
    import time

    master, slave = pty.openpty()
    fcntl.ioctl(slave, termios.TIOCSWINSZ, struct.pack("HHHH", ROWS, COLS, 0, 0))
    attrs = termios.tcgetattr(slave)
    attrs[1] &= ~termios.OPOST                      # no ONLCR: the master sees the bytes as written
    termios.tcsetattr(slave, termios.TCSANOW, attrs)
    env = dict(os.environ, PYTHONUNBUFFERED="0")
    p = subprocess.Popen([sys.executable, "-W", "ignore", "-m", "vlib.conformance", "child", json.dumps(case)],
                         stdin=slave, stdout=slave, stderr=subprocess.PIPE, env=env, close_fds=True,
                         start_new_session=True)
    os.close(slave)
    out = bytearray()
    t0 = time.time()
    while True:
        r, _, _ = select.select([master], [], [], 0.2)
        if r:
            try:
                chunk = os.read(master, 65536)
            except OSError:
                break
            if not chunk:
                break
            out.extend(chunk)
        elif p.poll() is not None:
            break
        if time.time() - t0 > timeout:
            p.kill()
            raise TimeoutError(f"conformance child for {case['name']} timed out")
    err = p.stderr.read().decode("utf-8", "replace")
    p.wait()
    os.close(master)
    if p.returncode != 0:
        raise RuntimeError(f"conformance child failed ({p.returncode}): {err[-400:]}")
    return bytes(out)


def run_all():
    """Returns (list of failure strings, list of notes)."""
    fails, notes = [], []
    try:
        import pty

        m, s = pty.openpty()
        os.close(m)
        os.close(s)
    except Exception as e:  # noqa
        return [], [f"pty conformance not possible here: {type(e).__name__}: {e}"]
    for case in CASES:
        v = virtual(case).encode()
        try:
            r = real(case)
        except (TimeoutError, RuntimeError, OSError) as e:
            fails.append(f"conformance {case['name']}: {e}")
            continue
        if v != r:
            i = next((k for k in range(min(len(v), len(r))) if v[k] != r[k]), min(len(v), len(r)))
            fails.append(f"conformance {case['name']}: virtual stdout ({len(v)} bytes) != pty master ({len(r)} bytes), "
                         f"first difference at {i}: virtual {v[i:i + 24]!r} real {r[i:i + 24]!r}")
        else:
            notes.append(f"{case['name']}: {len(r)} bytes identical")
    return fails, notes


def child(case):
    # like an application: the library finds the pty through stdout
    do_case(case)
    sys.stdout.flush()


if __name__ == "__main__":
    if len(sys.argv) >= 3 and sys.argv[1] == "child":
        child(json.loads(sys.argv[2]))
    else:
        f, n = run_all()
        for x in n:
            print("ok  ", x)
        for x in f:
            print("FAIL", x)
        sys.exit(1 if f else 0)
