"""Exhaustive enumeration primitives (DESIGN 2.5).

1. pmap / product grids: every tuple of a finite domain is executed (sharded over processes).
2. ChoiceTree: stateless deviation-bounded search over choose() points (CHESS style).
3. bfs_histories: explicit-state search where a state is the history reaching it.
"""
from __future__ import annotations

import collections
import itertools
import multiprocessing as mp
import os
import random
import time

NPROCS = int(os.environ.get("VERIF_PROCS", "0")) or min(16, os.cpu_count() or 1)


def seed():
    try:
        return int(os.environ.get("VERIF_SEED", "0"))
    except ValueError:
        return 0


def rotate(seq):
    """Seed-dependent rotation of an enumeration order (verdict and counts are order-free)."""
    seq = list(seq)
    if not seq:
        return seq
    k = seed() % len(seq)
    return seq[k:] + seq[:k]


# ----------------------------------------------------------------------------- parallel map
_WORK = None


def _run_shard(i):
    func, shards = _WORK
    return func(shards[i])


def pmap(func, items, nprocs=None, chunks_per_proc=4):
    """Apply *func* to shards (lists) of *items* in forked workers; returns the list of
    per-shard results.  *func* and *items* are inherited by fork (no pickling of inputs)."""
    global _WORK
    items = list(items)
    nprocs = nprocs or NPROCS
    if nprocs <= 1 or len(items) <= 1:
        return [func(items)]
    nshards = min(len(items), nprocs * chunks_per_proc)
    shards = [items[i::nshards] for i in range(nshards)]
    _WORK = (func, shards)
    ctx = mp.get_context("fork")
    with ctx.Pool(nprocs) as pool:
        res = pool.map(_run_shard, range(nshards), chunksize=1)
    _WORK = None
    return res


# ----------------------------------------------------------------------------- choice tree
class ReplayDivergence(Exception):
    pass


class Chooser:
    """Replays `prefix`, then takes choice 0 at every later point.  Records the arity and the
    label of every point so the explorer can branch on it afterwards."""

    def __init__(self, prefix=()):
        self.prefix = list(prefix)
        self.choices = []
        self.arity = []
        self.labels = []
        self.costs = []

    def choose(self, n, label=None, costs=None):
        """n alternatives; alternative 0 is the default (cost 0); others cost 1 unless *costs*
        (a list of per-alternative costs) says otherwise."""
        i = len(self.choices)
        if n <= 0:
            raise ReplayDivergence(f"choose({n}) at point {i} ({label})")
        if i < len(self.prefix):
            c = self.prefix[i]
            if c >= n:
                raise ReplayDivergence(f"replay: choice {c} out of range {n} at point {i} ({label})")
        else:
            c = 0
        self.choices.append(c)
        self.arity.append(n)
        self.labels.append(label)
        self.costs.append(costs)
        return c

    def cost_of(self, i, alt):
        cs = self.costs[i]
        if cs is not None:
            return cs[alt]
        return 0 if alt == 0 else 1


class ChoiceTree:
    """explore(run, bound): run(chooser) -> observation; every execution with total deviation
    cost <= bound is executed exactly once."""

    def __init__(self, run, bound, on_exec=None, max_execs=None):
        self.run, self.bound, self.on_exec, self.max_execs = run, bound, on_exec, max_execs
        self.execs = 0
        self.capped = False
        self.max_points = 0

    def explore(self, prefix=(), cost=0):
        stack = [(list(prefix), cost)]
        while stack:
            pre, cst = stack.pop()
            if self.max_execs is not None and self.execs >= self.max_execs:
                self.capped = True
                return
            ch = Chooser(pre)
            obs = self.run(ch)
            if len(ch.choices) < len(pre):
                raise ReplayDivergence(f"replay ended after {len(ch.choices)} points, prefix has {len(pre)}")
            self.execs += 1
            self.max_points = max(self.max_points, len(ch.choices))
            if self.on_exec:
                self.on_exec(ch, obs)
            for i in range(len(ch.choices) - 1, len(pre) - 1, -1):
                for alt in range(1, ch.arity[i]):
                    c2 = cst + ch.cost_of(i, alt)
                    if c2 <= self.bound:
                        stack.append((ch.choices[:i] + [alt], c2))


def first_level_prefixes(run, bound):
    """Split a choice tree into independent sub-trees (for sharding): returns [(prefix, cost)]
    covering everything except the all-default execution, which is returned first as ([],0,True).
    """
    ch = Chooser(())
    run(ch)
    out = []
    for i in range(len(ch.choices)):
        for alt in range(1, ch.arity[i]):
            c = ch.cost_of(i, alt)
            if c <= bound:
                out.append((ch.choices[:i] + [alt], c))
    return out


# ----------------------------------------------------------------------------- BFS over histories
class BFSResult:
    def __init__(self):
        self.states = 0
        self.transitions = 0
        self.max_depth = 0
        self.fixpoint = False
        self.frontier_left = 0
        self.violations = []
        self.sample_histories = []


def bfs_histories(initial, step, max_depth=None, max_states=None, keep_samples=5):
    """Generic explicit-state search.

    initial: iterable of (history, canon_key)
    step(history) -> iterable of (op, new_history, canon_key | None, violation | None)
        canon_key None means "do not expand" (terminal / rejected-without-change is still a
        transition); the caller does invariant/model checks inside step.
    """
    res = BFSResult()
    seen = {}
    frontier = collections.deque()
    for h, k in initial:
        if k not in seen:
            seen[k] = h
            frontier.append(h)
    rnd = random.Random(seed())
    while frontier:
        h = frontier.popleft()
        res.max_depth = max(res.max_depth, len(h))
        if max_depth is not None and len(h) >= max_depth:
            res.frontier_left += 1
            continue
        for op, nh, k, viol in step(h):
            res.transitions += 1
            if viol is not None:
                res.violations.append((nh, viol))
            if k is None:
                continue
            if k not in seen:
                if max_states is not None and len(seen) >= max_states:
                    res.frontier_left += 1
                    continue
                seen[k] = nh
                frontier.append(nh)
                if len(res.sample_histories) < keep_samples or rnd.random() < 0.001:
                    if len(res.sample_histories) >= keep_samples:
                        res.sample_histories[rnd.randrange(keep_samples)] = nh
                    else:
                        res.sample_histories.append(nh)
    res.states = len(seen)
    res.fixpoint = res.frontier_left == 0
    return res


def product(*domains):
    return itertools.product(*domains)


class Timer:
    def __init__(self):
        self.t0 = time.time()

    def elapsed(self):
        return time.time() - self.t0
