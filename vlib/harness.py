"""Check context: counters, distinct cases, samples, violations, evidence, known findings."""
from __future__ import annotations

import hashlib
import json
import os
import random
import subprocess
import sys
import time

from . import explore
from .world import VERIF, HarnessError

EVIDENCE_DIR = os.environ.get("VERIF_EVIDENCE_DIR") or os.path.join(VERIF, "evidence")
REPLAY_DIR = os.environ.get("VERIF_REPLAY_DIR") or os.path.join(VERIF, "replays")
FINDINGS_FILE = os.path.join(VERIF, "known_findings.json")
MAX_REPLAYS_PER_SIG = 1
MAX_UNKNOWN_SIGS_REPORTED = 12


def h64(obj):
    if not isinstance(obj, (bytes, str)):
        obj = repr(obj)
    if isinstance(obj, str):
        obj = obj.encode("utf-8", "surrogatepass")
    return int.from_bytes(hashlib.blake2b(obj, digest_size=8).digest(), "big")


def jsonable(x):
    if isinstance(x, (str, int, float, bool)) or x is None:
        return x
    if isinstance(x, bytes):
        return x.decode("latin-1")
    if isinstance(x, dict):
        return {str(k): jsonable(v) for k, v in x.items()}
    if isinstance(x, (list, tuple, set, frozenset)):
        return [jsonable(v) for v in x]
    return repr(x)


def sigkey(sig):
    return json.dumps(jsonable(sig), sort_keys=True)


class Collector:
    """Picklable per-shard result; merged into the Check in the parent."""

    def __init__(self, nsamples=4, seed=0):
        self.evaluations = 0
        self.distinct = set()
        self.samples = []
        self.nsamples = nsamples
        self._seen_for_samples = 0
        self._rnd = random.Random(seed)
        self.violations = {}      # sigkey -> [count, sig, what, replay]
        self.extra = {}           # summed integer counters
        self.maxes = {}
        self.notes = set()

    def count(self, n=1):
        self.evaluations += n

    def add_distinct(self, key):
        self.distinct.add(key if isinstance(key, int) else h64(key))

    def sample(self, case):
        self._seen_for_samples += 1
        if len(self.samples) < self.nsamples:
            self.samples.append(jsonable(case))
        else:
            j = self._rnd.randrange(self._seen_for_samples)
            if j < self.nsamples:
                self.samples[j] = jsonable(case)

    def inc(self, name, n=1):
        self.extra[name] = self.extra.get(name, 0) + n

    def max(self, name, v):
        if v > self.maxes.get(name, -1):
            self.maxes[name] = v

    def violation(self, sig, what, replay=None):
        k = sigkey(sig)
        e = self.violations.get(k)
        if e is None:
            self.violations[k] = [1, jsonable(sig), str(what), jsonable(replay)]
        else:
            e[0] += 1

    def merge(self, other):
        self.evaluations += other.evaluations
        self.distinct |= other.distinct
        for s in other.samples:
            self._seen_for_samples += 1
            if len(self.samples) < self.nsamples:
                self.samples.append(s)
            elif self._rnd.random() < 0.3:
                self.samples[self._rnd.randrange(self.nsamples)] = s
        for k, v in other.extra.items():
            self.extra[k] = self.extra.get(k, 0) + v
        for k, v in other.maxes.items():
            self.max(k, v)
        self.notes |= other.notes
        for k, e in other.violations.items():
            mine = self.violations.get(k)
            if mine is None:
                self.violations[k] = list(e)
            else:
                mine[0] += e[0]


def load_findings(prop):
    try:
        with open(FINDINGS_FILE) as f:
            data = json.load(f)
    except FileNotFoundError:
        return []
    return [e for e in data.get("findings", []) if e.get("property") == prop]


def matches(entry_sig, sig):
    return all(sig.get(k) == v for k, v in entry_sig.items())


class Check(Collector):
    def __init__(self, prop, level, tier):
        super().__init__(nsamples=4, seed=explore.seed())
        self.prop, self.level, self.tier = prop, level, tier
        self.seed = explore.seed()
        self.t0 = time.time()
        self.rule = ""
        self.assumptions = []
        self.coverage = {}        # extra coverage keys (bounds etc.)
        self.exhaustive = True
        self.caps = []

    def new_collector(self):
        return Collector(self.nsamples, self.seed)

    def cap(self, text):
        self.caps.append(text)
        self.exhaustive = False

    # ---- finishing
    def finish(self):
        """Write evidence, print KNOWN-FINDING / VIOLATION lines; return exit status."""
        findings = load_findings(self.prop)
        known = [e for e in findings if e.get("status") == "known"]
        known_hits = {}
        unknown = []
        for k, (cnt, sig, what, replay) in sorted(self.violations.items()):
            for i, e in enumerate(known):
                if matches(e.get("signature", {}), sig):
                    known_hits.setdefault(i, [0, what])[0] += cnt
                    break
            else:
                unknown.append((cnt, sig, what, replay))
        for i, (cnt, what) in sorted(known_hits.items()):
            e = known[i]
            print(f"KNOWN-FINDING: property={self.prop} {e.get('what', what)} "
                  f"[signature={json.dumps(e.get('signature'), sort_keys=True)} occurrences={cnt}]")
        status = 0
        if unknown:
            os.makedirs(REPLAY_DIR, exist_ok=True)
            for cnt, sig, what, replay in unknown[:MAX_UNKNOWN_SIGS_REPORTED]:
                name = f"{self.prop}-{h64(sigkey(sig)):016x}.json"
                path = os.path.join(REPLAY_DIR, name)
                with open(path, "w") as f:
                    json.dump(dict(property=self.prop, tier=self.tier, signature=sig, what=what,
                                   occurrences=cnt, replay=replay), f, indent=1, sort_keys=True)
                print(f"VIOLATION property={self.prop} replay={path}")
                print(f"  what: {what}")
                print(f"  signature: {json.dumps(sig, sort_keys=True)} occurrences={cnt}")
            if len(unknown) > MAX_UNKNOWN_SIGS_REPORTED:
                print(f"  ... and {len(unknown) - MAX_UNKNOWN_SIGS_REPORTED} more distinct violation signatures")
            status = 1
        self.write_evidence(len(unknown), sum(c for c, _ in known_hits.values()))
        return status

    def write_evidence(self, n_unknown, n_known):
        cov = dict(self.coverage)
        cov.update(self.extra)
        cov.update({f"max_{k}": v for k, v in self.maxes.items()})
        cov["evaluations"] = int(self.evaluations)
        cov["distinct_nontrivial"] = len(self.distinct)
        cov["rule"] = self.rule
        cov["samples"] = self.samples[: self.nsamples] or ["(none)"]
        cov["exhaustive"] = bool(self.exhaustive)
        if self.caps:
            cov["caps_hit"] = self.caps
        if self.notes:
            cov["notes"] = sorted(self.notes)
        cov["known_finding_occurrences"] = n_known
        if self.level == "model_checking":
            cov.setdefault("states", cov.get("states", 0))
            cov.setdefault("transitions", cov.get("transitions", 0))
            cov.setdefault("traces_validated_against_impl", cov["evaluations"])
        ev = dict(property_id=self.prop, tier=self.tier, seed=self.seed, level=self.level,
                  coverage=cov, assumptions=self.assumptions,
                  wall_s=round(time.time() - self.t0, 3), violations=n_unknown)
        os.makedirs(EVIDENCE_DIR, exist_ok=True)
        path = os.path.join(EVIDENCE_DIR, f"{self.prop}.json")
        tmp = path + ".tmp"
        with open(tmp, "w") as f:
            json.dump(ev, f, indent=1, sort_keys=True)
            f.write("\n")
        os.replace(tmp, path)
        validate_evidence(path)
        return path


def validate_evidence(path):
    """jsonschema lives in the tooling venv only."""
    schema = "/root/.vp/EVIDENCE.schema.json"
    if not os.path.exists(schema) or os.environ.get("VERIF_NO_VALIDATE"):
        return
    code = ("import json,sys,jsonschema;"
            "jsonschema.validate(json.load(open(sys.argv[1])),json.load(open(sys.argv[2])))")
    try:
        r = subprocess.run(["python3-vt", "-c", code, path, schema], capture_output=True, text=True,
                           timeout=60)
    except (FileNotFoundError, subprocess.TimeoutExpired):
        return
    if r.returncode != 0:
        raise HarnessError(f"evidence file {path} does not validate: {r.stderr[-400:]}")
