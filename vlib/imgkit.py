"""Source images and image-object helpers shared by the render-output checks."""
from __future__ import annotations

import io
import os
import tempfile

from .world import load

_TMP = None


def tmpdir():
    global _TMP
    if _TMP is None:
        _TMP = tempfile.mkdtemp(prefix="verif-img-", dir=os.environ.get("VERIF_RUN_TMP") or "/var/tmp")
        import atexit
        import shutil

        pid = os.getpid()
        atexit.register(lambda: os.getpid() == pid and shutil.rmtree(_TMP, ignore_errors=True))
    return _TMP


def pattern(w, h, mode="RGBA", seed=0, alpha="pattern"):
    """Deterministic image with all-distinct pixel colours (when w*h <= 4096)."""
    from PIL import Image

    im = Image.new("RGBA", (w, h))
    px = im.load()
    for y in range(h):
        for x in range(w):
            i = y * w + x + seed * 7
            r, g, b = (37 * i + 11) % 256, (91 * i + 5) % 256, (53 * i + 200) % 256
            if alpha == "pattern":
                a = (255, 255, 0, 128, 255, 39, 40)[i % 7]
            elif alpha == "opaque":
                a = 255
            else:
                a = alpha
            px[x, y] = (r, g, b, a)
    if mode != "RGBA":
        if mode in ("P", "PA"):
            im = im.convert("RGB").convert("P") if mode == "P" else im.convert("PA")
        else:
            im = im.convert(mode)
    return im


def gif(w, h, n=2, path=None, duration=100):
    """An n-frame GIF file with distinct opaque frames; returns the path."""
    from PIL import Image

    frames = []
    for k in range(n):
        im = Image.new("RGB", (w, h))
        px = im.load()
        for y in range(h):
            for x in range(w):
                i = y * w + x
                px[x, y] = ((60 * k + 40 * i) % 256, (200 - 50 * k + 13 * i) % 256, (90 * k + 7 * i) % 256)
        frames.append(im)
    path = path or os.path.join(tmpdir(), f"anim-{w}x{h}-{n}.gif")
    frames[0].save(path, save_all=True, append_images=frames[1:], duration=duration, loop=0)
    return path


def png(w, h, mode="RGBA", path=None, **kw):
    path = path or os.path.join(tmpdir(), f"p-{w}x{h}-{mode}.png")
    pattern(w, h, mode, **kw).save(path)
    return path


def style_class(style):
    L = load()
    return {"block": L.image.BlockImage, "kitty": L.image.KittyImage, "iterm2": L.image.ITerm2Image}[style]
