"""./check <id> [--tier quick|thorough] [--replay file]   |   ./check --selftest"""
from __future__ import annotations

import argparse
import importlib
import json
import os
import sys
import traceback


def main(argv=None):
    ap = argparse.ArgumentParser(prog="check")
    ap.add_argument("prop", nargs="?")
    ap.add_argument("--tier", default=os.environ.get("VERIF_TIER") or "quick", choices=["quick", "thorough"])
    ap.add_argument("--replay")
    ap.add_argument("--selftest", action="store_true")
    ap.add_argument("--opt", action="append", default=[], help="module-specific k=v options")
    args = ap.parse_args(argv)

    real_stdout = sys.stdout
    from . import world
    from .harness import Check

    try:
        if args.selftest:
            from . import selftest

            return selftest.main()
        if not args.prop:
            ap.error("property id required")
        pid = args.prop.upper()
        mod = importlib.import_module(f"vlib.props.{pid.lower()}")
        world.load()
        opts = dict(o.split("=", 1) for o in args.opt)
        if args.replay:
            with open(args.replay) as f:
                data = json.load(f)
            ctx = Check(pid, mod.LEVEL, data.get("tier", args.tier))
            ctx.opts = opts
            mod.replay(ctx, data.get("replay"))
            sys.stdout = real_stdout
            if ctx.violations:
                for k, (cnt, sig, what, _) in ctx.violations.items():
                    print(f"VIOLATION property={pid} replay={args.replay}")
                    print(f"  what: {what}")
                    print(f"  signature: {json.dumps(sig, sort_keys=True)}")
                return 1
            print(f"replay of {args.replay}: property held")
            return 0
        ctx = Check(pid, mod.LEVEL, args.tier)
        ctx.opts = opts
        mod.run(ctx)
        sys.stdout = real_stdout
        status = ctx.finish()
        print(f"{pid} tier={args.tier} evaluations={ctx.evaluations} distinct={len(ctx.distinct)} "
              f"exhaustive={ctx.exhaustive} wall={ctx.coverage.get('wall', '')}"
              f"{'' if status == 0 else ' VIOLATIONS'}")
        return status
    except world.HarnessError as e:
        sys.stdout = real_stdout
        print(f"HARNESS-ERROR: {e}", file=sys.stderr)
        traceback.print_exc()
        return 2
    except Exception:
        sys.stdout = real_stdout
        print("HARNESS-ERROR: unexpected exception in the harness", file=sys.stderr)
        traceback.print_exc()
        return 2


def _scoped_main():
    """Runs main() with a run-scoped scratch directory (VERIF_RUN_TMP) that is removed when the run ends,
    whatever its forked workers left in it (multiprocessing workers exit without running atexit hooks)."""
    import shutil
    import tempfile

    if os.environ.get("VERIF_RUN_TMP"):
        return main()
    top = os.getpid()
    run_tmp = tempfile.mkdtemp(prefix="verif-run-", dir="/var/tmp")
    os.environ["VERIF_RUN_TMP"] = run_tmp
    try:
        return main()
    finally:
        if os.getpid() == top:
            shutil.rmtree(run_tmp, ignore_errors=True)


if __name__ == "__main__":
    sys.exit(_scoped_main())
