"""C01 A render output occupies exactly its advertised columns x lines rectangle.

Engine: product grids (unions of full products, every tuple executed on the real renderers);
every render string is then *executed* on the terminal model at EVERY (row, anchor column) at
which its w x h rectangle fits on EVERY screen of (w..w+2) x (h..h+2) cells.
Oracle (terminal model): touched cells == the rectangle, no wrap, no scroll, cursor on the last
line just past the last column (clamped at the right margin), attributes reset, every sequence
complete; string: exactly h-1 newlines, none trailing; (w, h) == image.rendered_size.
"""
from __future__ import annotations

import itertools

from .. import c01_common as cc
from .. import explore, world
from ..harness import h64

ID = "C01"
LEVEL = "exploration"

ALPHAS = [None, 0.0, "default", 0.5, "#", "#ff00aa"]
CELLS = [None, [2, 3], [8, 16]]
Z = [0, -5, 2**31 - 1]
PAT = ["pat", 5, 4, "RGBA"]
SOURCES = [["pat", 1, 1, "RGBA"], ["pat", 2, 3, "RGB"], PAT, ["pat", 16, 9, "RGBA"],
           ["pat", 5, 4, "L"], ["pat", 5, 4, "P"], ["gif", 5, 4, 2, 0], ["gif", 5, 4, 2, 1]]


def _prod(**dims):
    keys = list(dims)
    for vals in itertools.product(*(dims[k] for k in keys)):
        yield dict(zip(keys, vals))


def build_cases(tier):
    quick = tier == "quick"
    sizes = [[w, h] for w in range(1, 5 if quick else 7) for h in range(1, 4 if quick else 5)]
    few_sizes = [[1, 1], [2, 3], [4, 2]] if quick else [[w, h] for w in range(1, 5) for h in range(1, 4)] + [[1, 4], [6, 1]]
    cases = []
    add = cases.extend
    # ---------------------------------------------------------------- block
    add(_prod(style=["block"], identity=["other", "kitty"], alpha=ALPHAS, src=SOURCES, size=sizes,
              split=[False, True] if not quick else [False], cell=[None]))
    if quick:
        add(_prod(style=["block"], identity=["other", "kitty"], alpha=ALPHAS, src=[PAT], size=sizes,
                  split=[True], cell=[None]))
    add(_prod(style=["block"], identity=["other", "kitty"], alpha=[None, "default", 0.5, "#ff00aa"], src=[PAT],
              size=few_sizes, split=[False], cell=[[2, 3]], via=["format"]))
    add(_prod(style=["block"], identity=["other", "kitty"], alpha=["default"], src=SOURCES, size=few_sizes,
              split=[False], cell=[None], via=["str"]))
    # ---------------------------------------------------------------- kitty
    kid = ["kitty", "konsole"] if quick else ["kitty", "kitty-0.25", "konsole"]
    meth = ["lines", "whole"]
    # geometry block: everything that could interact with cursor movement
    add(_prod(style=["kitty"], identity=kid, method=meth, mix=[False, True], blend=[True, False], size=sizes,
              cell=CELLS, alpha=["default"] if quick else ["default", None],
              src=[PAT] if quick else [PAT, ["pat", 16, 9, "RGBA"]],
              z=[0] if quick else [0, 2**31 - 1, -2**31], compress=[4]))
    # payload block: everything that only changes what is transmitted
    add(_prod(style=["kitty"], identity=kid, method=meth, mix=[False], blend=[True], size=few_sizes,
              cell=[[2, 3]] if quick else [[2, 3], [8, 16]], alpha=ALPHAS, src=SOURCES, z=Z,
              compress=[0, 4] if quick else list(range(10))))
    add(_prod(style=["kitty"], identity=kid, method=meth, mix=[False, True], blend=[True], size=few_sizes,
              cell=[[2, 3]], alpha=[None, "default", 0.5, "#ff00aa"], src=[PAT], z=[0, -5], compress=[0, 4],
              via=["format"]))
    # chunk-boundary geometries, uncompressed: one strip / the whole image is exactly 3072 raw bytes = 4096 base64
    # characters = one full chunk (and one column less / more, and exactly two chunks).  At cell size (8,16):
    # RGB strip of 8 columns = 8*8*16*3, RGBA strip of 6 columns = 6*8*16*4; WHOLE transmits the source
    # resolution when the source is not larger than the render: 32x32 RGB, 32x24 RGBA (41x25 / 31x33: +-)
    add(_prod(style=["kitty"], identity=kid, method=["lines"], mix=[False, True], blend=[True, False],
              size=[[w, h] for w in (5, 6, 7, 8, 9, 16) for h in (1, 2)], cell=[[8, 16]], alpha=[None, "default"],
              src=[PAT], z=[0], compress=[0]))
    add(_prod(style=["kitty"], identity=kid, method=["whole"], mix=[False, True], blend=[True, False],
              size=[[4, 2], [5, 2], [4, 3]], cell=[[8, 16]], alpha=[None, "default"],
              src=[["pat", 32, 32, "RGB"], ["pat", 32, 24, "RGBA"], ["pat", 41, 25, "RGB"], ["pat", 31, 33, "RGB"],
                   ["pat", 64, 16, "RGB"]], z=[0], compress=[0]))
    add(_prod(style=["kitty"], identity=kid, method=[None], size=few_sizes, cell=CELLS, alpha=["default"],
              src=SOURCES, via=["str"]))
    # ---------------------------------------------------------------- iterm2
    iid = ["iterm2", "wezterm", "konsole"]
    imeth = ["lines", "whole", "anim"]
    GIF0 = ["gif", 5, 4, 2, 0]
    geo_src = [dict(src=PAT, kind="pil"), dict(src=GIF0, kind="file", fmt="gif"),
               dict(src=GIF0, kind="pilfile", fmt="gif"), dict(src=GIF0, kind="pilmem", fmt="gif")]
    for g in geo_src:
        add(dict(c, **g) for c in _prod(style=["iterm2"], identity=iid, method=imeth, mix=[False, True],
                                        size=sizes, cell=CELLS, alpha=["default"] if quick else ["default", None],
                                        compress=[4]))
    pay_src = [dict(src=s, kind="pil") for s in SOURCES[:6]] + [
        dict(src=PAT, kind="file", fmt="png"), dict(src=["pat", 2, 3, "RGB"], kind="file", fmt="png"),
        dict(src=["pat", 2, 3, "RGB"], kind="pilfile", fmt="png"), dict(src=["pat", 5, 4, "RGB"], kind="file", fmt="jpeg"),
        dict(src=["pat", 5, 4, "P"], kind="file", fmt="gif"),
        dict(src=GIF0, kind="file", fmt="gif"), dict(src=["gif", 5, 4, 2, 1], kind="file", fmt="gif"),
        dict(src=["gif", 5, 4, 2, 1], kind="pilfile", fmt="gif"), dict(src=["gif", 5, 4, 2, 1], kind="pilmem", fmt="gif")]
    for g in pay_src:
        add(dict(c, **g) for c in _prod(style=["iterm2"], identity=iid, method=imeth, mix=[False], size=few_sizes,
                                        cell=[[2, 3]] if quick else [[2, 3], [8, 16]], alpha=ALPHAS,
                                        jpeg=[None, 50], rff=[None, False],
                                        compress=[0, 4] if quick else [0, 4, 9]))
    add(_prod(style=["iterm2"], identity=iid, method=imeth, mix=[False, True], size=few_sizes, cell=[[2, 3]],
              alpha=[None, "default", 0.5, "#ff00aa"], src=[PAT], compress=[0, 4], via=["format"]))
    add(_prod(style=["iterm2"], identity=iid, method=[None], size=few_sizes, cell=CELLS, alpha=["default"],
              src=SOURCES, via=["str"]))
    # ---------------------------------------------------------------- automatic sizing (Size.FIT)
    fit_src = [PAT, ["pat", 16, 9, "RGBA"], ["pat", 2, 3, "RGB"]]
    terms = [[4, 4], [6, 5], [9, 4]] if quick else [[4, 4], [6, 5], [9, 4], [3, 8], [12, 6]]
    add(_prod(style=["block"], identity=["other", "kitty"], alpha=["default"], src=fit_src, fit=[True], term=terms,
              cell=[None, [2, 3]]))
    add(_prod(style=["kitty"], identity=kid, method=meth, alpha=["default"], src=fit_src, fit=[True], term=terms,
              cell=CELLS))
    add(_prod(style=["iterm2"], identity=iid, method=imeth, alpha=["default"], src=fit_src, fit=[True], term=terms,
              cell=CELLS))
    # canonical form + de-duplication (unions of products may overlap)
    seen, out = set(), []
    for c in cases:
        c = {k: v for k, v in c.items() if v is not None or k == "alpha"}
        if c.get("via") == "str":
            c.pop("alpha", None)
        k = repr(sorted(c.items()))
        if k not in seen:
            seen.add(k)
            out.append(c)
    return out


# ---------------------------------------------------------------------------------- ImageIterator frames
ITER_TERMS = [[12, 8], [6, 5], [20, 10]]
ITER_GIF = ["gif", 5, 4, 2, 0]          # 2 frames
ITER_LOOPS = 3


def schedules(nsteps, max_changes):
    """Every sequence of terminal sizes (one per frame step) with at most *max_changes* resizes."""
    out = []

    def rec(seq, changes):
        if len(seq) == nsteps:
            out.append(list(seq))
            return
        for t in ITER_TERMS:
            ch = changes + (t != seq[-1])
            if ch <= max_changes:
                rec(seq + [t], ch)

    for t in ITER_TERMS:
        rec([t], 0)
    return out


def build_iter_cases(tier):
    quick = tier == "quick"
    combos = ([("block", i, None, None) for i in ("other", "kitty")] +
              [("kitty", i, m, [2, 3]) for i in ("kitty", "konsole") for m in ("lines", "whole")] +
              [("iterm2", i, m, [2, 3]) for i in ("iterm2", "wezterm", "konsole") for m in ("lines", "whole", "anim")])
    scheds = schedules(ITER_LOOPS * ITER_GIF[3], 1 if quick else 2)
    cases = []
    for style, ident, method, cell in combos:
        for fit in (True, False):
            for cached in (True, False):
                for sch in scheds:
                    c = dict(part="iter", style=style, identity=ident, cell=cell, src=ITER_GIF, kind="file", fmt="gif",
                             cached=cached, repeat=ITER_LOOPS, schedule=sch)
                    if method:
                        c["method"] = method
                    if fit:
                        c["fit"] = True
                    else:
                        c["size"] = [3, 2]
                    cases.append(c)
    # iter(image) / a for-loop over the image: one pass, frames exactly as str(image) at that frame
    for style, ident, method, cell in combos:
        if method not in (None, "lines"):
            continue            # iter() takes no style arguments: the class default (lines) applies
        for fit in (True, False):
            for t in ITER_TERMS:
                c = dict(part="iter", entry="iter", style=style, identity=ident, cell=cell, src=ITER_GIF, kind="file",
                         fmt="gif", schedule=[t] * ITER_GIF[3])
                if fit:
                    c["fit"] = True
                else:
                    c["size"] = [3, 2]
                cases.append(c)
    return cases


_frame_memo = {}    # (frame hash, identity, w, h) -> problems; saves time only, nothing is counted from it


def iter_case(col, case):
    """Frames of a (caching) ImageIterator while the terminal is resized between frames: every
    frame must occupy exactly the rectangle image.rendered_size advertises at that moment."""
    L = world.load()
    sched = case["schedule"]
    sub = cc.build(dict(case, term=sched[0]))
    ident = cc.vt_identity(case["identity"])
    img = sub.img
    spec = "1.1" + ("+" + case["method"][0].upper() if case.get("method") else "")
    by_iter = case.get("entry") == "iter"
    it = iter(img) if by_iter else L.common.ImageIterator(img, case["repeat"], spec, case["cached"])
    try:
        resized = False
        for k, term in enumerate(sched):
            if k and term != sched[k - 1]:
                cc.resize_terminal(*term, cell=case.get("cell"))
                resized = True
            frame = next(it)
            col.count()
            w, h = img.rendered_size
            if by_iter and frame != str(img):
                col.violation(sig_of(case, "iter-frame-is-str", part="iterator", fit=bool(case.get("fit"))),
                              f"frame {k} of iter(image) differs from str(image) at that frame "
                              f"({len(frame)} vs {len(str(img))} characters)", dict(case, step=k))
            key = (h64(frame), ident, w, h)
            probs = _frame_memo.get(key)
            if probs is None:
                probs = []
                if frame.count("\n") != h - 1 or frame.endswith("\n"):
                    probs.append(("newline-count", f"{frame.count(chr(10))} newlines (trailing: "
                                  f"{frame.endswith(chr(10))}) in a frame advertised as {h} lines"))
                for cols, rows, r0, c0 in cc.positions(w, h, 1):
                    for clause, text in cc.judge_rectangle(frame, ident, w, h, cols, rows, r0, c0):
                        probs.append((clause, f"{text} [screen {cols}x{rows}, anchored at row {r0} col {c0}]"))
                        break
                    else:
                        continue
                    break
                _frame_memo[key] = probs
            for clause, text in probs[:1]:
                col.violation(sig_of(case, clause, part="iterator", cached=case.get("cached"), fit=bool(case.get("fit")),
                                     after_resize=resized),
                              f"frame {k} (terminal {term}, advertised {w}x{h}): {text}", dict(case, step=k))
            col.add_distinct(key)
    finally:
        it.close()
        sub.close()


# ---------------------------------------------------------------------------------- one case
def sig_of(case, clause, **more):
    s = dict(clause=clause, style=case["style"], method=case.get("method") or "default",
             identity=cc.vt_identity(case["identity"]))
    if case["style"] != "block":
        s["mix"] = bool(case.get("mix"))
    s.update(more)
    return s


def render_case(col, case):
    """Phase 1: execute the real renderer; string-level clauses.  Returns (key, string)."""
    col.count()
    sub = cc.build(case)
    try:
        before = tuple(sub.img.rendered_size)
        s = cc.render(sub, case)
        rsize = tuple(sub.img.rendered_size)
    finally:
        sub.close()
    w, h = before if case.get("fit") else case["size"]
    if rsize != (w, h):
        col.violation(sig_of(case, "rendered-size"), f"rendered_size={rsize} after rendering, {(w, h)} "
                      f"{'before' if case.get('fit') else 'requested'}", case)
    if s.count("\n") != h - 1:
        col.violation(sig_of(case, "newline-count"), f"{s.count(chr(10))} newlines in a render of {h} lines", case)
    if s.endswith("\n"):
        col.violation(sig_of(case, "trailing-newline"), "render output ends with a newline", case)
    return (h64(s), cc.vt_identity(case["identity"]), w, h), s


def sweep(col, case, s, w, h):
    """Phase 2: execute the string at every fitting anchor of every screen."""
    extra = EXTRA
    ident = cc.vt_identity(case["identity"])
    first = True
    for cols, rows, r0, c0 in cc.positions(w, h, extra):
        bad = cc.judge_rectangle(s, ident, w, h, cols, rows, r0, c0, decode=first)
        first = False
        col.inc("terminal_executions")
        for clause, text in bad:
            where = dict(at_right_margin=c0 + w == cols, at_bottom=r0 + h == rows)
            col.violation(sig_of(case, clause, **where),
                          f"{text} [screen {cols}x{rows}, anchored at row {r0} col {c0}, render {w}x{h}]",
                          dict(case, screen=[cols, rows], at=[r0, c0]))


def _guard(col, case, f):
    try:
        return f()
    except world.HarnessError:
        raise
    except Exception as e:  # a valid render request must not raise
        col.violation(sig_of(case, "exception", exc=type(e).__name__), f"{type(e).__name__}: {e}", case)
        return None


def _shard1(items):
    col = _CTX.new_collector()
    col.keys = {}
    for idx, case in items:
        r = _guard(col, case, lambda: render_case(col, case))
        if r is not None and (r[0] not in col.keys or idx < col.keys[r[0]]):
            col.keys[r[0]] = idx
        if col.evaluations % 499 == 0:
            col.sample(case)
    return col


def _shard_iter(cases):
    col = _CTX.new_collector()
    for case in cases:
        _guard(col, case, lambda: iter_case(col, case))
        if col.evaluations % 1499 == 0:
            col.sample(case)
    return col


def _shard2(items):
    col = _CTX.new_collector()
    for idx, case in items:
        def f():
            key, s = render_case(col, case)
            col.add_distinct(key)
            sweep(col, case, s, key[2], key[3])
        _guard(col, case, f)
    return col


_CTX = None
EXTRA = 2      # screens (w..w+EXTRA) x (h..h+EXTRA); 3 in the thorough tier


def run(ctx):
    global _CTX, EXTRA
    _CTX = ctx
    EXTRA = 2 if ctx.tier == "quick" else 3
    cc.prepare()
    cases = build_cases(ctx.tier)
    items = explore.rotate(sorted(enumerate(cases), key=lambda ic: h64(repr(sorted(ic[1].items())))))
    # phase 1: every case is rendered by the real code; identical (render string, identity, size)
    # tuples are then swept once - the representative is the case with the smallest index, which
    # is re-rendered in phase 2 (counted), so the result does not depend on sharding or seed.
    keys = {}
    for col in explore.pmap(_shard1, items):
        for k, idx in col.keys.items():
            if k not in keys or idx < keys[k]:
                keys[k] = idx
        del col.keys
        ctx.merge(col)
    reps = sorted(set(keys.values()))
    for col in explore.pmap(_shard2, explore.rotate(sorted(((i, cases[i]) for i in reps), key=lambda ic: h64(repr(sorted(ic[1].items())))))):
        ctx.merge(col)
    icases = build_iter_cases(ctx.tier)
    for col in explore.pmap(_shard_iter, explore.rotate(cc.spread(icases))):
        ctx.merge(col)
    for c in cases[:2]:
        ctx.sample(c)
    per_style = {}
    for c in cases:
        per_style[c["style"]] = per_style.get(c["style"], 0) + 1
    ctx.rule = ("unions of full products over style x method x terminal identity x style arguments x alpha x "
                "source x size in cells x cell size (blocks: geometry = identity x method x mix x blend x all "
                "sizes x all cell sizes; payload = alpha x source x z x compress x jpeg x read_from_file x source "
                "kind; format()/str() entry points); every case rendered by the real code; each distinct (render "
                "string, terminal identity, size) executed at every fitting anchor of every screen "
                f"(w..w+{EXTRA})x(h..h+{EXTRA}); evaluations = renders (cases + one re-render per distinct string); "
                "distinct = distinct (render string, identity, size)")
    ctx.rule += ("; iterator part: every frame of ImageIterator (3 loops x 2 frames, cached / uncached, dynamic / "
                 f"fixed size) under every schedule of terminal sizes with <= {1 if ctx.tier == 'quick' else 2} "
                 "resizes between frames (one evaluation per frame)")
    ctx.coverage.update(cases=len(cases), cases_per_style=per_style, swept_renders=len(reps),
                        iterator_histories=len(icases), iterator_terminals=[repr(t) for t in ITER_TERMS],
                        screens=f"(w..w+{EXTRA}) x (h..h+{EXTRA}), every (row, anchor column) where the rectangle fits",
                        alphas=[repr(a) for a in ALPHAS], cells=[repr(c) for c in CELLS])
    ctx.assumptions += ["vlib/vterm.py is the terminal (DESIGN Appendix A); a render is anchored with the "
                        "line-start column at the anchor column (DESIGN 2.2)",
                        "PIL builds the sources", "image sizes are set manually (width= and height=), the "
                        "world terminal is 20x10"]


def replay(ctx, case):
    global EXTRA
    EXTRA = 2 if ctx.tier == "quick" else 3
    case = dict(case)
    case.pop("screen", None)
    case.pop("at", None)
    if case.get("part") == "iter":
        case.pop("step", None)
        _guard(ctx, case, lambda: iter_case(ctx, case))
        return

    def f():
        key, s = render_case(ctx, case)
        sweep(ctx, case, s, key[2], key[3])
    _guard(ctx, case, f)
