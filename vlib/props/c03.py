"""C03 Graphics renders transmit exactly the image, in well-formed protocol framing.

(a) component level: Transmission(ControlData, payload, level).get_chunks() for EVERY payload
    length 0..9300 (thorough 0..13000) x compression {0, 4} x payload kind - 0, 1, exactly-k and
    k+epsilon chunks all occur;
(b) end to end: kitty lines/whole and iterm2 lines/whole/anim renders over sources whose raw size
    lands on and around the 3072-byte (= 4096 base64 characters) boundary and small ones, x cell
    sizes x sizes in cells x compression x alpha x z/mix/blend x jpeg x read_from_file x source kind.
Oracle: the protocol decoder of the terminal model (independent of kitty.py / iterm2.py) + framing
rules of the property statement + expected pixels computed by PIL convert / resize(BOX) /
composite at the transmitted resolution.
"""
from __future__ import annotations

import base64
import hashlib
import itertools
import zlib

from .. import c01_common as cc
from .. import explore, vterm, world
from ..harness import h64

ID = "C03"
LEVEL = "exploration"

CHUNK = 4096


# ---------------------------------------------------------------------------------- framing rules (statement)
def framing_problems(chunks):
    """chunks = [(keys, payload)] of ONE graphics command.  [(clause, text)]."""
    out = []
    n = len(chunks)
    for i, (keys, p) in enumerate(chunks):
        last = i == n - 1
        if i > 0 and set(keys) - {"m"}:
            out.append(("continuation-keys", f"chunk {i} of {n} carries keys {sorted(set(keys) - {'m'})}"))
        if len(p) > CHUNK:
            out.append(("chunk-size", f"chunk {i} of {n} has {len(p)} base64 characters (> {CHUNK})"))
        if not last and (len(p) % 4 or not p):
            out.append(("chunk-multiple-of-4", f"non-final chunk {i} of {n} has {len(p)} characters"))
        m = keys.get("m")
        if not last and m != "1":
            out.append(("m-flag", f"non-final chunk {i} of {n} has m={m}"))
        if last and m not in ("0", None):
            out.append(("m-flag", f"final chunk {i} of {n} has m={m}"))
    return out


def group_commands(kitty_chunks):
    """Flat APC list -> list of commands (each a list of chunks) + problems."""
    cmds, cur, probs = [], None, []
    for keys, p in kitty_chunks:
        if cur is not None and not (set(keys) - {"m"}):
            cur.append((keys, p))
        else:
            if cur is not None:
                probs.append(("m-flag", "a new command starts while a chunked transmission is open"))
            if not (set(keys) - {"m"}):
                probs.append(("continuation-keys", "a chunk without control keys outside a transmission"))
            cur = [(keys, p)]
            cmds.append(cur)
        if keys.get("m") != "1":
            cur = None
    if cur is not None:
        probs.append(("m-flag", "output ends inside a chunked transmission (last chunk has m=1)"))
    return cmds, probs


# ---------------------------------------------------------------------------------- (a) component level
_NOISE = hashlib.shake_256(b"verif C03 payload").digest(16384)


def chunk_case(col, case):
    L = world.load()
    K = L.kitty
    n, level, kind, fmt = case["n"], case["level"], case["payload"], case["f"]
    col.count()
    payload = _NOISE[:n] if kind == "noise" else (b"\x10\x80\xf0" * (n // 3 + 1))[:n]
    if fmt == 100:
        cd = K.ControlData(f=100, c=1, r=1)
        want = dict(a="T", f="100", t="d", z="0", C="1", c="1", r="1")
    else:
        bpp = fmt // 8
        cd = K.ControlData(f=fmt, s=n // bpp, v=1, c=1, r=1)
        want = dict(a="T", f=str(fmt), t="d", s=str(n // bpp), v="1", z="0", C="1", c="1", r="1")
    tr = K.Transmission(cd, payload, level)
    chunks = list(tr.get_chunks())
    t = vterm.VTerm(4, 4, "kitty", strict=True)

    def transmitted():
        return sum(len(p) for _, p in t.kitty_chunks)       # base64 characters, as the decoder saw them

    def bad(clause, what):
        nb64 = transmitted()
        col.violation(dict(part="chunks", clause=clause, level=level, payload=kind, f=fmt,
                           exact_multiple=nb64 % CHUNK == 0 and nb64 > 0,
                           nchunks=min(-(-nb64 // CHUNK), 3)), what, case)

    for i, ch in enumerate(chunks):
        t.feed(ch)
        if not t.in_ground() or len(t.kitty_chunks) != i + 1:
            bad("chunk-is-one-command", f"chunk {i} is not exactly one complete APC graphics command "
                f"(parser={t.parser_state}, commands seen={len(t.kitty_chunks)})")
            return
    if tr.get_chunked() != "".join(chunks):
        bad("get_chunked", "get_chunked() != ''.join(get_chunks())")
    cmds, probs = group_commands(t.kitty_chunks)
    for clause, text in probs:
        bad(clause, text)
    if len(cmds) != 1:
        bad("one-command", f"{len(cmds)} commands for one transmission")
        return
    for clause, text in framing_problems(cmds[0]):
        bad(clause, text)
    first = dict(cmds[0][0][0])
    first.pop("m", None)
    deflated = first.pop("o", None) == "z"      # compression is optional: judged by decoding accordingly
    if first != want:
        bad("control-keys", f"first chunk keys {first}, expected {want}")
    joined = "".join(p for _, p in cmds[0])
    try:
        raw = base64.b64decode(joined, validate=True)
        if deflated:
            raw = zlib.decompress(raw)
    except Exception as e:
        bad("payload", f"payload does not decode: {type(e).__name__}: {e}")
        return
    if raw != payload:
        bad("payload", f"decoded payload ({len(raw)} bytes) differs from the {n} bytes given")
    if t.errors or t.pending_kitty is not None:
        bad("decoder", f"terminal model: {t.errors[:2]} pending={t.pending_kitty is not None}")
    elif len(t.kitty_images) != 1 or not t.kitty_images[0].get("ok") or t.kitty_images[0]["raw"] != payload \
            or t.kitty_images[0]["nchunks"] != len(chunks):
        bad("decoder", "terminal model did not reassemble the transmission to the payload")
    if len(cmds[0]) > 1:
        col.add_distinct(("chunks", n, level, kind, fmt))
    col.max("chunks_per_transmission", len(cmds[0]))
    if transmitted() and transmitted() % CHUNK == 0:
        col.inc("transmissions_on_exact_chunk_multiple")


# ---------------------------------------------------------------------------------- (b) end to end
def e2e_sig(case, clause, **more):
    a = case.get("alpha", "default")
    s = dict(part=case["style"], clause=clause, method=(case.get("method") or "default").lower(),
             alpha=("none" if a is None else "threshold" if isinstance(a, float) or a == "default" else "colour"),
             source=case.get("kind", "pil"))
    s.update(more)
    return s


def e2e_case(col, case):
    col.count()
    w, h = case["size"]
    sub = cc.build(case)
    try:
        s = cc.render(sub, case)
        L = world.load()
        cell = tuple(L.utils.get_cell_size() or (1, 2))
    finally:
        sub.close()
    ref = cc.reference_source(case)
    alpha = cc.alpha_value(case.get("alpha", "default"))
    termbg = cc.termbg_rgb(case)
    ident = cc.vt_identity(case["identity"])
    t = vterm.run(s, w + 1, h + 1, ident, at=(0, 0), strict=True)
    if case.get("cell") and cell != tuple(case["cell"]):
        raise world.HarnessError(f"cell size {cell} != configured {case['cell']}")
    render_px = (w * cell[0], h * cell[1])

    def bad(clause, what, **more):
        col.violation(e2e_sig(case, clause, **more), what, case)

    if not t.in_ground() or t.pending_kitty is not None:
        bad("incomplete", f"output ends inside a sequence (parser={t.parser_state})")
    method = cc.effective_method(case)
    if case["style"] == "kitty":
        judge_kitty(col, case, t, ref, alpha, termbg, w, h, cell, render_px, method, bad)
    else:
        judge_iterm2(col, case, t, ref, alpha, termbg, w, h, cell, render_px, method, bad)
    col.add_distinct(h64(s))


def judge_kitty(col, case, t, ref, alpha, termbg, w, h, cell, render_px, method, bad):
    cmds, probs = group_commands(t.kitty_chunks)
    for clause, text in probs:
        bad(clause, text)
    trans = []
    for cmd in cmds:
        a = cmd[0][0].get("a", "t")
        if a == "d":
            if len(cmd) != 1 or cmd[0][1]:
                bad("delete-command", "a delete command with payload / chunks")
            continue
        trans.append(cmd)
        for clause, text in framing_problems(cmd):
            bad(clause, text, nchunks=min(len(cmd), 3))
        col.max("chunks_per_transmission", len(cmd))
    for e in t.errors:
        bad("size-keys" if "s*v*bpp" in e else "decoder", f"terminal model: {e}")
    imgs = t.kitty_images
    exp_n = h if method == "lines" else 1
    if len(trans) != exp_n or len(imgs) != exp_n:
        bad("transmission-count", f"{len(trans)} transmissions / {len(imgs)} images for method {method}, height {h}")
        return
    if not all(i.get("ok") for i in imgs):
        return          # already reported through t.errors
    exp_mode = "RGB" if (alpha is None or isinstance(alpha, str) or ref.mode in cc.OPAQUE_MODES) else "RGBA"
    comp = case.get("compress", 4)
    z = case.get("z", 0)
    for i, im in enumerate(imgs):
        k = im["keys"]
        want = dict(a="T", t="d", C="1", c=str(w), z=str(z), f="24" if exp_mode == "RGB" else "32",
                    r="1" if method == "lines" else str(h))
        got = {x: k.get(x) for x in want}
        if got != want:
            bad("control-keys", f"transmission {i}: keys {got}, expected {want}")
            return
        if "o" in k and not comp:
            bad("control-keys", f"transmission {i}: o={k.get('o')} with compress=0 (no compression requested)")
    sizes = {im["size"] for im in imgs}
    if len(sizes) != 1:
        bad("strip-size", f"strips of different sizes {sorted(sizes)}")
        return
    s_, v_ = imgs[0]["size"]
    if method == "lines":
        if (s_, v_) != (render_px[0], cell[1]):
            bad("strip-size", f"strip is {s_}x{v_} pixels, expected {render_px[0]}x{cell[1]} (columns x cell "
                f"width, one cell height)")
            return
        total = (s_, v_ * h)
    else:
        total = (s_, v_)
        if total not in (render_px, ref.size):
            bad("whole-resolution", f"transmitted resolution {total} is neither the render size {render_px} nor "
                f"the source size {ref.size}")
    exp = cc.expected_image(ref, alpha, total, termbg)
    stitched = b"".join(im["raw"] for im in imgs)
    if exp.mode != exp_mode:
        raise world.HarnessError("reference mode disagreement")
    if stitched != exp.tobytes():
        nbad = sum(1 for a_, b_ in zip(stitched, exp.tobytes()) if a_ != b_)
        bad("pixels", f"transmitted pixels differ from the image at {total} ({nbad} of {len(stitched)} bytes, "
            f"lengths {len(stitched)}/{len(exp.tobytes())})", resampled=tuple(total) != ref.size)
    if tuple(total) == ref.size:
        col.inc("compared_without_resampling")


def judge_iterm2(col, case, t, ref, alpha, termbg, w, h, cell, render_px, method, bad):
    for e in t.errors:
        bad("size-key" if "size=" in e else "decoder", f"terminal model: {e}")
    imgs = t.iterm_images
    animated = cc.is_animated_src(case["src"])
    native = method == "anim" and animated
    lines = method == "lines"
    exp_n = h if lines else 1
    if len(imgs) != exp_n:
        bad("transmission-count", f"{len(imgs)} images for method {method}, height {h}")
        return
    for i, im in enumerate(imgs):
        k = im["keys"]
        want = dict(inline="1", preserveAspectRatio="0", width=str(w), height="1" if lines else str(h))
        got = {x: k.get(x) for x in want}
        if got != want:
            bad("control-keys", f"image {i}: keys {got}, expected {want}")
            return
        if "raw" not in im:
            return
        if k.get("size") != str(len(im["raw"])):
            bad("size-key", f"image {i}: size={k.get('size')} but the payload decodes to {len(im['raw'])} bytes")
    if not all(im.get("ok") for im in imgs):
        return
    kind = case.get("kind", "pil")
    path = None
    if kind in ("file", "pilfile") or (kind == "pil" and case["src"][0] in cc.ANIMATED_KINDS):
        path = cc.source_path(case["src"], case.get("fmt", cc.default_fmt(case["src"])))
    filebytes = None
    if path or kind == "pilmem":
        with open(path or cc.source_path(case["src"], case.get("fmt", cc.default_fmt(case["src"]))), "rb") as f:
            filebytes = f.read()
    raw0 = imgs[0]["raw"]
    if native:
        col.inc("native_animations")
        if path:
            if raw0 != filebytes:
                bad("native-anim-file", "native animation payload is not the untouched source file")
        else:
            from PIL import Image
            import io

            with Image.open(io.BytesIO(raw0)) as got, Image.open(io.BytesIO(filebytes)) as src:
                if getattr(got, "n_frames", 1) != src.n_frames:
                    bad("native-anim-frames", f"{getattr(got, 'n_frames', 1)} frames transmitted, source has "
                        f"{src.n_frames}")
                    return
                for f in range(src.n_frames):
                    got.seek(f)
                    src.seek(f)
                    if got.convert("RGBA").tobytes() != src.convert("RGBA").tobytes():
                        bad("native-anim-frames", f"frame {f} of the transmitted animation differs from the source")
                        return
        return
    # ---- read-from-file gate (reference predicate from the documentation of read_from_file)
    rff = case.get("rff") is not False
    whole = method == "whole"
    srcmode = ref.mode
    no_manipulation = srcmode in cc.OPAQUE_MODES or isinstance(alpha, float)
    may_read = rff and (whole or method == "anim") and not animated and path is not None and no_manipulation
    # ANIM on a still image "is rendered as WHOLE" (documentation), so the gate applies to it as well
    must_read = (may_read and (whole or method == "anim") and srcmode not in ("P", "PA")
                 and ref.size[0] * ref.size[1] <= render_px[0] * render_px[1])
    is_file = path is not None and raw0 == filebytes
    if is_file and not may_read:
        bad("read-from-file-gate", f"payload is the source file although read-from-file does not apply (policy={rff}, "
            f"method={method}, animated={animated}, mode={srcmode}, alpha={alpha!r})", direction="unexpected")
        return
    if must_read and not is_file:
        bad("read-from-file-gate", f"payload was re-encoded although read-from-file applies (mode={srcmode}, "
            f"alpha={alpha!r}, source {ref.size} <= render {render_px})", direction="missing")
    if is_file:
        col.inc("read_from_file")
        return
    # ---- re-encoded
    if any(im.get("n_frames", 1) != 1 for im in imgs):
        bad("still-is-one-frame", f"a still render transmits a payload of {[im.get('n_frames') for im in imgs]} frames")
        return
    sizes = {im["size"] for im in imgs}
    if len(sizes) != 1:
        bad("strip-size", f"strips of different sizes {sorted(sizes)}")
        return
    s_, v_ = imgs[0]["size"]
    if lines:
        if (s_, v_) != (render_px[0], cell[1]):
            bad("strip-size", f"strip is {s_}x{v_} pixels, expected {render_px[0]}x{cell[1]}")
            return
        total = (s_, v_ * h)
    else:
        total = (s_, v_)
        if total not in (render_px, ref.size):
            bad("whole-resolution", f"transmitted resolution {total} is neither the render size {render_px} nor "
                f"the source size {ref.size}")
    exp = cc.expected_image(ref, alpha, total, termbg)
    jpeg = cc.effective_jpeg(case)      # what was configured, not what the property reads back
    want_fmt = "JPEG" if (jpeg is not None and jpeg >= 0 and exp.mode == "RGB") else "PNG"
    fmts = {im.get("format") for im in imgs}
    if fmts != {want_fmt}:
        bad("encoding-format", f"payload format {sorted(map(str, fmts))}, expected {want_fmt} (jpeg_quality={jpeg}, "
            f"render mode {exp.mode})")
        return
    if want_fmt == "JPEG":
        col.inc("jpeg_renders")
        if any(im["mode"] != "RGB" for im in imgs):
            bad("pixels", f"JPEG payload decodes to mode {[im['mode'] for im in imgs]}")
        return      # lossy: dimensions (checked above) and mode only
    if any(im["mode"] != exp.mode for im in imgs):
        bad("pixels", f"PNG payload decodes to mode {[im['mode'] for im in imgs]}, expected {exp.mode}")
        return
    stitched = b"".join(im["pix"] for im in imgs)
    if stitched != exp.tobytes():
        nbad = sum(1 for a_, b_ in zip(stitched, exp.tobytes()) if a_ != b_)
        bad("pixels", f"transmitted pixels differ from the image at {total} ({nbad} of {len(stitched)} bytes, "
            f"lengths {len(stitched)}/{len(exp.tobytes())})", resampled=tuple(total) != ref.size)
    if tuple(total) == ref.size:
        col.inc("compared_without_resampling")


# ---------------------------------------------------------------------------------- case lists
def _prod(**dims):
    keys = list(dims)
    for vals in itertools.product(*(dims[k] for k in keys)):
        yield dict(zip(keys, vals))


BOUNDARY = [["pat", 32, 32, "RGB"], ["pat", 41, 25, "RGB"], ["pat", 64, 32, "RGB"], ["pat", 32, 24, "RGBA"]]
MIXED = [["fn", 32, 64, "RGB"], ["nf", 32, 64, "RGB"], ["fn", 16, 12, "RGBA"]]     # strips of unequal compressibility
SMALL = [["pat", 1, 1, "RGBA"], ["pat", 2, 3, "RGB"], ["pat", 5, 4, "RGBA"], ["pat", 16, 9, "RGBA"],
         ["mode", 5, 4, "L"], ["mode", 5, 4, "LA"], ["mode", 5, 4, "P"], ["mode", 5, 4, "P+t"]]
GIFS = [["gif", 5, 4, 2, 0], ["gif", 5, 4, 2, 1]]
ALPHAS = [None, "default", "#", "#ff00aa"]
Z = [0, -5, 2**31 - 1]


def build_cases(tier):
    quick = tier == "quick"
    cases = []
    add = cases.extend
    top = 9300 if quick else 13000
    for n in range(top + 1):
        for level in (0, 4):
            cases.append(dict(part="chunks", n=n, level=level, payload="noise", f=100))
            if n and n % 3 == 0:
                cases.append(dict(part="chunks", n=n, level=level, payload="noise", f=24))
            if n and n % 4 == 0 and not quick:
                cases.append(dict(part="chunks", n=n, level=level, payload="noise", f=32))
            if level and (not quick or n % 7 == 0):
                cases.append(dict(part="chunks", n=n, level=level, payload="runs", f=100))
    sizes = [[w, h] for w in range(1, 5) for h in range(1, 5)]
    few = [[1, 1], [2, 3], [4, 2]] + ([] if quick else [[1, 4], [3, 3], [4, 4], [2, 1], [3, 2]])
    cells = [[2, 3], [8, 16], [9, 18], [16, 32]]
    comp = [0, 4] if quick else list(range(10))
    # kitty: strip arithmetic / chunk boundaries end to end
    add(_prod(style=["kitty"], identity=["kitty"], method=["lines", "whole"], src=BOUNDARY + MIXED + [SMALL[2]], cell=cells,
              size=sizes, compress=comp, alpha=["default", None] if quick else ALPHAS, blend=[True, False]))
    # kitty: payload and keys
    add(_prod(style=["kitty"], identity=["kitty", "konsole"], method=["lines", "whole"], src=BOUNDARY + SMALL + GIFS,
              cell=[[2, 3], [8, 16]] if quick else cells + [None], size=few, compress=[0, 4], alpha=ALPHAS, z=Z,
              mix=[False, True], blend=[True, False]))
    # iterm2: strips / resolutions
    iid = ["iterm2", "konsole"] if quick else ["iterm2", "wezterm", "konsole"]
    add(_prod(style=["iterm2"], identity=iid, method=["lines", "whole", "anim"], src=BOUNDARY + MIXED + [SMALL[2]],
              cell=cells[:3], size=sizes, compress=[0, 4] if quick else [0, 4, 9],
              alpha=["default", None] if quick else ALPHAS))
    # iterm2: payload kinds, jpeg, read-from-file
    srcs = [dict(src=s, kind="pil") for s in BOUNDARY[:1] + SMALL] + [
        dict(src=["pat", 5, 4, "RGBA"], kind="file", fmt="png"), dict(src=["pat", 2, 3, "RGB"], kind="file", fmt="png"),
        dict(src=["pat", 2, 3, "RGB"], kind="pilfile", fmt="png"), dict(src=["pat", 64, 32, "RGB"], kind="file", fmt="png"),
        dict(src=["mode", 5, 4, "LA"], kind="file", fmt="png"), dict(src=["mode", 5, 4, "L"], kind="file", fmt="png"),
        dict(src=["pat", 5, 4, "RGB"], kind="file", fmt="jpeg"), dict(src=["mode", 5, 4, "P"], kind="file", fmt="gif"),
        dict(src=["mode", 5, 4, "P+t"], kind="file", fmt="png"),
        dict(src=GIFS[0], kind="file", fmt="gif"), dict(src=GIFS[1], kind="file", fmt="gif"),
        dict(src=GIFS[1], kind="pilfile", fmt="gif"), dict(src=GIFS[1], kind="pilmem", fmt="gif")]
    # animated PNG (RGB / RGBA pass the mode part of the read-from-file gate, GIF never does): a still render
    # of frame k must transmit frame k, never the animated file
    for mode in ("RGB", "RGBA"):
        for k in range(3):
            srcs.append(dict(src=["apng", 5, 4, 3, k, mode], kind="file", fmt="png"))
        srcs.append(dict(src=["apng", 5, 4, 3, 1, mode], kind="pilfile", fmt="png"))
        if not quick:
            srcs.append(dict(src=["apng", 5, 4, 3, 2, mode], kind="pilmem", fmt="png"))
    for g in srcs:
        add(dict(c, **g) for c in _prod(style=["iterm2"], identity=iid, method=["lines", "whole", "anim"],
                                        cell=[[2, 3], [8, 16]] if quick else cells[:3] + [None], size=few,
                                        alpha=ALPHAS + ([] if quick else [0.5]), jpeg=[None, 0, 50, 95] if not quick
                                        else [None, 50], rff=[None, False], compress=[0, 4], mix=[False]))
    # set render method (instance / class level) x per-call override, incl. mismatching pairs, on sources smaller
    # than the render whose height is not a multiple of the line count (and a larger one)
    setm = [None, ["instance", "lines"], ["instance", "whole"], ["class", "lines"], ["class", "whole"]]
    msrc = [["pat", 10, 7, "RGB"], ["pat", 5, 4, "RGBA"], ["pat", 7, 2, "RGB"], ["pat", 64, 32, "RGB"]]
    for via in ("renderer", "format"):
        add(_prod(style=["kitty"], identity=["kitty"], set_method=setm, method=[None, "lines", "whole"], src=msrc,
                  cell=[[9, 18], [2, 3]], size=[[4, 3], [2, 3], [3, 2]], compress=[0, 4], alpha=["default", None],
                  via=[via]))
        add(_prod(style=["iterm2"], identity=["wezterm"], set_method=setm + [["instance", "anim"], ["class", "anim"]],
                  method=[None, "lines", "whole", "anim"], src=msrc, cell=[[9, 18], [2, 3]],
                  size=[[4, 3], [2, 3], [3, 2]], compress=[4], alpha=["default", None], via=[via]))
    # per-call method override spelled in upper / mixed case (the parameter is documented case-insensitive)
    add(_prod(style=["kitty"], identity=["kitty"], set_method=[None, ["instance", "whole"], ["instance", "lines"]],
              method=["LINES", "Lines", "WHOLE", "Whole"], src=msrc[:2], cell=[[9, 18]], size=[[4, 3], [2, 3]],
              compress=[0, 4], alpha=["default", None]))
    add(_prod(style=["iterm2"], identity=["wezterm"], set_method=[None, ["instance", "whole"], ["instance", "lines"]],
              method=["LINES", "Lines", "WHOLE", "Whole", "ANIM", "Anim"], src=msrc[:2] + [GIFS[1]], cell=[[9, 18]],
              size=[[4, 3], [2, 3]], compress=[4], alpha=["default", None]))
    # ANIM as the effective method on STILL file sources (override, format "+A", set on instance / class):
    # rendered as WHOLE, so an eligible file is transmitted untouched
    still_files = [dict(src=["pat", 2, 3, "RGB"], kind="file", fmt="png"), dict(src=["pat", 5, 4, "RGBA"], kind="file", fmt="png"),
                   dict(src=["pat", 2, 3, "RGB"], kind="pilfile", fmt="png"), dict(src=["pat", 5, 4, "RGB"], kind="file", fmt="jpeg")]
    for g in still_files:
        for sm, m, via in ((None, "anim", "renderer"), (None, "anim", "format"), (["instance", "anim"], None, "renderer"),
                           (["class", "anim"], None, "renderer"), (["instance", "anim"], None, "format"),
                           (["class", "anim"], "whole", "renderer"), (["instance", "lines"], "anim", "format")):
            add(dict(c, **g) for c in _prod(style=["iterm2"], identity=iid, set_method=[sm], method=[m], via=[via],
                                            cell=[[2, 3], [8, 16]], size=few[:3], rff=[None, False], compress=[4],
                                            alpha=[a for a in ALPHAS if not (via == "format" and a == "#")]))
    # jpeg_quality configured on ITerm2Image / a subclass / the instance, every combination incl. "disabled under
    # an enabled parent": the payload format must follow instance -> nearest class -> default (disabled)
    for jc in (None, 50, -1):
        for sub, js in ((False, None), (True, None), (True, -1), (True, 75)):
            for ji in (None, -1, 50):
                for c in _prod(style=["iterm2"], identity=["wezterm"], method=["lines", "whole"],
                               src=[SMALL[2], SMALL[1]], cell=[[2, 3]], size=[[2, 3]], alpha=[None, "default"],
                               compress=[4], rff=[False]):
                    c.update(jpeg_cls=jc, jpeg_sub=js, jpeg=ji, sub=sub or None)
                    cases.append(c)
    # format() entry point
    add(_prod(style=["kitty"], identity=["kitty"], method=["lines", "whole"], src=[SMALL[2], BOUNDARY[1]],
              cell=[[8, 16]], size=few, compress=[0, 4], alpha=[None, "default", "#ff00aa"], z=[0, -5], via=["format"]))
    add(_prod(style=["iterm2"], identity=["wezterm"], method=["lines", "whole", "anim"], src=[SMALL[2], BOUNDARY[1]],
              cell=[[8, 16]], size=few, compress=[0, 4], alpha=[None, "default", "#ff00aa"], via=["format"]))
    seen, out = set(), []
    for c in cases:
        c = {k: v for k, v in c.items() if v is not None or k == "alpha"}
        if c.setdefault("part", "e2e") == "e2e":
            c["termbg"] = "rgb:1010/2020/3030"
        k = repr(sorted(c.items()))
        if k not in seen:
            seen.add(k)
            out.append(c)
    return out


def run_case(col, case):
    try:
        if case["part"] == "chunks":
            chunk_case(col, case)
        else:
            e2e_case(col, case)
    except world.HarnessError:
        raise
    except Exception as e:
        sig = (dict(part="chunks", clause="exception", exc=type(e).__name__) if case["part"] == "chunks" else
               e2e_sig(case, "exception", exc=type(e).__name__))
        col.violation(sig, f"{type(e).__name__}: {e}", case)


def _shard(cases):
    col = _CTX.new_collector()
    for case in cases:
        run_case(col, case)
        if col.evaluations % 997 == 0:
            col.sample(case)
    return col


_CTX = None


def run(ctx):
    global _CTX
    _CTX = ctx
    cc.prepare()
    cases = explore.rotate(cc.spread(build_cases(ctx.tier)))
    for col in explore.pmap(_shard, cases, chunks_per_proc=8):
        ctx.merge(col)
    nchunks = sum(1 for c in cases if c["part"] == "chunks")
    ctx.sample(next(c for c in cases if c["part"] == "e2e"))
    ctx.rule = ("(a) every payload length 0..N x compression level {0,4} x payload kind through Transmission."
                "get_chunks(); (b) unions of full products of source x cell size x size in cells x method x compress x "
                "alpha x z/mix/blend x jpeg x read_from_file x source kind rendered end to end and decoded by the "
                "terminal model; distinct = multi-chunk transmissions (a) + distinct render strings (b)")
    ctx.coverage.update(chunk_cases=nchunks, e2e_cases=len(cases) - nchunks,
                        payload_lengths=f"0..{9300 if ctx.tier == 'quick' else 13000} (every length)",
                        boundary_sources=[repr(s) for s in BOUNDARY])
    ctx.assumptions += ["vlib/vterm.py decodes the kitty APC / iTerm2 OSC 1337 framing (base64, zlib, PIL decode)",
                        "PIL convert / resize(BOX) / alpha_composite / PNG codec are the trusted base for expected "
                        "pixels; JPEG payloads are judged on format, mode and dimensions only",
                        "read-from-file reference gate: policy on, WHOLE, not animated, readable file, no alpha "
                        "manipulation needed (opaque mode or threshold alpha); mandatory only when the source has "
                        "no more pixels than the render and is not palette based"]


def replay(ctx, case):
    run_case(ctx, case)
