"""C04 Automatic sizing always fits the frame, fills it, and preserves aspect ratio.

Engines
  grid     product enumeration: (family x terminal x cell size | cell ratio x source size x frame size x
           sizing mode x API) - every tuple executed on the real BaseImage.set_size / size / width / height /
           constructor / rendered_size code of BlockImage (text family) and KittyImage (graphics family),
           with get_terminal_size() / get_cell_size() answered by the virtual tty.
  history  explicit-state BFS (a state is the history reaching it, replayed on fresh objects) over
           {set_size(mode[, frame]), size = enum | tuple, width = / height =, terminal resize, cell-size change,
           set_cell_ratio(float | FIXED | DYNAMIC), render, render that fails because the source
           file is missing, a cached ImageIterator running across a resize / ratio change} to the fixpoint, plus an unmerged enumeration of all
           histories up to a small depth (guards the state merging).
  urwid    UrwidImage.rows((maxcol,)) against the canvas actually rendered for the same size.

Oracle = the *statement* in exact rational arithmetic (fractions.Fraction), not the code:
  one rendered pixel is displayed with aspect `pr` (text: 2 x cell ratio; graphics: 1), a cell holds
  pw x ph rendered pixels (text 1x2; graphics: the cell size, 1x2 if undetermined), so for a source ow x oh
     exact height (cells) for a width  w :  w*pw*pr*oh / (ow*ph)
     exact width  (cells) for a height h :  h*ph*ow / (oh*pr*pw)
     exact ORIGINAL size (cells)         :  ow/pw , oh*pr/ph
  a computed dimension d is "within one cell" of an exact value e iff |d - max(e, 1)| < 1.
  FIT: <= frame on both axes, touches the frame on some axis whose free dimension is within one cell of the exact
  value for that frame dimension.  AUTO == (what ORIGINAL gives) if ow <= frame px width and oh*pr <= frame px
  height, == (what FIT gives) otherwise; when the scaled height exceeds the frame by no more than half a pixel (+1e-9)
  (it rounds to the frame height in whole pixels) either answer is accepted (counted as auto_rounding_zone).
"""
from __future__ import annotations

import itertools
import os
import sys
from fractions import Fraction as F

from .. import explore, imgkit, world

ID = "C04"
LEVEL = "exploration"

DEFAULT_FRAME = (0, -2)
ENUMS = ("ORIGINAL", "FIT", "FIT_TO_WIDTH", "AUTO")
_MASK = (1 << 63) - 1


# ------------------------------------------------------------------------------------------ oracle
# A cell ratio such as 0.45 is a binary float a hair above the decimal the user wrote; exactly AT the half-pixel
# boundary of the AUTO rounding zone that hair decides between "zone" and "FIT only" in exact arithmetic while the
# library's float product is exactly x.5.  The zone therefore extends by this much (in pixels).
_FLOAT_NOISE = F(1, 10**9)


class Geo:
    """Exact geometry of one (family, terminal, cell, effective cell ratio, source)."""

    __slots__ = ("fam", "cols", "rows", "pw", "ph", "pr", "ow", "oh", "key")

    def __init__(self, fam, term, cell, ratio, src):
        self.fam = fam
        self.cols, self.rows = term
        if fam == "text":
            self.pw, self.ph = 1, 2
            self.pr = F(ratio) * 2          # Fraction(float) is exact
        else:
            self.pw, self.ph = cell or (1, 2)
            self.pr = F(1)
        self.ow, self.oh = src
        self.key = (fam, self.pw, self.ph, self.pr, self.ow, self.oh)

    def frame(self, fs):
        return tuple(f if f > 0 else max(t + f, 1) for f, t in zip(fs, (self.cols, self.rows)))

    def h_for_w(self, w):
        return F(w * self.pw) * self.pr * self.oh / (self.ow * self.ph)

    def w_for_h(self, h):
        return F(h * self.ph) * self.ow / (self.oh * self.pr * self.pw)

    def orig(self):
        return F(self.ow, self.pw), self.oh * self.pr / self.ph


def near(d, exact):
    return abs(d - (exact if exact > 1 else 1)) < 1


def is_size(x):
    return (isinstance(x, tuple) and len(x) == 2
            and all(type(v) is int and v >= 1 for v in x))


def judge(geo, mode, frame, got, ref_original=None, ref_fit=None, counters=None):
    """Judge the size *got* for *mode* (a Size name, ("width", k), ("height", k), ("manual", w, h)).
    Returns a list of (clause, text)."""
    bad = []
    if not is_size(got):
        return [("positive-int", f"size {got!r} is not a pair of positive integers")]
    w, h = got
    C, R = geo.frame(frame)
    if isinstance(mode, tuple):
        kind = mode[0]
        if kind == "manual":
            if got != (mode[1], mode[2]):
                bad.append(("manual-kept", f"manual size {mode[1:]} stored as {got}"))
        elif kind == "width":
            k = mode[1]
            if w != k:
                bad.append(("given-kept", f"given width {k} became {w}"))
            e = geo.h_for_w(k)
            if not near(h, e):
                bad.append(("free-within-one-cell", f"height {h} for width {k}: exact {float(e):.4f}"))
        else:
            k = mode[1]
            if h != k:
                bad.append(("given-kept", f"given height {k} became {h}"))
            e = geo.w_for_h(k)
            if not near(w, e):
                bad.append(("free-within-one-cell", f"width {w} for height {k}: exact {float(e):.4f}"))
        return bad
    if mode == "ORIGINAL":
        ew, eh = geo.orig()
        if not near(w, ew) or not near(h, eh):
            bad.append(("original-within-one-cell",
                        f"ORIGINAL {got}: exact ({float(ew):.4f}, {float(eh):.4f}) cells"))
    elif mode == "FIT_TO_WIDTH":
        if w != C:
            bad.append(("fit-to-width-width", f"FIT_TO_WIDTH width {w} != frame width {C}"))
        e = geo.h_for_w(C)
        if not near(h, e):
            bad.append(("free-within-one-cell", f"FIT_TO_WIDTH height {h}: exact {float(e):.4f}"))
    elif mode == "FIT":
        if w > C or h > R:
            bad.append(("exceeds-frame", f"FIT {got} exceeds the frame {(C, R)}"))
        elif w != C and h != R:
            bad.append(("fit-touches", f"FIT {got} touches the frame {(C, R)} on no axis"))
        else:
            ok = (w == C and near(h, geo.h_for_w(C))) or (h == R and near(w, geo.w_for_h(R)))
            if not ok:
                bad.append(("free-within-one-cell",
                            f"FIT {got} in frame {(C, R)}: exact height for the frame width "
                            f"{float(geo.h_for_w(C)):.4f}, exact width for the frame height "
                            f"{float(geo.w_for_h(R)):.4f}"))
    elif mode == "AUTO":
        if w > C or h > R:
            bad.append(("exceeds-frame", f"AUTO {got} exceeds the frame {(C, R)}"))
        fw, fh = C * geo.pw, R * geo.ph
        sh = geo.oh * geo.pr
        if geo.ow <= fw and sh <= fh:
            want = ("ORIGINAL",)
        elif geo.ow <= fw and sh - fh <= F(1, 2) + _FLOAT_NOISE:
            want = ("ORIGINAL", "FIT")
            if counters is not None:
                counters.inc("auto_rounding_zone")
        else:
            want = ("FIT",)
        refs = dict(ORIGINAL=ref_original, FIT=ref_fit)
        if not any(got == refs[m] for m in want):
            bad.append(("auto-choice",
                        f"AUTO {got}; source {geo.ow}x{float(sh):.4f} px (scaled) vs frame {fw}x{fh} px: expected "
                        f"{' or '.join(f'{m}={refs[m]}' for m in want)}"))
    else:
        raise world.HarnessError(f"mode {mode!r}")
    return bad


# ------------------------------------------------------------------------------------------ driving the real code
_PIL = {}


def pil(src):
    im = _PIL.get(src)
    if im is None:
        from PIL import Image

        im = _PIL[src] = Image.new("RGB", src)
    return im


def family_class(L, fam):
    return L.image.BlockImage if fam == "text" else L.image.KittyImage


def apply_quirks(L, quirks):
    """Unusual but legitimate environments, applied right after world.setup():
      swap    the terminal reports its pixel dimensions swapped and the application has enabled the library's
              workaround (enable_win_size_swap()) - cell size and everything derived from it are what they are
              on a well-behaved terminal;
      xt14    the pixel size is only available through the XTWINOPS text-area query (no ioctl pixels, no cell-size reply);
      stdout  standard output is not the terminal (a pipe / file): only the tty's own descriptor knows the terminal
              size, the shutil fallback would report *stdout* = (cols, rows) - the active terminal's size counts."""
    if not quirks:
        return
    tty = world.W.tty
    if quirks.get("swap"):
        tty.swapped_px = True
        tty.xpx, tty.ypx = tty.ypx, tty.xpx
        L.ti.enable_win_size_swap()
    if quirks.get("stdout"):
        tty.stdout_size = tuple(quirks["stdout"])
    if quirks.get("xt14"):
        # no pixel size from the TIOCGWINSZ ioctl; the terminal answers XTWINOPS `CSI 14 t` (text area in pixels,
        # reported as height;width) but not `CSI 16 t` (cell size)
        cw, ch = tty.xpx // tty.cols, tty.ypx // tty.rows
        tty.xpx = tty.ypx = 0
        tty.responder.text_area_px = (tty.rows * ch, tty.cols * cw)
        tty.responder.cell_px = None
        tty.xt14 = True
        L.utils._cell_size_cache[:] = [0] * 4


def set_env(L, term, cell, clear_cell_memo=False):
    """Resize / re-cell the virtual terminal in place (the tty object stays installed)."""
    tty = world.W.tty
    tty.cols, tty.rows = term
    tty.xpx, tty.ypx = (term[0] * cell[0], term[1] * cell[1]) if cell else (0, 0)
    if getattr(tty, "swapped_px", False):
        tty.xpx, tty.ypx = tty.ypx, tty.xpx
    if getattr(tty, "xt14", False):
        tty.xpx = tty.ypx = 0
        tty.responder.text_area_px = (term[1] * cell[1], term[0] * cell[0])
    if clear_cell_memo:
        # the cell-size memo is keyed by the terminal size only; its staleness is C15's subject
        L.utils._cell_size_cache[:] = [0] * 4


def apply_ratio(L, ratio, cell):
    """Returns the effective float cell ratio."""
    ti = L.ti
    if ratio in ("DYNAMIC", "FIXED"):
        ti.set_cell_ratio(ti.AutoCellRatio[ratio])
        return cell[0] / cell[1]
    ti.set_cell_ratio(ratio)
    return ratio


def mode_args(L, mode):
    Size = L.image.Size
    if isinstance(mode, (tuple, list)):
        mode = tuple(mode)
        if mode[0] == "manual":
            return dict(width=mode[1], height=mode[2]), mode
        return {mode[0]: mode[1]}, mode
    return dict(width=Size[mode]), mode


def execute(L, img, mode, frame, api, fam):
    """One execution of the real sizing code.  Returns (size, extra violations)."""
    Size = L.image.Size
    kw, mode = mode_args(L, mode)
    extra = []
    if api == "set_size":
        img.set_size(frame_size=tuple(frame), **kw)
        got = img.size
    elif api == "set_size_h":            # enum given through *height*
        img.set_size(height=Size[mode], frame_size=tuple(frame))
        got = img.size
    elif api == "prop":
        if isinstance(mode, tuple):
            if mode[0] == "manual":
                img.size = (mode[1], mode[2])
            else:
                setattr(img, mode[0], mode[1])
        else:
            img.width = Size[mode]
        got = img.size
    elif api == "prop_h":
        img.height = Size[mode]
        got = img.size
    elif api == "ctor":
        img = family_class(L, fam)(img.source, **kw)
        got = img.size
    elif api == "dynamic":
        img.size = Size[mode]
        if img.size is not Size[mode]:
            extra.append(("dynamic-stays-enum", f"size = Size.{mode} reads back {img.size!r}"))
        got = img.rendered_size
        if (img.rendered_width, img.rendered_height) != got:
            extra.append(("rendered-consistent", f"rendered_size {got} != (rendered_width, rendered_height) "
                          f"{(img.rendered_width, img.rendered_height)}"))
        if img.size is not Size[mode]:
            extra.append(("dynamic-stays-enum", f"reading rendered_size turned size into {img.size!r}"))
        return got, extra
    else:
        raise world.HarnessError(f"api {api!r}")
    if is_size(got):
        rs = img.rendered_size
        if rs != got or (img.width, img.height) != got:
            extra.append(("rendered-consistent", f"fixed size {got}: rendered_size {rs}, width/height "
                          f"{(img.width, img.height)}"))
    return got, extra


def mode_name(mode):
    return mode if isinstance(mode, str) else mode[0]


def report(col, case, fam, mode, api, problems):
    for clause, text in problems:
        col.violation(dict(clause=clause, family=fam, mode=mode_name(mode), api=api), text, case)


def grid_case(fam, term, cell, ratio, src, mode, frame, api, quirks=None):
    d = dict(kind="grid", family=fam, term=list(term), cell=list(cell) if cell else None, ratio=ratio,
             src=list(src), mode=list(mode) if isinstance(mode, tuple) else mode, frame=list(frame), api=api)
    if quirks:
        d["quirks"] = quirks
    return d


def run_grid_case(col, case):
    """Replay of exactly one grid tuple."""
    L = world.load()
    fam, term, cell, ratio, src = case["family"], tuple(case["term"]), case["cell"], case["ratio"], tuple(case["src"])
    cell = tuple(cell) if cell else None
    mode = tuple(case["mode"]) if isinstance(case["mode"], list) else case["mode"]
    frame = tuple(case["frame"])
    world.setup("kitty", term[0], term[1], cell=cell)
    apply_quirks(L, case.get("quirks"))
    try:
        eff = apply_ratio(L, ratio, cell) if fam == "text" else 0.5
    except world.HarnessError:
        raise
    except Exception as e:
        col.count()
        col.violation(dict(clause="exception", family=fam, mode="set_cell_ratio", api=str(ratio),
                           exc=type(e).__name__), f"set_cell_ratio({ratio}): {type(e).__name__}: {e}", case)
        return
    geo = Geo(fam, term, cell, eff, src)
    img = family_class(L, fam)(pil(src))
    col.count()
    try:
        refs = {}
        if mode == "AUTO":
            ref_api = case["api"] if case["api"] in ("dynamic",) else "set_size"
            for m in ("ORIGINAL", "FIT"):
                refs[m], _ = execute(L, img, m, frame, ref_api, fam)
        got, extra = execute(L, img, mode, frame, case["api"], fam)
    except world.HarnessError:
        raise
    except Exception as e:
        col.violation(dict(clause="exception", family=fam, mode=mode_name(mode), api=case["api"],
                           exc=type(e).__name__), f"{type(e).__name__}: {e}", case)
        return
    problems = judge(geo, mode, frame, got, refs.get("ORIGINAL"), refs.get("FIT"), col) + extra
    report(col, case, fam, mode, case["api"], problems)


def run_grid_item(col, item, P):
    """One (family, terminal, cell | ratio) environment x a chunk of sources: every frame x mode x API."""
    fam, term, cell, ratio, srcs = item[:5]
    quirks = item[5] if len(item) > 5 else None
    L = world.load()
    world.setup("kitty", term[0], term[1], cell=cell)
    apply_quirks(L, quirks)
    try:
        eff = apply_ratio(L, ratio, cell) if fam == "text" else 0.5
    except world.HarnessError:
        raise
    except Exception as e:      # e.g. auto cell ratio "unsupported" on a terminal that does report its cell size
        col.count()
        col.violation(dict(clause="exception", family=fam, mode="set_cell_ratio", api=str(ratio),
                           exc=type(e).__name__), f"set_cell_ratio({ratio}) on a {term} terminal with {cell} px cells"
                      f"{' ' + str(quirks) if quirks else ''}: {type(e).__name__}: {e}",
                      grid_case(fam, term, cell, ratio, srcs[0], "FIT", DEFAULT_FRAME, "set_size", quirks))
        return
    cls = family_class(L, fam)
    frames, ks, manuals = P["frames"], P["ks"], P["manuals"]
    n0 = col.evaluations
    nsample = 0
    for src in srcs:
        geo = Geo(fam, term, cell, eff, src)
        img = cls(pil(src))

        def one(mode, frame, api, ro=None, rf=None):
            col.count()
            try:
                got, extra = execute(L, img, mode, frame, api, fam)
            except world.HarnessError:
                raise
            except Exception as e:
                col.violation(dict(clause="exception", family=fam, mode=mode_name(mode), api=api,
                                   exc=type(e).__name__), f"{type(e).__name__}: {e}",
                              grid_case(fam, term, cell, ratio, src, mode, frame, api, quirks))
                return None
            problems = judge(geo, mode, frame, got, ro, rf, col)
            if problems or extra:
                report(col, grid_case(fam, term, cell, ratio, src, mode, frame, api, quirks), fam, mode, api,
                       problems + extra)
            if mode_name(mode) != "manual":
                col.add_distinct(hash((geo.key, geo.frame(frame) if isinstance(mode, str) else None, mode, got))
                                 & _MASK)
            return got

        for frame in frames:
            ro = one("ORIGINAL", frame, "set_size")
            rf = one("FIT", frame, "set_size")
            one("FIT_TO_WIDTH", frame, "set_size")
            one("AUTO", frame, "set_size", ro, rf)
            if frame == DEFAULT_FRAME:
                # the same modes through every other public entry point (they all use the default frame)
                for api in ("dynamic", "prop", "ctor", "set_size_h", "prop_h"):
                    r = {}
                    for m in ENUMS:
                        r[m] = one(m, frame, api, r.get("ORIGINAL"), r.get("FIT"))
        for k in ks:
            for api in ("set_size", "prop") + (("ctor",) if k <= 2 else ()):
                one(("width", k), DEFAULT_FRAME, api)
                one(("height", k), DEFAULT_FRAME, api)
        one(("width", ks[0]), (1, 1), "set_size")      # frame is irrelevant for a given dimension
        for (w, h) in manuals:
            for api in ("set_size", "prop", "ctor"):
                one(("manual", w, h), DEFAULT_FRAME, api)
        nsample += 1
        if nsample == 1:
            col.sample(grid_case(fam, term, cell, ratio, src, "FIT", frames[0], "set_size", quirks))
    if quirks:
        col.inc("grid_evaluations_in_unusual_environments", col.evaluations - n0)


# ------------------------------------------------------------------------------------------ history clause
class HistProgram:
    """Alphabet of one explicit-state search: a family, a source, a list of environments."""

    def __init__(self, fam, src, envs, ratios, set_frames, ks, manuals, render, quirks=None):
        self.fam, self.src, self.envs, self.ratios = fam, tuple(src), [(tuple(t), tuple(c)) for t, c in envs], ratios
        self.quirks = quirks
        ops = []
        for m in ("FIT", "AUTO", "ORIGINAL", "FIT_TO_WIDTH"):
            for fi in range(len(set_frames)):
                ops.append(("set", m, fi))
            ops.append(("size=", m))
        ops.append(("width=", "FIT"))
        for k in ks:
            ops += [("setw", k), ("seth", k)]
        ops += [("width=", ks[0]), ("height=", ks[-1])]
        for (w, h) in manuals:
            ops.append(("manual", w, h))
        ops.append(("size=", tuple(manuals[0][::-1])))
        for j in range(len(self.envs)):
            ops.append(("env", j))
        for r in ratios:
            ops.append(("ratio", r))
        if render:
            ops.append(("render",))
            ops.append(("render_fail",))
            # a cached ImageIterator running across a terminal / cell-ratio change
            for j in range(len(self.envs)):
                ops.append(("iter_env", j))
            for r in ratios:
                ops.append(("iter_ratio", r))
        if quirks and quirks.get("xt14"):
            for j in range(len(self.envs)):
                ops.append(("env_queries_off", j))
        self.ops = ops
        self.set_frames = [tuple(f) for f in set_frames]

    def describe(self):
        return dict(family=self.fam, src=list(self.src), envs=[[list(t), list(c)] for t, c in self.envs],
                    ratios=self.ratios, set_frames=[list(f) for f in self.set_frames], n_ops=len(self.ops),
                    **({"quirks": self.quirks} if self.quirks else {}))


class HistState:
    pass


_SRC_FILES = {}


def src_file(src):
    """A PNG of the source size private to this process (the failing-render operation renames it away and back).
    The directory is created by the parent before forking and removed by it at exit."""
    key = (os.getpid(), tuple(src))
    path = _SRC_FILES.get(key)
    if path is None:
        path = os.path.join(imgkit.tmpdir(), f"c04-{key[0]}-{src[0]}x{src[1]}.gif")
        imgkit.gif(src[0], src[1], 2, path=path)       # two frames: the history image can be iterated
        _SRC_FILES[key] = path
    return path


def frame_size(frame, fam):
    """(columns, lines) a rendered frame occupies, read off the frame text: lines = line count; columns = glyphs
    of the first line outside control sequences (text family) / the `c=` key of the first kitty transmission."""
    first = frame.split("\n", 1)[0]
    lines = frame.count("\n") + 1
    if fam == "text":
        cols = 0
        i, n = 0, len(first)
        while i < n:
            if first[i] == "\x1b" and i + 1 < n and first[i + 1] == "[":
                i += 2
                while i < n and not ("@" <= first[i] <= "~"):
                    i += 1
                i += 1
            else:
                cols += 1
                i += 1
        return cols, lines
    a = first.find("\x1b_G")
    keys = first[a + 3:first.find(";", a)].split(",") if a >= 0 else []
    cols = next((int(k[2:]) for k in keys if k.startswith("c=")), None)
    return cols, lines


def hist_iterator(L, prog, st, op, check):
    """A cached ImageIterator over the history image: first loop, then a terminal / cell-ratio change (judged as
    usual), then the next loop - every frame occupies the size the image has NOW (a dynamic size follows the
    change also in what a running cached iterator delivers)."""
    img = st.img
    inner = ("env" if op[0] == "iter_env" else "ratio", op[1])
    bad = []
    it = L.common.ImageIterator(img, -1, "1.1", True)
    try:
        for phase in ("first loop", "next loop after the change"):
            if phase != "first loop":
                bad += _hist_apply(L, prog, st, inner, check)
                if bad:
                    return bad
            for k in range(2):
                frame = next(it)
                if check:
                    want = tuple(img.rendered_size)
                    got = frame_size(frame, prog.fam)
                    if got != want:
                        bad.append(("iterator-frame-size", f"frame {k} of the {phase} of a cached ImageIterator "
                                    f"occupies {got}, the image's size is {want} now"))
                        return bad
    finally:
        it.close()
    return bad


def hist_start(L, prog):
    st = HistState()
    st.env = 0
    term, cell = prog.envs[0]
    world.setup("kitty", term[0], term[1], cell=cell)
    apply_quirks(L, prog.quirks)
    st.ratio = 0.5                 # model of the global cell-ratio setting: float | "DYNAMIC"
    # file-sourced, so that a render can be made to fail in the middle (see "render_fail")
    st.img = family_class(L, prog.fam).from_file(src_file(prog.src))
    st.setting = ("dyn", "FIT")    # model of the size setting: the constructor default is dynamic FIT
    st.img.rendered_size           # see hist_apply
    return st


def hist_geo(prog, st):
    term, cell = prog.envs[st.env]
    eff = st.ratio if st.ratio != "DYNAMIC" else cell[0] / cell[1]
    return Geo(prog.fam, term, cell, eff, prog.src)


def hist_apply(L, prog, st, op, check):
    """Apply *op* and judge it (see _hist_apply).  Every operation - judged or not - ends with one plain read of
    `rendered_size`, and the first thing judged after a terminal / cell / ratio change is again a read of
    `rendered_size` of the SAME instance: the same request back to back with only the environment change in
    between, so a size remembered from before the change (rather than computed for the current terminal and cell
    size) is seen."""
    bad = _hist_apply(L, prog, st, op, check)
    st.img.rendered_size
    return bad


def same_as_fresh(L, prog, got, **kw):
    """The size a request yields depends on the current environment only: a history-free image given the same
    request now gets the same size."""
    twin = family_class(L, prog.fam)(pil(prog.src))
    twin.set_size(**kw)
    if twin.size != got:
        return [("history-independent", f"set_size({kw}) gave {got}, a fresh image gets {twin.size} in the same "
                 f"terminal")]
    return []


def _hist_apply(L, prog, st, op, check):
    """Apply *op* to the real objects and to the model; when *check*, judge the transition.
    Returns the list of (clause, text)."""
    Size = L.image.Size
    img = st.img
    bad = []
    kind = op[0]
    before = img.size
    if kind in ("iter_env", "iter_ratio"):
        return hist_iterator(L, prog, st, op, check)
    if kind == "env_queries_off":
        # the resize happens, and a size is computed, while terminal queries are disabled (the cell size cannot be
        # determined then); queries are re-enabled afterwards: from then on sizes are those for the real cell size
        L.ti.disable_queries()
        try:
            bad0 = _hist_apply(L, prog, st, ("env", op[1]), False)
            img.rendered_size
        finally:
            L.ti.enable_queries()
        return bad0 + _hist_apply(L, prog, st, ("env", op[1]), check)
    if kind in ("env", "ratio", "render", "render_fail"):
        if kind == "env":
            j = op[1]
            term, cell = prog.envs[j]
            set_env(L, term, cell, clear_cell_memo=any(t == term and c != cell for t, c in prog.envs))
            st.env = j
        elif kind == "ratio":
            r = op[1]
            cell = prog.envs[st.env][1]
            if r == "DYNAMIC":
                L.ti.set_cell_ratio(L.ti.AutoCellRatio.DYNAMIC)
                st.ratio = "DYNAMIC"
            elif r == "FIXED":
                L.ti.set_cell_ratio(L.ti.AutoCellRatio.FIXED)
                st.ratio = cell[0] / cell[1]
            else:
                L.ti.set_cell_ratio(r)
                st.ratio = r
        elif kind == "render_fail":
            # the source file is missing for the duration of one render: the render raises in the middle of
            # BaseImage._renderer(); whatever it did to the size setting must have been undone
            path = src_file(prog.src)
            os.rename(path, path + ".away")
            try:
                try:
                    str(img)
                    st.failed_renders_that_passed = getattr(st, "failed_renders_that_passed", 0) + 1
                except OSError:
                    pass
            finally:
                os.rename(path + ".away", path)
        else:
            out = str(img)
            if check:
                lines = out.count("\n") + 1
                rs = img.rendered_size
                if lines != rs[1]:
                    bad.append(("render-lines", f"render has {lines} lines, rendered_size {rs}"))
        if not check:
            return bad
        after = img.size
        if st.setting[0] == "fixed":
            if after != before or after != st.setting[1] or type(after) is not tuple:
                bad.append(("fixed-unchanged", f"fixed size {st.setting[1]} became {after!r} after {op}"))
            elif img.rendered_size != after:
                bad.append(("fixed-unchanged", f"fixed size {after}: rendered_size {img.rendered_size} after {op}"))
        else:
            name = st.setting[1]
            if after is not Size[name]:
                bad.append(("dynamic-stays-enum", f"dynamic Size.{name} became {after!r} after {op}"))
            else:
                bad += hist_check_dynamic(L, prog, st)
        return bad
    # ---- size-setting operations
    geo = hist_geo(prog, st)
    frame = DEFAULT_FRAME
    mode = None
    if kind == "set":
        mode, frame = op[1], prog.set_frames[op[2]]
        refs = {}
        if check and mode == "AUTO":
            twin = family_class(L, prog.fam)(pil(prog.src))
            for m in ("ORIGINAL", "FIT"):
                twin.set_size(Size[m], frame_size=frame)
                refs[m] = twin.size
        img.set_size(Size[mode], frame_size=frame)
        got = img.size
        st.setting = ("fixed", got)
        if check:
            bad += judge(geo, mode, frame, got, refs.get("ORIGINAL"), refs.get("FIT"))
            bad += same_as_fresh(L, prog, got, width=Size[mode], frame_size=frame)
    elif kind == "size=" and isinstance(op[1], str):
        img.size = Size[op[1]]
        st.setting = ("dyn", op[1])
        if check:
            if img.size is not Size[op[1]]:
                bad.append(("dynamic-stays-enum", f"size = Size.{op[1]} reads back {img.size!r}"))
            else:
                bad += hist_check_dynamic(L, prog, st)
    else:
        if kind == "size=":
            mode = ("manual", op[1][0], op[1][1])
            img.size = tuple(op[1])
        elif kind == "manual":
            mode = ("manual", op[1], op[2])
            img.set_size(op[1], op[2])
        elif kind == "setw":
            mode = ("width", op[1])
            img.set_size(width=op[1])
        elif kind == "seth":
            mode = ("height", op[1])
            img.set_size(height=op[1])
        elif kind in ("width=", "height="):
            if isinstance(op[1], str):
                mode = op[1]
                setattr(img, kind[:-1], Size[op[1]])
            else:
                mode = (kind[:-1], op[1])
                setattr(img, kind[:-1], op[1])
        else:
            raise world.HarnessError(f"op {op!r}")
        got = img.size
        st.setting = ("fixed", got)
        if check:
            refs = {}
            if mode == "AUTO":
                twin = family_class(L, prog.fam)(pil(prog.src))
                for m in ("ORIGINAL", "FIT"):
                    twin.set_size(Size[m])
                    refs[m] = twin.size
            bad += judge(geo, mode, frame, got, refs.get("ORIGINAL"), refs.get("FIT"))
            if mode_name(mode) != "manual":
                bad += same_as_fresh(L, prog, got, **mode_args(L, mode)[0])
    if check and st.setting[0] == "fixed" and is_size(st.setting[1]) and img.rendered_size != st.setting[1]:
        bad.append(("rendered-consistent", f"fixed size {st.setting[1]}: rendered_size {img.rendered_size}"))
    return bad


def hist_check_dynamic(L, prog, st):
    """A dynamic size follows the current terminal / cell ratio: rendered_size obeys the statement for the
    *current* environment and equals what a history-free twin computes now."""
    Size = L.image.Size
    bad = []
    name = st.setting[1]
    img = st.img
    geo = hist_geo(prog, st)
    got = img.rendered_size
    twin = family_class(L, prog.fam)(pil(prog.src))
    refs = {}
    for m in ("ORIGINAL", "FIT", name):
        twin.set_size(Size[m])
        refs[m] = twin.size
    for clause, text in judge(geo, name, DEFAULT_FRAME, got, refs["ORIGINAL"], refs["FIT"]):
        bad.append(("dynamic-follows:" + clause, text))
    if got != refs[name]:
        bad.append(("dynamic-follows", f"dynamic Size.{name}: rendered_size {got} but a fresh image gets "
                    f"{refs[name]} in the same terminal"))
    if (img.rendered_width, img.rendered_height) != got:
        bad.append(("rendered-consistent", f"rendered_size {got} != (rendered_width, rendered_height)"))
    if img.size is not Size[name]:
        bad.append(("dynamic-stays-enum", f"reading rendered_size turned Size.{name} into {img.size!r}"))
    return bad


def hist_canon(L, st):
    s = st.img.size
    return (s if isinstance(s, tuple) else s.name, st.env, L.ti._cell_ratio)


def hist_replay(L, prog, history, check_all=False):
    """Fresh world, fresh image, replay *history*; only the last op is judged unless *check_all*."""
    st = hist_start(L, prog)
    bad = []
    n = len(history)
    for i, op in enumerate(history):
        op = tuple(op)
        b = hist_apply(L, prog, st, op, check_all or i == n - 1)
        if b:
            bad = [(i, op, b)]
            break
    return st, bad


def hist_report(col, prog, history, bad):
    for i, op, problems in bad:
        for clause, text in problems:
            col.violation(dict(clause=clause, family=prog.fam, op=op[0], part="history"),
                          f"after {list(history[:i + 1])}: {text}",
                          dict(kind="history", program=prog_spec(prog), history=[list(o) for o in history]))


def prog_spec(prog):
    return prog._spec


def make_prog(spec):
    p = HistProgram(spec["family"], spec["src"], spec["envs"], spec["ratios"], spec["set_frames"], spec["ks"],
                    spec["manuals"], spec["render"], spec.get("quirks"))
    p._spec = spec
    return p


def run_hist_bfs(col, spec):
    L = world.load()
    prog = make_prog(spec)

    def step(h):
        for op in prog.ops:
            nh = h + (op,)
            col.count()
            try:
                st, bad = hist_replay(L, prog, nh)
            except world.HarnessError:
                raise
            except Exception as e:
                col.violation(dict(clause="exception", family=prog.fam, op=op[0], part="history",
                                   exc=type(e).__name__), f"after {list(nh)}: {type(e).__name__}: {e}",
                              dict(kind="history", program=spec, history=[list(o) for o in nh]))
                yield op, nh, None, None
                continue
            if bad:
                hist_report(col, prog, nh, bad)
                yield op, nh, None, None      # a violating transition is reported, not expanded
                continue
            yield op, nh, hist_canon(L, st), None

    st0 = hist_start(L, prog)
    res = explore.bfs_histories([((), hist_canon(L, st0))], step, max_depth=spec.get("max_depth"))
    col.inc("history_states", res.states)
    col.inc("history_transitions", res.transitions)
    col.max("history_depth", res.max_depth)
    if not res.fixpoint:
        col.notes.add(f"history BFS for {spec['family']} {spec['src']} stopped at depth {spec.get('max_depth')}")
        col.inc("history_bfs_not_fixpoint")
    for h in res.sample_histories[:1]:
        col.sample(dict(kind="history", program=spec, history=[list(o) for o in h]))


def run_hist_unmerged(col, spec, first_op_index, depth):
    """All histories of length <= depth starting with one given op, no merging, every op judged."""
    L = world.load()
    prog = make_prog(spec)
    first = prog.ops[first_op_index]
    for d in range(0, depth):
        for rest in itertools.product(prog.ops, repeat=d):
            h = (first,) + rest
            col.count()
            col.inc("history_unmerged")
            try:
                st, bad = hist_replay(L, prog, h, check_all=True)
            except world.HarnessError:
                raise
            except Exception as e:
                col.violation(dict(clause="exception", family=prog.fam, op=h[-1][0], part="history",
                                   exc=type(e).__name__), f"in {list(h)}: {type(e).__name__}: {e}",
                              dict(kind="history", program=spec, history=[list(o) for o in h], check_all=True))
                continue
            if bad:
                hist_report(col, prog, h, bad)


# ------------------------------------------------------------------------------------------ urwid
def run_urwid_item(col, item):
    fam, term, cell, ratio, srcs, maxcols = item
    L = world.load_urwid()
    world.setup("kitty", term[0], term[1], cell=cell)
    eff = apply_ratio(L, ratio, cell) if fam == "text" else 0.5
    cls = family_class(L, fam)
    for src in srcs:
        geo = Geo(fam, term, cell, eff, src)
        for upscale in (False, True):
            for mc in maxcols:
                case = dict(kind="urwid", family=fam, term=list(term), cell=list(cell) if cell else None,
                            ratio=ratio, src=list(src), upscale=upscale, maxcol=mc)
                urwid_case(col, L, cls, geo, case)


def urwid_case(col, L, cls, geo, case):
    src, mc, upscale, fam = tuple(case["src"]), case["maxcol"], case["upscale"], case["family"]
    col.count()
    try:
        img = cls(pil(src))
        w = L.urwid_mod.UrwidImage(img, upscale=upscale)
        rows = w.rows((mc,))
        canv = w.render((mc,))
        content = list(canv.content())
    except world.HarnessError:
        raise
    except Exception as e:
        col.violation(dict(clause="exception", family=fam, part="urwid", exc=type(e).__name__),
                      f"{type(e).__name__}: {e}", case)
        return

    def bad(clause, text):
        col.violation(dict(clause=clause, family=fam, part="urwid", upscale=upscale), text, case)

    if type(rows) is not int or rows < 1:
        bad("urwid-rows-positive", f"rows(({mc},)) = {rows!r}")
        return
    if not (rows == canv.rows() == len(content)):
        bad("urwid-rows", f"rows(({mc},)) = {rows} but the canvas rendered for ({mc},) has {canv.rows()} rows / "
            f"{len(content)} content lines")
    size = img.size
    if not is_size(size) or size[1] != rows or size[0] > mc:
        bad("urwid-rows", f"image rendered with size {size!r} for maxcol {mc}, rows() = {rows}")
        return
    # the image keeps its aspect: height within one cell of the exact value for the width it got
    if not near(size[1], geo.h_for_w(size[0])) and not near(size[0], geo.w_for_h(size[1])):
        bad("urwid-aspect", f"flow render size {size} for maxcol {mc}: exact height for that width "
            f"{float(geo.h_for_w(size[0])):.4f}")
    if upscale and size[0] != mc:
        bad("urwid-upscale-width", f"upscale=True: width {size[0]} != maxcol {mc}")
    col.add_distinct(hash(("urwid", geo.key, mc, upscale, size)) & _MASK)


# ------------------------------------------------------------------------------------------ spaces
def params(tier):
    quick = tier == "quick"
    extra_src = [(1, 50), (50, 1), (100, 37), (640, 480)]
    if quick:
        n = 12
        terms = [(1, 1), (2, 3), (7, 5), (20, 10), (80, 24)]
        cells = [None, (1, 1), (2, 3), (8, 16), (9, 18)]
        ratios = [0.25, 0.4, 0.5, 1.0, 2.0]
        # fully relative, fully absolute and MIXED frames (each dimension is resolved on its own)
        frames = [(0, -2), (0, 0), (-3, -1), (5, 4), (1, 1), (200, 100), (5, 0), (0, 4), (40, -2), (-3, 6)]
        ks = [1, 2, 3, 4, 5, 6]
        manuals = [(1, 1), (3, 7)]
        dyn_cells = [(8, 16), (2, 3)]
    else:
        n = 32
        extra_src += [(1, 1000), (1000, 1), (37, 100), (480, 640), (1920, 1080), (333, 77), (64, 64), (97, 101)]
        terms = [(1, 1), (2, 3), (3, 2), (7, 5), (20, 10), (80, 24), (120, 40), (237, 65)]
        cells = [None, (1, 1), (2, 3), (8, 16), (9, 18), (10, 20), (7, 15), (5, 3), (16, 8), (1, 3)]
        ratios = [0.1, 0.25, 1 / 3, 0.4, 0.45, 0.5, 0.6, 0.75, 1.0, 1.5, 2.0, 3.0]
        frames = [(0, -2), (0, 0), (-3, -1), (5, 4), (1, 1), (200, 100), (-500, -500), (3, 0), (0, 7), (12, 12),
                  (5, 0), (0, 4), (40, -2), (-3, 6), (-1, 1), (1, -1), (1, 30), (30, 1)]
        ks = [1, 2, 3, 4, 5, 6, 7, 8, 9, 20, 100]
        manuals = [(1, 1), (3, 7), (500, 2)]
        dyn_cells = [(8, 16), (2, 3), (9, 18), (5, 3)]
    srcs = [(w, h) for w in range(1, n + 1) for h in range(1, n + 1)] + extra_src
    P = dict(frames=frames, ks=ks, manuals=manuals)
    chunk = 37 if quick else 57
    chunks = [srcs[i:i + chunk] for i in range(0, len(srcs), chunk)]
    items = []
    for term in terms:
        for r in ratios:
            for c in chunks:
                items.append(("grid", ("text", term, (8, 16), r, c)))
        for cell in dyn_cells:
            for r in ("DYNAMIC", "FIXED")[: 1 if quick else 2]:
                for c in chunks:
                    items.append(("grid", ("text", term, cell, r, c)))
        for cell in cells:
            for c in chunks:
                items.append(("grid", ("graphics", term, cell, 0.5, c)))
    # ---- unusual environments (on terminals that are not square in cells, every other source chunk)
    q_terms = [t for t in terms if t in ((7, 5), (20, 10), (80, 24), (120, 40))]
    q_cells = [(2, 3), (8, 16)] if quick else [(2, 3), (8, 16), (9, 12), (5, 3)]
    q_stdout = [(80, 24), (5, 2)]          # what a redirected stdout / the shutil fallback would claim
    q_chunks = chunks[::2]
    swap = dict(swap=True)
    for term in q_terms:
        for cell in q_cells:
            for c in q_chunks:
                items.append(("grid", ("graphics", term, cell, 0.5, c, swap)))
                items.append(("grid", ("text", term, cell, "DYNAMIC", c, swap)))
    for term in q_terms[:2] if quick else q_terms:
        for cell in q_cells:
            for c in q_chunks[:1] if quick else q_chunks:
                items.append(("grid", ("graphics", term, cell, 0.5, c, dict(xt14=True))))
                items.append(("grid", ("text", term, cell, "DYNAMIC", c, dict(xt14=True))))
    for term in q_terms[:2] if quick else q_terms:
        for so in q_stdout:
            if tuple(so) == tuple(term):
                continue
            for c in q_chunks:
                items.append(("grid", ("graphics", term, (8, 16), 0.5, c, dict(stdout=list(so)))))
                items.append(("grid", ("text", term, (8, 16), 0.5, c, dict(stdout=list(so)))))
    bounds = dict(sources=f"1..{n} x 1..{n} + {extra_src}", terminals=terms, cell_sizes=cells, cell_ratios=ratios,
                  auto_cell_ratio_cells=dyn_cells, frames=frames, given_dimensions=ks, manual=manuals,
                  unusual_environments=dict(terminals=q_terms, cells=q_cells, stdout_sizes=q_stdout,
                                            kinds=["swapped pixel report + enable_win_size_swap()",
                                                   "stdout is not the terminal",
                                                   "pixel size only through XTWINOPS CSI 14 t"],
                                            sources="every other chunk"),
                  apis=["set_size", "set_size(height=enum)", "size=enum (dynamic) -> rendered_size", "width=/height=/size=",
                        "constructor"])
    # ---- history programs
    # env 2 has the columns / lines of env 0 but another cell pixel size AND another cell aspect
    envs = [[(20, 10), (8, 16)], [(7, 5), (2, 3)], [(20, 10), (9, 12)]]
    hist = []
    hsrcs = [(7, 5), (3, 8)] if quick else [(7, 5), (3, 8), (40, 9), (1, 1)]
    for fam in ("text", "graphics"):
        for src in hsrcs + ([(40, 9)] if quick and fam == "graphics" else []):
            hist.append(dict(family=fam, src=list(src), envs=[[list(t), list(c)] for t, c in envs] +
                             ([] if quick else [[[80, 24], [10, 20]], [[20, 10], [9, 18]]]),
                             ratios=([0.5, 1.0, "DYNAMIC", "FIXED"] if fam == "text" else [1.0]) +
                             ([] if quick or fam != "text" else [0.25]),
                             set_frames=[[0, -2], [5, 4]], ks=[1, 3], manuals=[[3, 2], [50, 40]],
                             render=True))
    unmerged_depth = 2 if quick else 3
    for spec in hist:
        items.append(("hist", spec))
        nops = len(make_prog(spec).ops)
        for i in range(nops):
            items.append(("unmerged", (spec, i, unmerged_depth)))
    # the same searches in an unusual environment: swapped pixel report (workaround enabled) AND stdout not the
    # terminal, both at once (merged search only)
    for fam, so in (("graphics", [5, 2]), ("text", [80, 24])):
        spec = dict(hist[0], family=fam, src=[7, 5], quirks=dict(swap=True, stdout=so),
                    ratios=([0.5, "DYNAMIC", "FIXED"] if fam == "text" else [1.0]))
        hist.append(spec)
        items.append(("hist", spec))
    # pixel size only through terminal queries (XTWINOPS 14t), with resizes that happen while queries are disabled
    spec = dict(hist[0], family="graphics", src=[7, 5], quirks=dict(xt14=True), ratios=[1.0])
    hist.append(spec)
    items.append(("hist", spec))
    bounds["history"] = dict(programs=[make_prog(s).describe() for s in hist], unmerged_depth=unmerged_depth,
                             ops=[list(o) for o in make_prog(hist[0]).ops])
    # ---- urwid
    usrcs = [(w, h) for w in (1, 2, 3, 7, 16) for h in (1, 2, 5, 9)] if quick else \
        [(w, h) for w in (1, 2, 3, 5, 7, 16, 40) for h in (1, 2, 3, 5, 9, 30)]
    maxcols = [1, 2, 3, 5, 8, 13] if quick else [1, 2, 3, 4, 5, 6, 8, 13, 21, 40]
    for fam, term, cell, ratio in (("text", (20, 10), (8, 16), 0.5), ("text", (20, 10), (8, 16), 1.0),
                                   ("graphics", (20, 10), (2, 3), 0.5), ("graphics", (30, 12), (4, 8), 0.5)):
        for i in range(0, len(usrcs), 5):
            items.append(("urwid", (fam, term, cell, ratio, usrcs[i:i + 5], maxcols)))
    bounds["urwid"] = dict(sources=usrcs, maxcols=maxcols, upscale=[False, True])
    return P, items, bounds


# ------------------------------------------------------------------------------------------ entry points
_CTX = None
_P = None


def _shard(items):
    col = _CTX.new_collector()
    for kind, item in items:
        if kind == "grid":
            run_grid_item(col, item, _P)
        elif kind == "hist":
            run_hist_bfs(col, item)
        elif kind == "unmerged":
            run_hist_unmerged(col, *item)
        elif kind == "urwid":
            run_urwid_item(col, item)
    return col


def run(ctx):
    global _CTX, _P
    _CTX = ctx
    world.load_urwid()
    imgkit.tmpdir()                # created (and removed at exit) by the parent; workers put private files in it
    _P, items, bounds = params(ctx.tier)
    # long-running items (history searches) first, then the seed-rotated rest
    slow = [it for it in items if it[0] == "hist"]
    rest = explore.rotate([it for it in items if it[0] != "hist"])
    for col in explore.pmap(_shard, slow + rest, chunks_per_proc=8):
        ctx.merge(col)
    ctx.coverage.update(bounds)
    ctx.coverage["states"] = ctx.extra.get("history_states", 0)
    ctx.coverage["transitions"] = ctx.extra.get("history_transitions", 0)
    if ctx.extra.get("history_bfs_not_fixpoint"):
        ctx.cap("history BFS did not reach its fixpoint")
    ctx.rule = ("grid: every tuple (family, terminal, cell size | cell ratio, source, frame, mode, API) is executed on "
                "the real sizing code and judged by the exact-rational statement; history: BFS to the fixpoint over "
                "set_size / size= / width= / height= / resize / cell change / set_cell_ratio / render, a state = "
                "(size setting, terminal, cell-ratio setting) of the implementation, plus every unmerged history up "
                "to the stated depth; distinct = distinct (geometry, resolved frame, mode, computed size) tuples "
                "with a computed (non-manual) dimension")
    ctx.assumptions += [
        "the virtual tty (vlib/world.py) answers get_terminal_size / TIOCGWINSZ like a terminal of that size",
        "an undetermined cell size means 1x2 pixels per cell for the graphics family (the library's documented fallback)",
        "when the cell size changes without a change of the terminal size the harness clears the library's "
        "cell-size memo (its staleness is C15's subject)",
        "AUTO: a scaled source height exceeding the frame by <= 1/2 pixel may be taken as fitting (whole pixels)",
    ]


def replay(ctx, case):
    L = world.load_urwid()
    kind = case.get("kind")
    if kind == "grid":
        run_grid_case(ctx, case)
    elif kind == "history":
        prog = make_prog(case["program"])
        h = tuple(tuple(o) for o in case["history"])
        ctx.count()
        try:
            st, bad = hist_replay(L, prog, h, check_all=bool(case.get("check_all")))
        except world.HarnessError:
            raise
        except Exception as e:
            ctx.violation(dict(clause="exception", family=prog.fam, op=h[-1][0], part="history",
                               exc=type(e).__name__), f"{type(e).__name__}: {e}", case)
            return
        hist_report(ctx, prog, h, bad)
    elif kind == "urwid":
        term, cell = tuple(case["term"]), tuple(case["cell"]) if case["cell"] else None
        world.setup("kitty", term[0], term[1], cell=cell)
        eff = apply_ratio(L, case["ratio"], cell) if case["family"] == "text" else 0.5
        geo = Geo(case["family"], term, cell, eff, tuple(case["src"]))
        urwid_case(ctx, L, family_class(L, case["family"]), geo, case)
    else:
        raise world.HarnessError(f"unknown replay case {case!r}")
    print("replayed", kind, file=sys.stderr)
