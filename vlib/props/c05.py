"""C05 Padding and alignment place the render exactly, inside exactly the padded size.

Engine: product grid, every tuple executed; oracle: differential on the terminal model - the
padded output must show the inner render, executed alone at the offset the documentation
dictates, and nothing but fill (or nothing at all for fill '') in the rest of the box.
"""
from __future__ import annotations

import itertools

from .. import explore, vterm, world
from ..harness import h64
from ..renderables import classes

ID = "C05"
LEVEL = "exploration"

R0, C0 = 1, 1   # anchor of the padded box on the model screen

H_RATIO = {0: (0, 1), 1: (1, 2), 2: (1, 1)}   # LEFT, CENTER, RIGHT -> share of the slack on the left/top


def ref_offsets(w, h, W, H, ha, va):
    """Reference (left, top, right, bottom) for a box W x H around a w x h render."""
    sl_w, sl_h = W - w, H - h
    n, d = H_RATIO[ha]
    left = sl_w * n // d
    n, d = H_RATIO[va]
    top = sl_h * n // d
    return left, top, sl_w - left, sl_h - top


# ---------------------------------------------------------------------------------- inner renders
_inner_cache = {}

INNER_IDENTITY = {
    "plain": "other", "sgr": "other", "block": "kitty", "kitty-lines": "kitty", "kitty-whole": "kitty",
    "iterm2-whole": "iterm2", "iterm2-lines": "wezterm", "iterm2-whole-konsole": "konsole",
}


def inner_render(kind, w, h):
    key = (kind, w, h)
    if key in _inner_cache:
        return _inner_cache[key]
    L = world.load()
    ident = INNER_IDENTITY[kind]
    if kind in ("plain", "sgr"):
        ns = classes()
        r = ns.make(1, (w, h), mode=kind)
        out = str(r)
    else:
        from ..imgkit import pattern

        world.setup(ident, 40, 20, cell=(2, 3))
        style = kind.split("-")[0]
        cls = {"block": L.image.BlockImage, "kitty": L.image.KittyImage, "iterm2": L.image.ITerm2Image}[style]
        img = cls(pattern(w * 2, h * 3 if style != "block" else h * 2), width=w, height=h)
        spec = {"block": "1.1", "kitty-lines": "1.1+L", "kitty-whole": "1.1+W", "iterm2-whole": "1.1+W",
                "iterm2-lines": "1.1+L", "iterm2-whole-konsole": "1.1+W"}[kind]
        out = format(img, spec)
        assert img.rendered_size == (w, h)
    _inner_cache[key] = (out, ident)
    return out, ident


# ---------------------------------------------------------------------------------- oracle
def judge(col, case, padded, inner, ident, w, h, W, H, left, top, fill, tight):
    """Execute *padded* and *inner* on the model and compare.  Returns True if ok."""
    cols = C0 + W + (0 if tight else 2)
    rows = R0 + H + 1
    t = vterm.run(padded, cols, rows, ident, at=(R0, C0), strict=True)
    ref = vterm.run(inner, cols, rows, ident, at=(R0 + top, C0 + left), strict=True)
    ok = True

    def bad(clause, what):
        nonlocal ok
        ok = False
        sig = dict(part=case["part"], clause=clause, pad=case.get("pad"), kind=case.get("kind"),
                   fill=repr(fill))
        col.violation(sig, what, case)

    if t.errors or ref.errors:
        bad("sequences", f"malformed sequences: {t.errors[:2]} (inner alone: {ref.errors[:2]})")
    if t.wraps or t.scrolls:
        bad("no-wrap-scroll", f"wraps={t.wraps} scrolls={t.scrolls}")
    if not t.in_ground() or not t.sgr_default():
        bad("final-state", f"parser={t.parser_state} sgr_default={t.sgr_default()}")
    box = {(r, c) for r in range(R0, R0 + H) for c in range(C0, C0 + W)}
    rect = {(r, c) for r in range(R0 + top, R0 + top + h) for c in range(C0 + left, C0 + left + w)}
    touched = t.touched()
    if touched - box:
        bad("outside-box", f"cells outside the {W}x{H} box touched: {sorted(touched - box)[:4]}")
    if fill:
        if box - touched:
            bad("box-covered", f"cells of the {W}x{H} box not covered: {sorted(box - touched)[:4]}")
    else:
        if touched != ref.touched():
            bad("fill-empty-untouched",
                f"fill='' must leave padding cells untouched: extra={sorted(touched - ref.touched())[:4]} "
                f"missing={sorted(ref.touched() - touched)[:4]}")
    for (r, c) in sorted(box):
        cell = t.grid[r][c]
        if (r, c) in rect:
            rc = ref.grid[r][c]
            if cell.key() != rc.key() or cell.tag != rc.tag:
                bad("inner-unchanged", f"cell {(r, c)} shows {cell} but the inner render alone at offset "
                    f"({left},{top}) shows {rc}")
                break
        elif fill:
            if (cell.glyph, cell.fg, cell.bg, cell.attrs) != (fill, None, None, ()):
                bad("fill-cells", f"padding cell {(r, c)} is {cell}, expected blank fill {fill!r}")
                break
    if t.snapshot_placements() != ref.snapshot_placements():
        bad("inner-placements", f"placements {t.snapshot_placements()} != inner alone {ref.snapshot_placements()}")
    want = (R0 + H - 1, min(C0 + W, cols - 1))
    if t.cursor() != want:
        bad("final-cursor", f"cursor {t.cursor()} expected {want} (last line, just past the last column)")
    return ok


# ---------------------------------------------------------------------------------- cases
def run_case(col, case):
    L = world.load()
    P = L.padding
    Size = L.geometry.Size
    part = case["part"]
    col.count()
    if part == "D":
        return run_case_d(col, case)
    if part == "E":
        return run_case_e(col, case)
    if part == "F":
        return run_case_f(col, case)
    if part == "A":          # Padding.pad / get_padded_size / to_exact / resolve directly
        w, h = case["size"]
        fill = case["fill"]
        term = case["term"]
        inner, ident = inner_render(case["kind"], w, h)
        world.setup(ident, *term)
        if case["pad"] == "aligned":
            pw, ph, ha, va = case["args"]
            pad = P.AlignedPadding(pw, ph, P.HAlign(ha), P.VAlign(va), fill)
            rel = pw <= 0 or ph <= 0
            if pad.relative != rel:
                col.violation(dict(part=part, clause="relative-flag"), f"relative={pad.relative} for {pw}x{ph}", case)
            if rel:
                for name, f in (("get_padded_size", lambda: pad.get_padded_size(Size(w, h))),
                                ("pad", lambda: pad.pad(inner, Size(w, h))),
                                ("to_exact", lambda: pad.to_exact(Size(w, h)))):
                    try:
                        f()
                    except P.RelativePaddingDimensionError:
                        pass
                    else:
                        col.violation(dict(part=part, clause="relative-unresolved-raises", api=name),
                                      f"{name} on relative padding did not raise", case)
                # other relative paddings resolved earlier in the same process must not influence this one
                for dw, dh in ((-1, 0), (0, -1), (1, 1), (0, 1)):
                    nw, nh = min(pw + dw, 0) if pw <= 0 else pw, min(ph + dh, 0) if ph <= 0 else ph
                    if (nw, nh) != (pw, ph):
                        P.AlignedPadding(nw, nh, P.HAlign(ha), P.VAlign(va), fill).resolve(
                            world.W.tty.get_terminal_size())
                res = pad.resolve(world.W.tty.get_terminal_size())
                ew = pw if pw > 0 else max(term[0] + pw, 1)
                eh = ph if ph > 0 else max(term[1] + ph, 1)
                if (res.width, res.height, res.h_align, res.v_align, res.fill, res.relative) != \
                        (ew, eh, pad.h_align, pad.v_align, fill, False):
                    col.violation(dict(part=part, clause="resolve"),
                                  f"resolve({term}) of {pad!r} gave {res!r}, expected {ew}x{eh}", case)
                    return
                pad = res
                pw, ph = ew, eh
            else:
                if pad.resolve(world.W.tty.get_terminal_size()) is not pad:
                    col.violation(dict(part=part, clause="resolve-absolute-identity"),
                                  "resolve() of an absolute padding returned another object", case)
            W, H = max(pw, w), max(ph, h)
            left, top, right, bottom = ref_offsets(w, h, W, H, ha, va)
        else:
            left, top, right, bottom = case["args"]
            pad = P.ExactPadding(left, top, right, bottom, fill)
            W, H = left + w + right, top + h + bottom
        got = pad.get_padded_size(Size(w, h))
        if tuple(got) != (W, H):
            col.violation(dict(part=part, clause="get_padded_size", pad=case["pad"]),
                          f"get_padded_size={tuple(got)} expected {(W, H)}", case)
        ex = pad.to_exact(Size(w, h))
        if ex.dimensions != (left, top, right, bottom) or ex.fill != fill:
            col.violation(dict(part=part, clause="to_exact", pad=case["pad"]),
                          f"to_exact={ex.dimensions} expected {(left, top, right, bottom)}", case)
        padded = pad.pad(inner, Size(w, h))
        if (W, H) == (w, h) and padded != inner:
            col.violation(dict(part=part, clause="no-effect", pad=case["pad"]),
                          "padding not larger than the render changed the output", case)
        if padded.count("\n") != H - 1 or padded.endswith("\n"):
            col.violation(dict(part=part, clause="line-count", pad=case["pad"]),
                          f"{padded.count(chr(10))} newlines for height {H}", case)
        judge(col, case, padded, inner, ident, w, h, W, H, left, top, fill, case["tight"])
        if (W, H) != (w, h):
            col.add_distinct(h64(padded))
    elif part == "B":        # Renderable.render(padding=) and RenderIterator frames
        ns = classes()
        w, h = case["size"]
        term = case["term"]
        fill = case["fill"]
        world.setup("other", *term)
        r = ns.make(case["frames"], (w, h), mode=case["kind"])
        if case["pad"] == "aligned":
            pw, ph, ha, va = case["args"]
            pad = P.AlignedPadding(pw, ph, P.HAlign(ha), P.VAlign(va), fill)
            ew = pw if pw > 0 else max(term[0] + pw, 1)
            eh = ph if ph > 0 else max(term[1] + ph, 1)
            W, H = max(ew, w), max(eh, h)
            left, top, right, bottom = ref_offsets(w, h, W, H, ha, va)
        else:
            left, top, right, bottom = case["args"]
            pad = P.ExactPadding(left, top, right, bottom, fill)
            W, H = left + w + right, top + h + bottom
        if case["via"] == "render":
            fr = r.render(None, pad)
            inner = str(r)
        else:
            if case["via"] == "repad":
                # cached iterator: frames of loop 1 under another padding, then set_padding(pad):
                # the cached frame 0 of loop 2 must carry exactly the new padding
                it = L.render.RenderIterator(r, None, P.ExactPadding(1, 1, 2, 0, "y"), 2, True)
                for _ in range(case["frames"]):
                    next(it)
                it.set_padding(pad)
            elif case["via"] == "resize":
                # cached iterator: frame 0 cached at size A, another frame rendered at size B, then
                # back to frame 0 at size A: a cache hit must still be padded for size A
                it = L.render.RenderIterator(r, None, pad, 2, True)
                next(it)
                B = Size(1, 1) if (w, h) != (1, 1) else Size(2, 2)
                it.set_render_size(B)
                next(it)
                it.seek(0)
                it.set_render_size(Size(w, h))
            else:
                it = L.render.RenderIterator(r, None, pad, 1, False)
            fr = next(it)
            if case["via"] == "iter2":
                fr = next(it)
                r2 = ns.make(case["frames"], (w, h), mode=case["kind"])
                r2.seek(1)
                inner = str(r2)
            else:
                inner = str(r)
            it.close()
        if tuple(fr.render_size) != (W, H):
            col.violation(dict(part=part, clause="frame-size", via=case["via"], pad=case["pad"]),
                          f"frame.render_size={tuple(fr.render_size)} expected {(W, H)}", case)
        judge(col, case, fr.render_output, inner, "other", w, h, W, H, left, top, fill, case["tight"])
        if (W, H) != (w, h):
            col.add_distinct(h64(fr.render_output))
    elif part == "C":        # old API: format(image, "<h_align><width>.<v_align><height>")
        w, h = case["size"]
        term = case["term"]
        inner, ident = inner_render(case["kind"], w, h)
        world.setup(ident, *term, cell=(2, 3))
        if case.get("stdout_size"):
            world.W.tty.stdout_size = tuple(case["stdout_size"])
        from ..imgkit import pattern

        style = case["kind"].split("-")[0]
        cls = {"block": L.image.BlockImage, "kitty": L.image.KittyImage, "iterm2": L.image.ITerm2Image}[style]
        img = cls(pattern(w * 2, h * 3 if style != "block" else h * 2), width=w, height=h)
        ha, pw, va, ph = case["args"]
        spec = f"{ha}{'' if pw is None else pw}"
        if va or ph is not None:
            spec += f".{va}{'' if ph is None else ph}"
        style_spec = {"block": "", "kitty-lines": "+L", "kitty-whole": "+W", "iterm2-whole": "+W",
                      "iterm2-lines": "+L", "iterm2-whole-konsole": "+W"}[case["kind"]]
        # an omitted width / height is 0 / -2, an explicit 0 ("0", "00") is relative to the terminal dimension
        ew = int(pw) if pw and int(pw) else term[0]
        eh = max(term[1] - 2, 1) if ph is None else (int(ph) if int(ph) else term[1])
        W, H = max(ew, w), max(eh, h)
        left, top, right, bottom = ref_offsets(w, h, W, H, {"<": 0, "|": 1, "": 1, ">": 2}[ha],
                                               {"^": 0, "-": 1, "": 1, "_": 2}[va])
        padded = format(img, spec + style_spec)
        case = dict(case, spec=spec + style_spec)
        if (W, H) == (w, h) and padded != inner:
            col.violation(dict(part=part, clause="no-effect", kind=case["kind"]),
                          "padding not larger than the render changed the output", case)
        judge(col, case, padded, inner, ident, w, h, W, H, left, top, " ", case["tight"])
        if (W, H) != (w, h):
            col.add_distinct(h64(padded))


def run_case_d(col, case):
    """Part D: frames of an ImageIterator over a dynamically sized image with a padding larger than the
    render, terminal resized between two frames: every frame is the frame rendered at the size the image
    has at that moment, placed inside the (absolute) padding resolved when the iterator was created."""
    L = world.load()
    from ..c06_common import _file  # one atomically written GIF per (w, h, n)
    t1, t2 = case["terms"]
    ha, va = case["align"]
    world.setup("other", *t1)
    path = _file("gif", 4, 4, 3)
    img = L.image.BlockImage.from_file(path)
    twin = L.image.BlockImage.from_file(path)
    if case["size"] != "FIT":
        img.size = twin.size = getattr(L.image.Size, case["size"])
    pw, ph = case["pad"]
    spec = f"{ha}{pw}.{va}{ph}"
    it = L.image.ImageIterator(img, case["repeat"], spec, case["cached"])
    try:
        for step, term in enumerate(case["schedule"]):
            tty = world.W.tty
            tty.cols, tty.rows = (t1, t2)[term]
            fr = next(it)
            k = step % 3
            twin.seek(k)
            inner = format(twin, "1.1")
            w, h = twin.rendered_size
            W, H = max(pw, w), max(ph, h)
            left, top, _, _ = ref_offsets(w, h, W, H, {"<": 0, "|": 1, ">": 2}[ha], {"^": 0, "-": 1, "_": 2}[va])
            c = dict(case, step=step)
            judge(col, c, fr, inner, "other", w, h, W, H, left, top, " ", False)
            col.add_distinct(h64(fr))
    finally:
        it.close()
        img.close()
        twin.close()


F_VIAS = ("resolve", "to_exact", "pad", "render", "iter", "set_padding", "draw", "draw-animated")


def run_case_f(col, case):
    """Part F: AlignedPadding and subclasses of it (a trivial one; one overriding the documented
    `_get_exact_dimensions_` hook - placement by thirds) x relative / absolute dimensions x every way a padding
    reaches the output (resolve, to_exact, pad, Renderable.render, RenderIterator(), set_padding, draw() still and
    animated): an instance with relative dimensions behaves exactly as the same class with the equivalent
    absolute dimensions max(terminal + d, 1) - same class after resolve(), same placement rule, same box."""
    import os

    from .. import c06_common as cc

    L = world.load()
    P = L.padding
    Size = L.geometry.Size
    ns = classes()
    w, h = case["size"]
    term = tuple(case["term"])
    pw, ph = case["dims"]
    ha, va = case["align"]
    fill, via, padcls = case["fill"], case["via"], case["padcls"]
    rel = pw <= 0 or ph <= 0
    ew = pw if pw > 0 else max(term[0] + pw, 1)
    eh = ph if ph > 0 else max(term[1] + ph, 1)
    W, H = max(ew, w), max(eh, h)
    if padcls == "thirds":
        left, top = (W - w) // 3, (H - h) - (H - h) // 3
    else:
        left, top, _, _ = ref_offsets(w, h, W, H, ha, va)
    right, bottom = W - w - left, H - h - top
    sig = dict(part="F", padcls=padcls, via=via, relative=rel)
    if case.get("stdout_size"):
        sig["stdout"] = "not-the-terminal"
    jcase = dict(case, pad="aligned")

    def bad(clause, what):
        col.violation(dict(sig, clause=clause), what, case)

    if via in ("draw", "draw-animated"):
        frames = 3 if via == "draw-animated" else 1     # from the 3rd frame on the cursor starts past the 2nd
        c = dict(api="new", cls="TextR", mode=case["kind"], frames=frames, loops=1, cache=False, size=(w, h),
                 pad=("aligned", pw, ph, ha, va, fill), padcls=padcls, term=term, row0=0, isatty=True,
                 allow_scroll=True)
        if case.get("stdout_size"):
            c["stdout_size"] = case["stdout_size"]
        exp = cc.expected(c)
        if (exp.W, exp.H, exp.left, exp.top) != (W, H, left, top):
            raise world.HarnessError("C05 part F: reference geometries disagree")
        failed = []

        def on_frame(run, j):
            if not failed:
                cc.judge_screen(run, exp, j % frames, lambda cl, wh: (failed.append(cl), bad("frame-" + cl, wh)),
                                final=False, scrolls_expected=run.term.scrolls)

        run = cc.execute(c, on_frame=on_frame)
        if run.exc is not None:
            bad("exception", f"draw() with {padcls} padding {pw}x{ph} raised {run.exc!r}")
        elif not failed:
            cc.judge_screen(run, exp, frames - 1, lambda cl, wh: bad("final-" + cl, wh), final=True,
                            scrolls_expected=run.term.scrolls)
        return
    world.setup("other", *term)
    if case.get("stdout_size"):
        # standard output is not the active terminal: fd 1 / COLUMNS x LINES report another size; relative
        # dimensions refer to the active terminal
        world.W.tty.stdout_size = tuple(case["stdout_size"])
    cls = cc.padding_class(padcls)
    pad = cls(pw, ph, P.HAlign(ha), P.VAlign(va), fill)
    r = ns.make(2, (w, h), mode=case["kind"])
    inner = str(r)
    try:
        if via in ("resolve", "to_exact", "pad"):
            res = pad.resolve(os.terminal_size(term))
            if type(res) is not cls:
                bad("resolve-keeps-class", f"resolve() of a {cls.__name__} returned a {type(res).__name__}")
            if (res.width, res.height, res.h_align, res.v_align, res.fill, res.relative) != \
                    (ew, eh, pad.h_align, pad.v_align, fill, False):
                bad("resolve", f"resolve({term}) of {pad!r} gave {res!r}, expected {ew}x{eh}")
                return
            if not rel and res is not pad:
                bad("resolve-absolute-identity", "resolve() of an absolute padding returned another object")
            if via == "pad":
                got = res.get_padded_size(Size(w, h))
                if tuple(got) != (W, H):
                    bad("get_padded_size", f"get_padded_size={tuple(got)} expected {(W, H)}")
            if via == "to_exact":
                ex = res.to_exact(Size(w, h))
                if ex.dimensions != (left, top, right, bottom) or ex.fill != fill:
                    bad("to_exact", f"to_exact={ex.dimensions} expected {(left, top, right, bottom)}")
                res = ex
            out = res.pad(inner, Size(w, h))
            size = (W, H)
        elif via == "render":
            fr = r.render(None, pad)
            out, size = fr.render_output, tuple(fr.render_size)
        else:
            if via == "iter":
                it = L.render.RenderIterator(r, None, pad, 1, False)
            else:
                it = L.render.RenderIterator(r, None, P.ExactPadding(1, 0, 0, 1, "y"), 1, False)
                it.set_padding(pad)
            try:
                fr = next(it)
            finally:
                it.close()
            out, size = fr.render_output, tuple(fr.render_size)
    except P.RelativePaddingDimensionError as e:
        bad("relative-not-resolved", f"{type(e).__name__} through {via} for a {cls.__name__} with dimensions "
            f"{pw}x{ph} on terminal {term}")
        return
    if size != (W, H):
        bad("frame-size", f"padded size {size} expected {(W, H)}")
    judge(col, dict(jcase, part="F", kind=f"{padcls}/{via}"), out, inner, "other", w, h, W, H, left, top, fill, False)
    if (W, H) != (w, h):
        col.add_distinct(h64(("F", out)))


def build_cases_f(quick):
    cases = []
    dims = [(-2, -1), (0, 0), (0, 4), (5, -2), (5, 4), (-9, -9), (2, -3)]
    aligns = [(0, 0), (1, 1), (2, 2)] if quick else [(a, b) for a in range(3) for b in range(3)]
    for padcls, d, al, fill in itertools.product(("base", "trivial", "thirds"), dims, aligns, (" ", "")):
        for size, kind, via in itertools.product([(2, 2), (1, 1), (3, 2)], ("plain", "sgr"), F_VIAS):
            for term in ([(6, 5)] if quick else [(6, 5), (8, 6)]):
                if quick and kind == "sgr" and via not in ("render", "draw-animated"):
                    continue
                cases.append(dict(part="F", padcls=padcls, dims=d, align=al, fill=fill, size=size, kind=kind, via=via,
                                  term=term))
    # a slice with standard output not being the active terminal (the environment reports 80x24)
    for padcls, d, via in itertools.product(("base", "thirds"), [x for x in dims if min(x) <= 0],
                                            ("render", "iter", "set_padding", "draw", "draw-animated")):
        cases.append(dict(part="F", padcls=padcls, dims=d, align=(1, 1), fill=" ", size=(2, 2), kind="plain", via=via,
                          term=(6, 5), stdout_size=(80, 24)))
    return cases


E_COMBOS = [("block", "other", None), ("block", "kitty", None),
            ("kitty", "kitty", "lines"), ("kitty", "kitty", "whole"), ("kitty", "konsole", "lines"),
            ("iterm2", "iterm2", "lines"), ("iterm2", "iterm2", "whole"), ("iterm2", "wezterm", "lines"),
            ("iterm2", "wezterm", "whole"), ("iterm2", "konsole", "whole")]


def run_case_e(col, case):
    """Part E: old-API draw(h_align, pad_width, v_align, pad_height) - still and animated - executed for real
    (c06_common.execute: virtual stdout / terminal / clock) and judged on the model screen after every frame
    and at the end: the box is exactly max(render, pad) (padding no larger than the render has no effect on
    that axis), the frame - drawn alone through format() - sits at the aligned offset, every other cell of
    the box is a blank, nothing outside the box is written.  Cursor bookkeeping and scrolling belong to C06."""
    from .. import c06_common as cc

    exp = cc.expected(case)
    n = case["frames"]
    axis = ("h" if exp.W > exp.w else "") + ("v" if exp.H > exp.h else "") or "none"
    sig = dict(part="E", api="old", style=case["style"], ident=case["ident"], animated=bool(exp.animation),
               axis=axis)
    failed = []

    def bad(clause, what):
        failed.append(clause)
        col.violation(dict(sig, clause=clause, mix=bool((case.get("style_kw") or {}).get("mix"))), what, case)

    def on_frame(run, j):
        if not failed:
            cc.judge_screen(run, exp, j % n, lambda c, w: bad("frame-" + c, f"after frame #{j}: {w}"),
                            final=False, scrolls_expected=run.term.scrolls)

    run = cc.execute(case, on_frame=on_frame)
    if exp.reject is not None:
        raise world.HarnessError(f"C05 part E: case {case} is not a valid draw()")
    if run.exc is not None:
        bad("exception", f"draw() raised {run.exc!r} for a {exp.w}x{exp.h} render padded to {exp.W}x{exp.H}")
        return
    if not failed:
        k_last = n - 1 if exp.animation else 0
        cc.judge_screen(run, exp, k_last, lambda c, w: bad("final-" + c, f"after draw(): {w}"), final=True,
                        scrolls_expected=run.term.scrolls)
    if (exp.W, exp.H) != (exp.w, exp.h):
        col.add_distinct(h64(("E", "".join(run.stdout.data))))


def build_cases_e(quick):
    cases = []
    terms = [(8, 7)] if quick else [(8, 7), (6, 5)]
    sizes = [(2, 2), (3, 2)] if quick else [(2, 2), (3, 2), (1, 3), (2, 1)]
    aligns = [("<", "^"), ("|", "-"), (">", "_"), (None, None)] if quick else \
        [(a, b) for a in ("<", "|", ">", None) for b in ("^", "-", "_", None)]
    for (style, ident, method), (w, h), term in itertools.product(E_COMBOS, sizes, terms):
        mixes = (False,) if style == "block" else (False, True)
        for mix, frames in itertools.product(mixes, (1, 2) if quick else (1, 2, 3)):
            # padding on both sides of the rendered size: smaller, equal, larger, terminal-relative
            for pw in sorted({max(w - 1, 1), w, w + 2, 0, -1}):
                for ph in sorted({max(h - 1, 1), h, h + 2, -2, -1}):
                    for ha, va in aligns:
                        if (ha, va) != aligns[0] and (pw > 0 and pw <= w) and (ph > 0 and ph <= h):
                            continue        # no slack on either axis: alignment is immaterial
                        if quick and (ha, va) == (None, None) and (pw, ph) != (w + 2, h + 2):
                            continue
                        c = dict(part="E", api="old", style=style, ident=ident, method=method, frames=frames,
                                 repeat=1 if quick else 2, cached=False, size=(w, h), fmt=(ha, pw, va, ph), term=term,
                                 row0=0, isatty=True, kind=f"{style}-{method}")
                        if mix:
                            c["style_kw"] = dict(mix=True)
                        cases.append(c)
    return cases


def build_cases(tier):
    quick = tier == "quick"
    sizes = [(1, 1), (2, 1), (1, 2), (3, 2), (2, 3)] if quick else list(itertools.product((1, 2, 3), (1, 2, 3)))
    kinds = ["plain", "sgr", "block", "kitty-lines", "kitty-whole", "iterm2-whole", "iterm2-lines",
             "iterm2-whole-konsole"]
    fills = [" ", "x", ""]
    terms = [(6, 5)] if quick else [(6, 5), (8, 6)]
    aligned = [(pw, ph, ha, va) for pw in range(-3, 7) for ph in range(-3, 6)
               for ha in range(3) for va in range(3)]
    if quick:
        aligned = [a for a in aligned if a[0] in (-3, -1, 0, 1, 2, 4, 5) and a[1] in (-2, -1, 0, 1, 3, 4)]
    # relative dimensions that reach the max(terminal + d, 1) clamp (|d| >= terminal dimension)
    clamp = [(pw, ph, ha, va) for pw in (-9, -8, -6, 0, 2) for ph in (-7, -6, -5, 0, 2)
             for ha in (0, 1, 2) for va in (0, 1, 2) if pw < -3 or ph < -3]
    if quick:
        clamp = [a for a in clamp if (a[2], a[3]) in ((0, 0), (1, 1), (2, 2))]
    aligned = aligned + clamp
    exact = list(itertools.product(range(3), repeat=4))
    if quick:
        exact = [e for e in exact if sum(1 for v in e if v) <= 2 or e in ((1, 1, 1, 1), (2, 1, 1, 2), (1, 2, 2, 1))]
    cases = []
    for kind in kinds:
        for size in sizes:
            for fill in fills:
                if quick and kind not in ("plain", "kitty-lines") and fill == "x":
                    continue
                for term in terms:
                    for tight in (True, False):
                        for a in aligned:
                            if quick and tight and (a[2], a[3]) not in ((0, 0), (1, 1), (2, 2), (2, 0)):
                                continue
                            cases.append(dict(part="A", kind=kind, size=size, fill=fill, term=term,
                                              tight=tight, pad="aligned", args=a))
                        if term == terms[0]:
                            for e in exact:
                                cases.append(dict(part="A", kind=kind, size=size, fill=fill, term=term,
                                                  tight=tight, pad="exact", args=e))
    for kind in ("plain", "sgr"):
        for size in sizes:
            for fill in fills:
                for term in terms:
                    for via, frames in (("render", 1), ("iter", 2), ("iter2", 2), ("repad", 2), ("resize", 2)):
                        for a in aligned:
                            if quick and (a[2], a[3]) not in ((0, 0), (1, 1), (2, 2), (0, 2)):
                                continue
                            cases.append(dict(part="B", kind=kind, size=size, fill=fill, term=term, tight=False,
                                              pad="aligned", args=a, via=via, frames=frames))
                        for e in exact:
                            if sum(e) > 4 and quick:
                                continue
                            cases.append(dict(part="B", kind=kind, size=size, fill=fill, term=term, tight=True,
                                              pad="exact", args=e, via=via, frames=frames))
    widths = [None, 0, 1, 2, 4, 6]
    heights = [None, 0, "00", 1, 2, 4, 5]
    for kind in kinds[2:]:
        for size in sizes:
            for term in terms:
                for ha in ("", "<", "|", ">"):
                    for va in ("", "^", "-", "_"):
                        for pw in widths:
                            for ph in heights:
                                if pw is not None and pw > term[0]:
                                    continue
                                if ph == "00" and not (va == "_" and pw in (None, 4)):
                                    continue
                                if ph is None and not va:
                                    if quick and pw not in (None, 4):
                                        continue
                                cases.append(dict(part="C", kind=kind, size=size, term=term, tight=False,
                                                  args=(ha, pw, va, ph)))
    # a slice of part C with standard output not being the active terminal (the environment reports 80x24)
    for kind, (pw, ph), va in itertools.product(("block", "kitty-lines"), [(None, None), (0, None), (None, 0), (0, 0), (4, None)],
                                                ("", "_")):
        cases.append(dict(part="C", kind=kind, size=(2, 1), term=(6, 5), tight=False, args=("", pw, va, ph),
                          stdout_size=(80, 24)))
    for terms in (((12, 8), (8, 6)), ((8, 6), (12, 8))):
        for size in ("FIT", "ORIGINAL") if quick else ("FIT", "AUTO", "ORIGINAL", "FIT_TO_WIDTH"):
            for ha in "<|>":
                for va in "^-_":
                    for cached in (False, True):
                        for schedule in ((0, 1, 1, 1), (0, 0, 0, 1, 0, 1)) if quick else \
                                ((0, 1, 1, 1), (0, 0, 0, 1, 0, 1), (0, 1, 0, 1, 0, 1), (1, 0, 0, 0, 1, 1)):
                            cases.append(dict(part="D", kind="block", pad_=None, terms=terms, size=size,
                                              align=(ha, va), pad=(14, 9), cached=cached, repeat=2,
                                              schedule=schedule))
    cases += build_cases_e(quick)
    cases += build_cases_f(quick)
    return cases


def _shard(cases):
    col = _CTX.new_collector()
    for case in cases:
        try:
            run_case(col, case)
        except world.HarnessError:
            raise
        except Exception as e:  # an exception on a valid padding request is itself a violation
            col.violation(dict(part=case["part"], clause="exception", exc=type(e).__name__,
                               pad=case.get("pad"), kind=case.get("kind")),
                          f"{type(e).__name__}: {e}", case)
        if col.evaluations % 997 == 0:
            col.sample(case)
    return col


_CTX = None


def run(ctx):
    global _CTX
    _CTX = ctx
    cases = explore.rotate(build_cases(ctx.tier))
    # inner renders are built before forking so that every worker shares them
    for c in cases:
        if c["part"] in ("A", "C"):
            inner_render(c["kind"], *c["size"])
    for col in explore.pmap(_shard, cases):
        ctx.merge(col)
    for c in cases[:3]:
        ctx.sample(c)
    ctx.rule = ("full product of inner render kind x render size x padding (aligned: every width -3..6, height "
                "-3..5, 3x3 alignments; exact: every margin 0..2^4) x fill x terminal x tight/loose screen, through "
                "Padding.pad, Renderable.render(padding=), RenderIterator frames and old-API format specs; part E: real "
                "old-API draw() calls (style x terminal identity x method x mix x still/animated x pad width/height "
                "below / equal / above the render and terminal-relative x alignments) judged on the screen; "
                "distinct = distinct padded outputs in which the padding changed the output")
    ctx.coverage.update(parts=dict(A="Padding classes", B="Renderable.render / RenderIterator", C="format spec",
                                   D="ImageIterator frames over a resized terminal",
                                   E="old-API draw() (still / animated) judged on the screen per frame",
                                   F="AlignedPadding subclasses x relative/absolute x every way to the output"),
                        cases=len(cases))
    ctx.assumptions += ["vterm (vlib/vterm.py) is the terminal; a render is anchored with the line-start column "
                        "at the anchor column (DESIGN 2.2)", "PIL"]


def replay(ctx, case):
    run_case(ctx, case)
