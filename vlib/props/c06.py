"""C06 draw() leaves the picture in place and the cursor on the line below it; size validation.

Engine: product grid, every tuple is one execution of the real `draw()` (both APIs) against the
virtual stdout / terminal model with a virtual clock.  Oracle (independent of the drawing code):

* at every frame boundary (the sleep after a frame, i.e. the frame is completely on the screen) and
  when draw() has returned, the screen is judged cell by cell: the padded region - anchored where the
  first frame was drawn, moved only by the scrolling its height makes necessary - shows that frame
  *drawn alone at that place* (the unpadded render obtained through str()/format(), executed on a
  fresh model screen at the documented alignment offset) inside blank padding; every other cell is the
  tagged pre-draw cell shifted by the scroll count; graphics placements equal those of the frame alone;
* scroll events == max(0, row0 + H + 1 - rows); cursor visible, column 0, row == region bottom + 1;
  SGR default; the number of frames shown == frames x loops;
* the documented validation table (check_size / allow_scroll / scroll / animation / pad_width /
  pad_height) decides which calls must raise which error; a rejected call must not have written a
  byte nor touched the tty attributes, an accepted one must not raise.
"""
from __future__ import annotations

import itertools

from .. import c06_common as cc
from .. import explore, world
from ..harness import h64

ID = "C06"
LEVEL = "exploration"

_CTX = None


def sig_base(case, exp):
    d = dict(api=case["api"], animated=bool(exp.animation))
    if case["api"] == "old":
        d.update(style=case["style"], ident=case.get("ident", "other"), method=case.get("method"))
        if exp.animation:
            d["one_line"] = exp.H == 1
            d["vpad"] = exp.H > exp.h
        if case.get("style_kw"):
            d["style_kw"] = "+".join(sorted(case["style_kw"]))
    else:
        d.update(cls=case.get("cls", "TextR"), mode=case.get("mode", "plain"))
        if case.get("padcls"):
            d["padcls"] = case["padcls"]
    if case.get("stdout_size"):
        d["stdout"] = "not-the-terminal"
    return d


def defect_prediction(case, exp):
    """Where the cursor ends if - and only if - the final cursor-down moves by the region height
    although the cursor already is on the region's last line (used to *name* that failure)."""
    cols, rows = case["term"]
    s1 = max(0, case["row0"] + exp.H - rows)
    b = case["row0"] - s1 + exp.H - 1
    b2 = min(b + exp.H, rows - 1)
    if b2 == rows - 1:
        return (rows - 1, 0), s1 + 1
    return (b2 + 1, 0), s1


def run_case(col, case):
    col.count()
    exp = cc.expected(case)
    n = case["frames"]
    rows = case["term"][1]
    base = None
    failed = []

    def bad(clause, what, **detail):
        sig = dict(base or sig_base(case, exp), clause=clause, **detail)
        failed.append(clause)
        col.violation(sig, what, case)

    if case.get("dyn") and case["api"] == "old":
        # dynamic size: the geometry is whatever the automatic size gives for this terminal
        def prepare(run):
            nonlocal exp
            for what, exc, size in run.pre_log:
                if exc is not None:
                    bad("history-draw-raised", f"an earlier draw() of the history {case.get('pre')} raised {exc}")
                if not size.startswith("<Size."):
                    bad("dynamic-size-kept", f"after an earlier draw() of the history the dynamic size setting became "
                        f"{size}")
            run.case = dict(case, srcsize=case["size"], size=tuple(run.subject.rendered_size), dyn=False)
            exp = cc.expected(dict(run.case, dyn=True))     # a dynamic size is never rejected
            if not exp.fits_width or exp.h > max(case["term"][1] - 2, 1):
                bad("dynamic-size-overflows", f"the automatic (FIT) size {exp.w}x{exp.h} does not fit the terminal "
                    f"{case['term']} (available {case['term'][0]}x{max(case['term'][1] - 2, 1)})")
    else:
        prepare = None

    def on_frame(run, j):
        if not exp.fits_width or "frame" in failed:
            return
        col.inc("frame_boundaries_judged")
        s1 = max(0, case["row0"] + exp.H - rows)
        ok = cc.judge_screen(run, exp, j % n, lambda c, w, **d: bad("frame-" + c, f"after frame #{j} (frame {j % n}): {w}",
                                                                     first=j == 0, **d),
                             final=False, scrolls_expected=s1)
        if not ok:
            failed.append("frame")
        elif run.term.cursor()[0] < case["row0"] - s1 or run.term.cursor()[0] >= case["row0"] - s1 + exp.H:
            bad("frame-cursor-in-region", f"after frame #{j} the cursor is at {run.term.cursor()}, outside the region")

    run = cc.execute(case, on_frame=on_frame if exp.reject is None else None, prepare=prepare)
    base = sig_base(case, exp)
    if case.get("pre"):
        base["history"] = "+".join(st["op"] for st in case["pre"])
    if prepare is not None and not repr(run.subject.size).startswith("<Size."):
        bad("dynamic-size-kept", f"after draw() the dynamic size setting of the image became {run.subject.size!r}")
    so, term = run.stdout, run.term
    if exp.reject is not None:
        name = type(run.exc).__name__ if run.exc is not None else None
        if name not in exp.reject:
            bad("validation-rejects", f"expected {'/'.join(exp.reject)} for padded size {exp.W}x{exp.H} "
                f"(render {exp.w}x{exp.h}) on terminal {case['term']}, got {run.exc!r}", expected=exp.reject[0])
        if so.data:
            bad("validation-before-output", f"{len(''.join(so.data))} characters were written before the size was "
                f"rejected: {''.join(so.data)[:30]!r}")
        if run.attrs_after != run.attrs_before:
            bad("validation-before-output", "tty attributes changed by a rejected draw()")
        return
    if run.exc is not None:
        name = type(run.exc).__name__
        clause = "validation-accepts" if name in ("RenderSizeOutofRangeError", "InvalidSizeError", "ValueError") \
            else "exception"
        bad(clause, f"draw() raised {run.exc!r} for padded size {exp.W}x{exp.H} (render {exp.w}x{exp.h}) on "
            f"terminal {case['term']}", exc=name)
        return
    if not exp.fits_width:
        col.inc("accepted_wider_than_terminal")
        return   # accepted by the rules although it cannot fit: placement is not defined
    if (case["api"] == "old" and case["style"] == "iterm2" and case.get("method") == "whole"
            and case.get("ident") in ("iterm2", "wezterm") and exp.h > rows):
        # documented limitation (ITerm2Image, WHOLE): "doesn't work well on iTerm2 and WezTerm when the
        # image height is greater than the terminal height" - accepted, but placement is not judged
        col.inc("excluded_documented_limitation")
        return
    col.add_distinct(h64(("".join(so.data), case["row0"], case["term"])))
    # ---- frames shown
    if exp.animation:
        reps = case.get("loops", 1) if case["api"] == "new" else case.get("repeat", 1)
        want = n * reps - (0 if case["api"] == "new" else 1)
        if run.frames_seen != want:
            bad("frame-count", f"{run.frames_seen} frame boundaries for {n} frames x {reps} loops, expected {want}")
    k_last = n - 1 if exp.animation else case.get("seek", 0)
    # ---- final state
    need = max(0, case["row0"] + exp.H + 1 - rows)
    detail = {}
    if case["api"] == "old" and exp.animation:
        cur, sc = defect_prediction(case, exp)
        detail["detail"] = "down-by-lines" if (term.cursor(), term.scrolls) == (cur, sc) else "other"
    if term.scrolls != need:
        bad("scroll-count", f"{term.scrolls} scroll(s) for a {exp.W}x{exp.H} region drawn at row {case['row0']} of "
            f"{rows}: {need} necessary", **detail)
    cc.judge_screen(run, exp, k_last, lambda c, w, **d: bad("final-" + c, f"after draw(): {w}", **d), final=True,
                    scrolls_expected=term.scrolls)
    want_cur = (case["row0"] - need + exp.H, 0)
    if term.cursor() != want_cur:
        bad("final-cursor", f"cursor at {term.cursor()} after draw(), expected {want_cur} (start of the line below "
            f"the {exp.H}-line region drawn at row {case['row0']}, terminal {case['term']})", **detail)
    if not term.visible:
        bad("final-cursor-visible", "cursor hidden after draw()")
    if not term.sgr_default():
        bad("final-sgr", f"text attributes not reset after draw(): fg={term.fg} bg={term.bg} attrs={term.attrs}")
    if not term.in_ground() or term.pending_kitty is not None:
        bad("final-parser", f"terminal parser left in state {term.parser_state}")


# ------------------------------------------------------------------------------------------- grids
NEW_CLS = [("TextR", "plain"), ("TextR", "sgr"), ("ClearR", "plain")]
OLD_COMBOS = [("block", "other", None),
              ("kitty", "kitty", "lines"), ("kitty", "kitty", "whole"),
              ("kitty", "kitty-0.25", "lines"), ("kitty", "kitty-0.25", "whole"),
              ("kitty", "konsole", "lines"), ("kitty", "konsole", "whole"),
              ("iterm2", "iterm2", "lines"), ("iterm2", "iterm2", "whole"),
              ("iterm2", "wezterm", "lines"), ("iterm2", "wezterm", "whole"),
              ("iterm2", "konsole", "lines"), ("iterm2", "konsole", "whole")]

# kitty versions around the gate between the two frame-removal mechanisms of an animation (`_clear_frame`
# by z-index up to 0.25.0, `blend=False` afterwards): every version must get one of them
KITTY_GATE = [("kitty", "kitty-0.25.1", "lines"), ("kitty", "kitty-0.25.1", "whole"),
              ("kitty", "kitty-0.25.2", "lines"), ("kitty", "kitty-0.26", "lines"), ("kitty", "kitty-0.26", "whole")]


def new_paddings(quick, w, h):
    pads = []
    margins = [m for m in itertools.product(range(3), repeat=4)
               if max(m) <= 1 or sum(1 for v in m if v) <= (1 if quick else 2) or m in ((1, 2, 0, 1), (2, 1, 1, 2))]
    if quick:
        margins = [m for m in margins if sum(m) <= 2 or m in ((1, 1, 1, 1), (1, 2, 0, 1), (0, 1, 0, 1), (1, 0, 1, 1))]
    for m in margins:
        pads.append(("exact",) + m + (" ",))
    for m in ((1, 1, 1, 1), (2, 0, 0, 1), (0, 1, 1, 0)):
        pads.append(("exact",) + m + ("",))
    pads.append(("aligned", 0, -2, 1, 1, " "))      # the default of draw()
    pads.append(("aligned", -1, -1, 0, 2, " "))
    pads.append(("aligned", 0, 0, 2, 0, " "))
    aligns = [(0, 0), (1, 1), (2, 2)] if quick else list(itertools.product(range(3), repeat=2))
    for ha, va in aligns:
        pads.append(("aligned", w + 2, h + 2, ha, va, " "))
    pads.append(("aligned", w + 1, h + 1, 1, 1, ""))
    pads.append(("aligned", w + 1, 1, 2, 1, " "))
    pads.append(("aligned", 1, h + 1, 1, 2, " "))
    return pads


def old_fmts(quick, w, h):
    f = [(None, 0, None, -2), (None, w, None, 1), ("<", w + 2, "^", h + 2), (">", w + 2, "_", h + 2),
         (None, w + 1, None, h + 1), (None, w, "^", h + 2), (None, w, "_", h + 1), (">", w + 1, None, 1)]
    if not quick:
        f += [("<", w + 1, "_", h + 1), ("|", w + 2, "-", h + 2), (None, 0, "_", h + 1), (">", -1, "^", -1),
              ("left", w + 2, "bottom", h + 2), ("<", w, "-", h + 3)]
    return f


def build_cases(tier):
    quick = tier == "quick"
    cases = []
    sizes = [(1, 1), (2, 1), (1, 2), (3, 2), (2, 3)] if quick else list(itertools.product((1, 2, 3), (1, 2, 3)))
    terms = [(6, 5)] if quick else [(6, 5), (8, 7)]
    anims_new = [(1, 1, False), (2, 1, False), (2, 2, True), (3, 2, False)]
    if not quick:
        anims_new = [(1, 1, False)] + [(n, l, c) for n in (2, 3) for l in (1, 2) for c in (False, True)]
    # ---- part N: new API geometry
    for (cls, mode), size, term in itertools.product(NEW_CLS, sizes, terms):
        for pad in new_paddings(quick, *size):
            for frames, loops, cache in anims_new:
                if quick and cls == "TextR" and mode == "sgr" and frames == 3:
                    continue
                for row0 in range(term[1]):
                    for isatty in (True, False):
                        if quick and not isatty and (row0 not in (0, term[1] - 1) or frames == 3):
                            continue
                        cases.append(dict(part="N", api="new", cls=cls, mode=mode, frames=frames, loops=loops,
                                          cache=cache, size=size, pad=pad, term=term, row0=row0, isatty=isatty,
                                          allow_scroll=True))
    # ---- part T: tty settings (hide_cursor / echo_input / animate=False on another frame) - small cross
    for (cls, mode), size in itertools.product(NEW_CLS, [(2, 2), (1, 1)]):
        for pad in (("exact", 1, 1, 1, 1, " "), ("aligned", 0, -2, 1, 1, " ")):
            for frames, loops, cache, animate, seek in ((1, 1, False, True, 0), (2, 2, True, True, 0),
                                                        (2, 1, False, False, 1), (3, 1, False, True, 2)):
                for hide, echo, isatty in itertools.product((True, False), (False, True), (True, False)):
                    for row0 in (0, 3, 4):
                        cases.append(dict(part="T", api="new", cls=cls, mode=mode, frames=frames, loops=loops,
                                          cache=cache, size=size, pad=pad, term=(6, 5), row0=row0, isatty=isatty,
                                          hide_cursor=hide, echo_input=echo, animate=animate, seek=seek))
    # INDEFINITE frame count (a stream that ends): loops / cache do not apply
    # (Frame.number is unspecified for such renderables: numbered by stream position, or all 0)
    for (cls, mode), size, stream in itertools.product(NEW_CLS, [(2, 2), (3, 1)], (1, 2, 3, 4, 5)):
        for pad in (("exact", 1, 0, 1, 2, " "), ("aligned", 0, -2, 1, 1, " "), ("exact", 0, 0, 0, 0, " ")):
            for row0, isatty in itertools.product(range(5), (True, False)):
                for number_mode in ("position", "zero"):
                    if number_mode == "zero" and (stream < 2 or not isatty and quick):
                        continue
                    if quick and stream > 3 and row0 not in (0, 4):
                        continue
                    cases.append(dict(part="T", api="new", cls=cls, mode=mode, frames=stream, indef=True, loops=1,
                                      cache=False, size=size, pad=pad, term=(6, 5), row0=row0, isatty=isatty,
                                      number_mode=number_mode))
    # relative padding dimensions whose magnitude reaches the terminal dimension: "equivalent to the absolute
    # dimension max(terminal_dimension + relative_dimension, 1)" - the padded size is max(render, clamp)
    clamp = [((6, 1), ("aligned", 0, -2, 1, 1, " ")), ((6, 2), ("aligned", 0, -2, 1, 1, " ")),
             ((6, 2), ("aligned", -6, -2, 0, 0, " ")), ((3, 2), ("aligned", -4, -1, 2, 2, "")),
             ((6, 5), ("aligned", -6, -5, 1, 1, " ")), ((6, 5), ("aligned", -9, -7, 0, 2, " ")),
             ((6, 5), ("aligned", 4, -5, 2, 1, " ")), ((6, 5), ("aligned", -6, 3, 1, 0, " ")),
             ((8, 7), ("aligned", -8, -7, 1, 1, " ")), ((8, 7), ("aligned", -20, -8, 1, 1, " "))]
    for (term, pad), (cls, mode), size in itertools.product(clamp, NEW_CLS, [(1, 1), (2, 1), (2, 2), (3, 3), (7, 1)]):
        for frames, loops, cache, animate in ((1, 1, False, True), (2, 1, False, True), (3, 2, True, True),
                                              (2, 1, False, False)):
            for check, allow in ((True, False), (True, True), (False, False)):
                for row0 in sorted({0, term[1] // 2, term[1] - 1}):
                    cases.append(dict(part="V", api="new", cls=cls, mode=mode, frames=frames, loops=loops, cache=cache,
                                      size=size, pad=pad, term=term, row0=row0, isatty=True, check_size=check,
                                      allow_scroll=allow, animate=animate))
    # ---- a renderable whose render data fixes a per-operation size for an iteration that differs from its
    # nominal render_size (documented extension point `_get_render_data_`): the animation is laid out, validated
    # and its cursor moved for the size in the render data
    for size, isz in (((3, 2), (2, 1)), ((3, 2), (3, 3)), ((2, 2), (1, 3)), ((1, 1), (2, 2)), ((2, 3), (2, 2))):
        for pad in (("exact", 0, 0, 0, 0, " "), ("exact", 1, 1, 1, 2, " "), ("aligned", 0, -2, 1, 1, " "),
                    ("aligned", 5, 4, 2, 0, "")):
            for frames, loops, cache, animate in ((2, 1, False, True), (3, 2, True, True), (3, 2, False, True),
                                                  (2, 1, False, False)):
                for row0, isatty in itertools.product(range(5), (True, False)):
                    if quick and not isatty and row0 not in (0, 4):
                        continue
                    cases.append(dict(part="T", api="new", cls="FitR", mode="plain", frames=frames, loops=loops,
                                      cache=cache, size=size, iter_size=isz, pad=pad, term=(6, 5), row0=row0,
                                      isatty=isatty, animate=animate, allow_scroll=True))
    # subclasses of AlignedPadding (trivial; overriding the `_get_exact_dimensions_` hook) with relative dimensions
    for padcls, (cls, mode), size in itertools.product(("trivial", "thirds"), NEW_CLS, [(2, 2), (1, 1), (3, 1)]):
        for pad in (("aligned", 0, -2, 1, 1, " "), ("aligned", -1, 4, 0, 2, " "), ("aligned", 5, -1, 2, 0, ""),
                    ("aligned", 6, 4, 1, 1, " "), ("aligned", -9, -9, 1, 1, " ")):
            for frames, loops, cache in ((1, 1, False), (2, 2, True), (3, 1, False)):
                for row0 in (0, 2, 4):
                    cases.append(dict(part="T", api="new", cls=cls, mode=mode, frames=frames, loops=loops,
                                      cache=cache, size=size, pad=pad, padcls=padcls, term=(6, 5), row0=row0,
                                      isatty=True, allow_scroll=True))
    # ---- part S: standard output is NOT the active terminal (redirected / another device): every size rule and
    # every terminal-relative dimension refers to the active terminal, whatever fd 1 / COLUMNS x LINES say
    for so_size, term in itertools.product([(80, 24), (3, 2), (12, 9)], [(6, 5)] if quick else [(6, 5), (8, 7)]):
        cols, rows = term
        for isatty in (False, True):
            for (cls, mode) in (NEW_CLS[:1] if quick else NEW_CLS):
                for size in ((1, 1), (2, 2), (cols, 1), (cols + 1, 1), (1, rows), (1, rows + 1), (so_size[0], 1)):
                    for pad in (("aligned", 0, -2, 1, 1, " "), ("aligned", -1, -1, 2, 2, " "), ("exact", 0, 0, 0, 0, " "),
                                ("exact", 1, 0, 1, 1, " "), ("aligned", cols, rows, 0, 0, " ")):
                        for frames, check, allow in ((1, True, False), (1, True, True), (1, False, False),
                                                     (2, True, False)):
                            for row0 in (0, rows - 1):
                                cases.append(dict(part="S", api="new", cls=cls, mode=mode, frames=frames, loops=1,
                                                  cache=False, size=size, pad=pad, term=term, row0=row0,
                                                  isatty=isatty, check_size=check, allow_scroll=allow,
                                                  stdout_size=so_size))
            for style, ident, method in (OLD_COMBOS[:2] if quick else OLD_COMBOS[:3] + OLD_COMBOS[7:8]):
                for size in ((1, 1), (2, 2), (cols, 2), (cols + 1, 1), (1, rows), (1, rows + 1)):
                    for fmt in ((None, 0, None, -2), ("<", -1, "_", -1), (None, cols, None, rows), (None, cols + 1, None, 1),
                                (None, 1, None, rows + 1)):
                        for frames, check, scroll in ((1, True, False), (1, True, True), (1, False, False),
                                                      (2, True, False)):
                            cases.append(dict(part="S", api="old", style=style, ident=ident, method=method,
                                              frames=frames, repeat=1, cached=False, size=size, fmt=fmt, term=term,
                                              row0=0, isatty=isatty, check_size=check, scroll=scroll,
                                              stdout_size=so_size))
        for style, ident, method in OLD_COMBOS[:2]:
            cases.append(dict(part="S", api="old", style=style, ident=ident, method=method, frames=2, repeat=1,
                              cached=False, size=(3, 3), dyn=True, fmt=(None, 0, None, -2), term=term, row0=0,
                              isatty=False, stdout_size=so_size))
    # ---- part V: new API validation table
    vt = (4, 3)
    for w, h in itertools.product(range(1, vt[0] + 2), range(1, vt[1] + 3)):
        for pad in (("exact", 0, 0, 0, 0, " "), ("exact", 1, 0, 0, 0, " "), ("exact", 0, 1, 0, 0, " "),
                    ("exact", 0, 0, 1, 1, " "), ("aligned", 0, -2, 1, 1, " "), ("aligned", vt[0] + 1, 1, 1, 1, " "),
                    ("aligned", 1, vt[1] + 1, 1, 1, " "), ("aligned", -1, 0, 0, 0, ""),
                    ("aligned", -vt[0], -vt[1], 1, 1, " "), ("aligned", -vt[0] - 3, 2, 0, 0, " ")):
            for check, allow in itertools.product((True, False), repeat=2):
                for frames, animate in ((1, True), (2, True), (2, False)):
                    for cls, mode in (NEW_CLS if not quick else NEW_CLS[:1]):
                        cases.append(dict(part="V", api="new", cls=cls, mode=mode, frames=frames, loops=1,
                                          cache=False, size=(w, h), pad=pad, term=vt, row0=0, isatty=True,
                                          check_size=check, allow_scroll=allow, animate=animate))
    # ---- part O: old API geometry
    anims_old = [(1, 1, False), (2, 1, False), (2, 2, True), (3, 2, False)]
    if not quick:
        anims_old = [(1, 1, False), (2, 1, False), (2, 1, True), (2, 2, True), (3, 2, False), (3, 1, True),
                     (3, 2, True)]
    for (style, ident, method), size, term in itertools.product(OLD_COMBOS + KITTY_GATE, sizes, terms):
        for fmt in old_fmts(quick, *size):
            for frames, repeat, cached in anims_old:
                if ident in ("kitty-0.25.1", "kitty-0.25.2", "kitty-0.26") and (frames == 1 or quick and fmt[1] == 0):
                    continue       # the version gate only concerns animations
                if quick and frames == 3 and (method == "whole" or fmt[1] == 0):
                    continue
                for row0 in range(term[1]):
                    if quick and style != "block" and row0 not in (0, 1, term[1] - 2, term[1] - 1):
                        continue
                    for isatty in (True, False):
                        if not isatty and (row0 not in (0, term[1] - 1) or quick and (frames == 3 or fmt[1] != 0)):
                            continue
                        cases.append(dict(part="O", api="old", style=style, ident=ident, method=method, frames=frames,
                                          repeat=repeat, cached=cached, size=size, fmt=fmt, term=term, row0=row0,
                                          isatty=isatty, scroll=True))
    # ---- part K: style-specific draw() parameters (z_index / mix / compress) of the graphics styles, stills
    # and animations: a caller's z-index must not defeat the frame removal of an animation on any kitty version
    kitty_kw = [dict(z_index=5), dict(z_index=-3), dict(mix=True), dict(compress=0), dict(compress=9),
                dict(z_index=7, mix=True, compress=0)]
    iterm_kw = [dict(mix=True), dict(compress=0), dict(compress=9), dict(mix=True, compress=9)]
    for style, ident, method in OLD_COMBOS[1:] + KITTY_GATE:
        for skw in (kitty_kw if style == "kitty" else iterm_kw):
            for size, term in itertools.product([(2, 2), (1, 1)] if quick else [(2, 2), (1, 1), (3, 2), (1, 3)], terms):
                for fmt in ((None, size[0], None, 1), (">", size[0] + 2, "_", size[1] + 1)):
                    for frames, repeat, cached in ((1, 1, False), (2, 1, False), (3, 2, True)):
                        for row0 in sorted({0, term[1] - 2} if quick else {0, 1, term[1] - 2, term[1] - 1}):
                            cases.append(dict(part="K", api="old", style=style, ident=ident, method=method,
                                              frames=frames, repeat=repeat, cached=cached, size=size, fmt=fmt,
                                              term=term, row0=row0, isatty=True, scroll=True, style_kw=skw))
    # ---- part W: old API validation table
    for w, h in itertools.product(range(1, vt[0] + 2), range(1, vt[1] + 3)):
        for pw, ph in itertools.product((0, w, vt[0], vt[0] + 1), (-2, 1, vt[1], vt[1] + 1)):
            for check, scroll in itertools.product((True, False), repeat=2):
                for frames, animate in ((1, True), (2, True), (2, False)):
                    for style, ident, method in (OLD_COMBOS[:1] if quick else (OLD_COMBOS[0], OLD_COMBOS[2], OLD_COMBOS[8])):
                        cases.append(dict(part="W", api="old", style=style, ident=ident, method=method, frames=frames,
                                          repeat=1, cached=False, size=(w, h), fmt=(None, pw, None, ph), term=vt,
                                          row0=0, isatty=True, check_size=check, scroll=scroll, animate=animate))
    # dynamic (unset) size is never rejected and still ends up in place
    for style, ident, method in OLD_COMBOS[:3]:
        for frames, term, row0 in itertools.product((1, 2), terms, (0, 2, 4)):
            for check, scroll in itertools.product((True, False), repeat=2):
                cases.append(dict(part="W", api="old", style=style, ident=ident, method=method, frames=frames, repeat=1,
                                  cached=False, size=(3, 3), dyn=True, fmt=(None, 0, None, -2), term=term, row0=row0,
                                  isatty=True, check_size=check, scroll=scroll))
    # ---- part H: histories - an image with a dynamic size is drawn, the terminal is resized, it is drawn again:
    # never rejected, placed for the size that fits the terminal at that moment, the size setting stays dynamic
    histories = [[dict(op="draw", kw=dict(animate=True))], [dict(op="draw", kw=dict(animate=False))],
                 [dict(op="draw", kw=dict(animate=True)), dict(op="resize", term=(5, 4)),
                  dict(op="draw", kw=dict(animate=True))]]
    for style, ident, method in (OLD_COMBOS[:2] + OLD_COMBOS[7:8] if quick else OLD_COMBOS):
        for pre, (term0, term) in itertools.product(histories, [((8, 7), (6, 5)), ((8, 7), (4, 3)), ((6, 5), (8, 7))]):
            for frames, animate, check in ((2, True, True), (2, False, True), (2, False, False), (3, True, True)):
                for row0 in sorted({0, term[1] - 1}):
                    cases.append(dict(part="H", api="old", style=style, ident=ident, method=method, frames=frames,
                                      repeat=1, cached=False, size=(3, 3), dyn=True, fmt=(None, 0, None, -2),
                                      term0=term0, term=term, pre=pre, row0=row0, isatty=True, check_size=check,
                                      animate=animate))
    # ---- part R: non-default cell ratios x automatically sized images of various aspect ratios (sources wider
    # than, as wide as and narrower than the available area): the automatic size always fits, draw() places it
    for style, ident, method in OLD_COMBOS[:2] + [("block", "kitty", None)]:
        for ratio, term in itertools.product((0.4, 0.5, 1.0), [(6, 5), (8, 7), (12, 8)]):
            for srcpx in ((9, 10), (7, 10), (8, 10), (10, 10), (17, 10), (10, 17), (13, 10)):
                for frames, row0 in itertools.product((1, 2), (0, term[1] - 1)):
                    cases.append(dict(part="R", api="old", style=style, ident=ident, method=method, frames=frames,
                                      repeat=2, cached=False, size=(3, 3), srcpx=srcpx, dyn=True, cell_ratio=ratio,
                                      fmt=(None, 0, None, -2), term=term, row0=row0, isatty=True))
    return cases


def _shard(cases):
    col = _CTX.new_collector()
    for case in cases:
        try:
            run_case(col, case)
        except world.HarnessError:
            raise
        except Exception as e:
            import traceback

            tb = traceback.extract_tb(e.__traceback__)[-1]
            col.violation(dict(api=case["api"], clause="harness-exception", exc=type(e).__name__),
                          f"{type(e).__name__}: {e} at {tb.filename}:{tb.lineno}", case)
        col.inc("draws_" + case["part"])
        if col.evaluations % 499 == 0:
            col.sample(case)
    return col


def run(ctx):
    global _CTX
    _CTX = ctx
    cases = build_cases(ctx.tier)
    only = getattr(ctx, "opts", {}).get("part")
    if only:
        cases = [c for c in cases if c["part"] in only]
    cases = explore.rotate(cases)
    for col in explore.pmap(_shard, cases):
        ctx.merge(col)
    for c in cases[:2]:
        ctx.sample(c)
    if getattr(ctx, "opts", {}).get("dump"):
        import sys

        for k, (cnt, sig, what, rep) in sorted(ctx.violations.items()):
            print(f"{cnt:6d} {k}\n         {what[:260]}\n         {rep}", file=sys.stderr)
    ctx.rule = ("every tuple of the grids N/T (new API: renderable class x size x padding x frames/loops/cache x "
                "terminal x every initial cursor row x tty/hide_cursor/echo_input), O (old API: style x terminal "
                "identity x method x size x format x frames/repeat/cached x terminal x every initial row x tty) and "
                "V/W (validation tables) is one real draw(); distinct = distinct (output stream, initial row, "
                "terminal) triples of accepted draws that fit the terminal width")
    ctx.coverage.update(cases=len(cases), parts=dict(N="new API placement", T="new API tty settings",
                                                     V="new API validation table", O="old API placement",
                                                     W="old API validation table",
                                                     H="old API histories: draw, resize, draw (dynamic size)",
                                                     K="old API style-specific draw() parameters",
                                                     S="stdout is not the active terminal (both APIs)",
                                                     R="cell ratios x automatic size x source aspect ratios"),
                        terminals=sorted({tuple(c["term"]) for c in cases}),
                        old_api_combos=len(OLD_COMBOS) + len(KITTY_GATE))
    ctx.assumptions += ["vterm (vlib/vterm.py, DESIGN appendix A) is the terminal, the tty applies ONLCR",
                        "a frame boundary is the sleep that follows a frame (virtual clock)",
                        "the frame 'drawn alone' is the unpadded str()/format() render of that frame executed on a "
                        "fresh model screen at the documented alignment offset",
                        "ITerm2Image WHOLE renders taller than the terminal on iTerm2/WezTerm are a documented "
                        "limitation: accepted by validation, placement not judged", "PIL"]


def replay(ctx, case):
    run_case(ctx, case)
