"""C07 An interrupted draw() still restores the terminal and the image.

Engine: fault enumeration.  For every configuration of a reduced C06 grid (both APIs, every style /
terminal identity, still and animated, tty settings) the real `draw()` is first run without a fault;
its stream of calls into the environment (every write, flush, virtual sleep and frame render) is the
list of fault points.  Then, for every point k *before draw()'s own clean-up starts* x exception
{KeyboardInterrupt, RuntimeError} x mode {raise instead of the call, raise after it completed, and - for
writes - raise after a prefix of the data was delivered, for every prefix length} x delivery discipline
{the rest of the interrupted write is lost, the rest stays in the stream's buffer}, draw() is executed
again with that single fault.  Besides the unbuffered stdout (write() delivers at once) the buffered
disciplines of world.VStdout are enumerated: "full" (data reaches the terminal at flush(); a fault during
that hand-over delivers any prefix of everything pending) and "line" (a write with a newline hands over).
Configurations include images / renderables whose current frame is not 0 (tell() must survive) and
two-draw histories inside one execution (draw, the tty attributes change, judged draw).

"Before its own clean-up starts" is decided on the payloads of the fault-free run: clean-up is the
maximal trailing run of calls that only emit restoring sequences (newline, cursor-down, SGR reset,
show-cursor, empty strings, flushes); when that run directly follows a write of frame data, the empty
writes / flush completing that print() still belong to drawing.

Oracle (when draw() has returned or raised): cursor visible; SGR default; terminal parser in ground
state with no chunked kitty transmission pending, and a graphics command that was cut by the fault was
terminated with ST before anything else was written; tty attributes byte-identical to before; every
RenderData created is finalized (new API); image size setting, rendered size and current frame
unchanged; KeyboardInterrupt is swallowed by animations and propagated by stills; any other exception
propagates.
"""
from __future__ import annotations

import itertools
import re

from .. import c06_common as cc
from .. import explore, vterm, world
from ..harness import h64

ID = "C07"
LEVEL = "fault_enumeration"

_CTX = None
_CONFIGS = None
_BASE = None
_QUICK = True

EXCS = {"KeyboardInterrupt": KeyboardInterrupt, "RuntimeError": RuntimeError}
CLEANUP_WRITE = re.compile(r"\A(?:\n|\x1b\[\d*B|\x1b\[0?m|\x1b\[\?25h)*\Z")


class Injected(Exception):
    pass


# ------------------------------------------------------------------------------------ baseline
class Base:
    """Fault-free run of one configuration: the fault points and their payloads."""


def baseline(case):
    run = cc.execute(case)
    b = Base()
    b.exc = run.exc
    # calls draw() itself made into the tty device (terminal queries issued by a render): (number, kind)
    b.tty_calls = [(n, kind) for n, kind in run.tty_calls if kind in cc.TTY_IO_CALLS]
    log = list(run.stdout.log)
    data = iter(run.stdout.data)
    pts = []
    for n, kind, payload in log:
        if kind == "write":
            s = next(data) if payload else ""
            if len(s) != payload:
                raise world.HarnessError("C07: write log and delivered data disagree")
            pts.append((n, kind, s))
        else:
            pts.append((n, kind, None))
    b.points = pts
    # what each point hands over to the terminal (None: nothing - e.g. a write into a full buffer) and the
    # text that reached the terminal before it
    buffering = case.get("buffering", "none")
    b.handover, b.before = [], []
    pend, out = [], []
    for n, kind, s in pts:
        h = None
        if kind == "write":
            if buffering == "none":
                h = s
            else:
                pend.append(s)
                if buffering == "line" and "\n" in s:
                    h, pend = "".join(pend), []
        elif kind == "flush" and buffering != "none":
            h, pend = "".join(pend), []
        b.handover.append(h)
        b.before.append(len(out))
        if h:
            out.append(h)
    b.out = out
    # clean-up = maximal trailing run of restoring writes / flushes, from its first non-empty write
    i = len(pts)
    while i > 0 and (pts[i - 1][1] == "flush" or (pts[i - 1][1] == "write" and CLEANUP_WRITE.match(pts[i - 1][2]))):
        i -= 1
    if i > 0 and pts[i - 1][1] == "write":
        # the run begins right after a write of frame data: empty writes / the flush that follow belong
        # to that print() call, clean-up starts at the first restoring sequence
        while i < len(pts) and not (pts[i][1] == "write" and pts[i][2]):
            i += 1
    b.cleanup_start = i             # index into pts
    renders = [j for j, p in enumerate(pts) if p[1] == "render"]
    b.first_render = renders[0] if renders else len(pts)
    b.ok = run.exc is None and run.term.visible and run.term.sgr_default() and run.term.in_ground() \
        and run.attrs_before == run.attrs_after and run.state_before == run.state_after
    return b


def cut_points(case, b, j, reduce_runs):
    """Prefix lengths 1..len-1 of the text handed over at point index j; with *reduce_runs*, only the
    first and the last of every maximal run of cut positions that leave the terminal parser in the same
    state with the same control data (cuts inside one base64 payload / one run of plain text are
    equivalent)."""
    s = b.handover[j]
    if not s or len(s) < 2:
        return []
    if not reduce_runs:
        return list(range(1, len(s)))
    cols, rows = case["term"]
    t = vterm.VTerm(cols, rows, cc.vterm_identity(case.get("ident", "other")), decode_images=False)
    t.r = case["row0"]
    for text in b.out[:b.before[j]]:
        t.feed(text)
    sigs = []
    head, seen_sep, in_str = [], False, False
    for ch in s[:-1]:
        t.feed(ch)
        st = t.state
        if st in (vterm.OSC, vterm.APC, vterm.DCS, vterm.STR_ESC):
            if not in_str:
                in_str, head, seen_sep = True, [], False
            elif not seen_sep and st != vterm.STR_ESC:
                head.append(ch)
                if ch == (";" if t.str_kind == "apc" else ":"):
                    seen_sep = True
            extra = ("".join(head), seen_sep)
        else:
            in_str = False
            extra = "".join(t.buf) if st == vterm.CSI else None
        sigs.append((st, extra, t.pending_kitty is not None, t.visible, t.fg, t.bg, t.attrs))
    keep = []
    for i, sg in enumerate(sigs):          # prefix length i + 1
        if i == 0 or sigs[i - 1] != sg or i == len(sigs) - 1 or sigs[i + 1] != sg:
            keep.append(i + 1)
    return keep


def faults_of(case, b, j, quick):
    """All fault descriptors for point index j (in scope by construction)."""
    n, kind, payload = b.points[j]
    h = b.handover[j]
    buffered_stream = case.get("buffering", "none") != "none"
    out = []
    for exc in EXCS:
        out.append(dict(k=n, mode="instead", exc=exc))
        out.append(dict(k=n, mode="after", exc=exc))
        if h:
            if not buffered_stream:
                out.append(dict(k=n, mode="partial", exc=exc, prefix=0, buffered=True))
            else:                     # nothing reaches the terminal and everything pending is lost
                out.append(dict(k=n, mode="partial", exc=exc, prefix=0, buffered=False))
            for p in cut_points(case, b, j, quick or len(h) > 700):
                out.append(dict(k=n, mode="partial", exc=exc, prefix=p, buffered=False))
                out.append(dict(k=n, mode="partial", exc=exc, prefix=p, buffered=True))
    return out


def tty_fault_points(b, quick):
    """The tty calls of draw()'s terminal queries to put a fault on: every write / drain; of the waiting loop
    of each query (clock, select, read - one read per byte of the reply) every call in thorough, the first
    and the last three in quick (the calls in between repeat the same step of the same loop)."""
    if not quick:
        return list(b.tty_calls)
    out, seg = [], []

    def close():
        out.extend(seg if len(seg) <= 6 else seg[:3] + seg[-3:])
        del seg[:]

    for n, kind in b.tty_calls:
        if kind in ("write", "tcdrain"):
            close()
            out.append((n, kind))
        else:
            seg.append((n, kind))
    close()
    return out


# ------------------------------------------------------------------------------------ one faulted run
def sig_base(case, b, j, fault):
    """Kind of failure: API, still/animated, what was injected where (never the point number or the
    prefix length), and the style / terminal (old API) or renderable class / tty settings (new API)."""
    animation = case["frames"] > 1 and case.get("animate", True)
    if "tty" in fault:
        kind, setup = "tty-" + dict(b.tty_calls)[fault["tty"]], False
    else:
        kind, setup = b.points[j][1], j < b.first_render
    d = dict(api=case["api"], animated=bool(animation), exc=fault["exc"], mode=fault["mode"],
             history="+".join(st["op"] for st in case.get("pre") or ()) or None,
             kind=kind, setup=setup, buffering=case.get("buffering", "none"))
    if case["api"] == "old":
        d.update(style=case["style"], ident=case.get("ident", "other"))
    else:
        d.update(cls=case.get("cls", "TextR"), hide_cursor=case.get("hide_cursor", True),
                 echo_input=case.get("echo_input", False))
    return d


def run_fault(col, case, b, j, fault):
    col.count()
    exc_cls = EXCS[fault["exc"]]
    token = []

    at_fault = {}

    def make():
        # called at the instant of the fault (for a partial write: after the prefix was delivered)
        e = exc_cls("injected by C07") if exc_cls is not KeyboardInterrupt else KeyboardInterrupt()
        token.append(e)
        t = world.W.stdout.term
        at_fault.update(state=t.state, nevents=len(t.events))
        return e

    if "tty" in fault:
        # fault at a call into the tty device made by a terminal query that draw() itself issues
        run = cc.execute(case, tty_fault=(fault["tty"], fault["mode"], make))
        fired = run.tty_fault_fired
        where = f"tty call #{fault['tty']} ({dict(b.tty_calls)[fault['tty']]}) of draw()'s terminal queries"
    else:
        plan = world.FaultPlan(fault["k"], fault["mode"], make, fault.get("prefix"), bool(fault.get("buffered")))
        run = cc.execute(case, plan=plan)
        fired = plan.fired
        where = (f"point #{fault['k']} ({b.points[j][1]}"
                 f"{' ' + repr(b.points[j][2][:24]) if b.points[j][2] else ''})"
                 f"{' after ' + str(fault.get('prefix')) + ' chars' if fault['mode'] == 'partial' else ''}")
    if not fired:
        raise world.HarnessError(f"C07: fault {fault} of {case} did not fire (nondeterministic baseline?)")
    term = run.term
    base = sig_base(case, b, j, fault)
    replay = dict(case=case, fault=fault)
    animation = base["animated"]

    def bad(clause, what):
        col.violation(dict(base, clause=clause), f"{what} [fault: {fault['exc']} {fault['mode']} {where}]", replay)

    col.add_distinct(h64((repr(sorted(case.items())), "".join(run.stdout.data), type(run.exc).__name__)))
    if not term.visible:
        bad("cursor-visible", "cursor left hidden")
    if not term.sgr_default():
        bad("sgr-reset", f"text attributes left set: fg={term.fg} bg={term.bg} attrs={term.attrs}")
    if term.state in (vterm.OSC, vterm.APC, vterm.DCS, vterm.STR_ESC):
        bad("graphics-command-unterminated", f"terminal left inside an unterminated {term.str_kind.upper()} string: "
            "it swallows whatever is written next")
    elif at_fault.get("state") in (vterm.OSC, vterm.APC, vterm.DCS) and any(
            ev[0] == "aborted-string" for ev in term.events[at_fault["nevents"]:]):
        # the cut graphics command was never terminated with ST: the escape sequence written next ran into
        # it (terminals that do not abort a string on ESC keep swallowing).  A cut between the ESC and the
        # backslash of the ST itself (state STR_ESC) is exempt - nothing the library writes can repair that.
        bad("graphics-command-aborted", "the interrupted graphics command was not terminated with ST before "
            "the next escape sequence was written")
    elif not term.in_ground():
        # a cut CSI / ESC swallows at most up to the next final byte; the statement only speaks about
        # graphics-protocol commands - counted, not judged
        col.inc("left_inside_cut_csi")
    if term.pending_kitty is not None:
        bad("kitty-chunk-pending", "a chunked kitty transmission is left open (terminal waits for more chunks)")
    if run.attrs_after != run.attrs_before:
        bad("tty-attrs", f"tty attributes not restored: lflag {run.attrs_before[3]:#o} -> {run.attrs_after[3]:#o}")
    if run.state_after != run.state_before:
        bad("image-state", f"(tell, size...) before {run.state_before} after {run.state_after}")
    if case["api"] == "new":
        datas = run.subject.datas
        if not datas or not all(d.finalized for d in datas):
            bad("render-data-finalized", f"{sum(1 for d in datas if not d.finalized)} of {len(datas)} RenderData "
                "not finalized")
    # ---- how the exception left draw()
    e = run.exc
    if exc_cls is KeyboardInterrupt:
        if animation:
            if e is not None:
                bad("kbi-swallowed", f"animation raised {e!r} on Ctrl-C instead of ending silently")
        elif not isinstance(e, KeyboardInterrupt):
            bad("kbi-propagates", f"still draw() returned/raised {e!r} on Ctrl-C instead of KeyboardInterrupt")
    else:
        chain, x = [], e
        while x is not None and len(chain) < 8:
            chain.append(x)
            x = x.__cause__ or x.__context__
        if not any(x is token[0] for x in chain):
            bad("exception-propagates", f"the injected RuntimeError was swallowed/replaced: draw() gave {e!r}")


# ------------------------------------------------------------------------------------ configurations
def build_configs(tier):
    from .c06 import OLD_COMBOS

    quick = tier == "quick"
    cfgs = []
    term = (6, 5)
    # new API
    news = [("TextR", "plain"), ("ClearR", "sgr")]
    for (cls, mode), frames in itertools.product(news, (1, 2)):
        sizes = [(1, 1), (2, 2)]
        pads = [("exact", 0, 0, 0, 0, " "), ("exact", 1, 1, 1, 1, " ")]
        for size, pad in itertools.product(sizes, pads):
            if quick and (size, pad[1]) in (((1, 1), 1),):
                continue
            for hide, echo, isatty in ((True, False, True), (False, False, True), (True, True, True),
                                       (False, True, True), (True, False, False)):
                if quick and size == (1, 1) and (hide, echo, isatty) != (True, False, True):
                    continue
                for row0 in ((1,) if quick else (1, 4)):
                    cfgs.append(dict(api="new", cls=cls, mode=mode, frames=frames, loops=1, cache=False, size=size,
                                     pad=pad, term=term, row0=row0, isatty=isatty, hide_cursor=hide,
                                     echo_input=echo))
    if not quick:
        for (cls, mode) in news:
            cfgs.append(dict(api="new", cls=cls, mode=mode, frames=2, loops=2, cache=True, size=(2, 2),
                             pad=("aligned", 0, -2, 1, 1, " "), term=term, row0=2, isatty=True))
            cfgs.append(dict(api="new", cls=cls, mode=mode, frames=3, loops=1, cache=False, size=(2, 1),
                             pad=("exact", 1, 0, 0, 1, ""), term=term, row0=4, isatty=True, animate=True))
            cfgs.append(dict(api="new", cls=cls, mode=mode, frames=2, loops=1, cache=False, size=(2, 2),
                             pad=("exact", 0, 1, 0, 0, " "), term=term, row0=0, isatty=True, animate=False, seek=1))
    # old API
    for (style, ident, method), frames in itertools.product(OLD_COMBOS, (1, 2)):
        for size, fmt in (((1, 1), (None, 1, None, 1)), ((2, 2), (None, 2, None, 2)), ((2, 2), (None, 4, None, 3))):
            if quick and method == "whole" and (size == (1, 1) or fmt[1] == 4):
                continue
            for isatty in (True, False):
                if not isatty and (size != (2, 2) or fmt[1] != 4):
                    continue
                for src, dyn in (("pil", False), ("file", False), ("file", True)):
                    if (src, dyn) != (("pil", False) if frames == 1 else ("file", False)):
                        if size != (2, 2) or fmt[1] != 2:
                            continue
                        if quick and not (dyn and method != "whole" and ident in ("other", "kitty", "iterm2")):
                            continue
                    cfgs.append(dict(api="old", style=style, ident=ident, method=method, frames=frames, repeat=1,
                                     cached=False, size=size, fmt=fmt, term=term, row0=1, isatty=isatty, src=src,
                                     dyn=dyn))
        if not quick and frames == 2:
            cfgs.append(dict(api="old", style=style, ident=ident, method=method, frames=2, repeat=2, cached=True,
                             size=(2, 1), fmt=("<", 3, "_", 2), term=term, row0=4, isatty=True, src="file"))
            cfgs.append(dict(api="old", style=style, ident=ident, method=method, frames=2, repeat=1, cached=False,
                             size=(1, 2), fmt=(None, 1, None, 2), term=term, row0=0, isatty=True, src="pil",
                             animate=False, seek=1))
    # ---- a current frame other than 0 before draw(): tell() must survive an interrupted animation / still
    for (cls, mode) in news:
        cfgs.append(dict(api="new", cls=cls, mode=mode, frames=2, loops=1, cache=False, size=(2, 2),
                         pad=("exact", 0, 0, 0, 0, " "), term=term, row0=1, isatty=True, seek=1))
        cfgs.append(dict(api="new", cls=cls, mode=mode, frames=2, loops=1, cache=False, size=(1, 1),
                         pad=("exact", 0, 0, 0, 0, " "), term=term, row0=1, isatty=True, seek=1, animate=False))
        if not quick:
            cfgs.append(dict(api="new", cls=cls, mode=mode, frames=3, loops=2, cache=True, size=(2, 1),
                             pad=("exact", 1, 0, 0, 1, " "), term=term, row0=3, isatty=True, seek=2))
    for style, ident, method in OLD_COMBOS:
        if quick and method == "whole":
            continue
        for src in (("file",) if quick else ("file", "pil")):
            cfgs.append(dict(api="old", style=style, ident=ident, method=method, frames=2, repeat=1, cached=False,
                             size=(1, 1), fmt=(None, 1, None, 1), term=term, row0=1, isatty=True, src=src, seek=1))
        if not quick:
            cfgs.append(dict(api="old", style=style, ident=ident, method=method, frames=3, repeat=2, cached=True,
                             size=(2, 2), fmt=(None, 3, None, 3), term=term, row0=2, isatty=True, src="file", seek=2))
    for style, ident, method in (OLD_COMBOS[:2] if quick else OLD_COMBOS):
        cfgs.append(dict(api="old", style=style, ident=ident, method=method, frames=2, repeat=1, cached=False,
                         size=(1, 1), fmt=(None, 1, None, 1), term=term, row0=1, isatty=True, src="file", seek=1,
                         animate=False))
    # ---- histories inside one execution: a first fault-free draw, then the tty attributes change (the
    # application switches to raw / no-echo input), then the judged draw: the attributes in effect before
    # THAT call are the ones to restore
    for (cls, mode), frames in itertools.product(news, (1, 2)):
        for pre, hide in (([dict(op="draw"), dict(op="attrs", set="raw")], True),
                          ([dict(op="draw"), dict(op="attrs", set="noecho")], False),
                          ([dict(op="attrs", set="raw"), dict(op="draw", kw=dict(echo_input=True)),
                            dict(op="attrs", set="cooked")], True)):
            if quick and cls == "TextR" and pre[-1]["set"] != "raw":
                continue
            cfgs.append(dict(api="new", cls=cls, mode=mode, frames=frames, loops=1, cache=False,
                             size=(1, 1) if quick and cls == "TextR" else (2, 2), pad=("exact", 0, 0, 0, 0, " "),
                             term=term, row0=1, isatty=True, hide_cursor=hide, echo_input=False, pre=pre))
    # ---- renders that query the terminal inside draw(): block images always do (default colours, terminal
    # name); the graphics styles do for alpha="#" (terminal background colour).  Caches are fresh in every execution.
    for (style, ident, method), frames in itertools.product(
            [("block", "xterm", None), ("block", "kitty", None), ("kitty", "kitty", "lines"),
             ("iterm2", "wezterm", "lines"), ("kitty", "konsole", "whole")], (1, 2)):
        cfgs.append(dict(api="old", style=style, ident=ident, method=method, frames=frames, repeat=1, cached=False,
                         size=(1, 1), fmt=(None, 1, None, 1), term=term, row0=1, isatty=True, alpha="#",
                         tty_faults=True,
                         src="pil" if frames == 1 else "file", **({"dyn": True, "seek": 1} if frames == 2 else {})))
    for frames in (1, 2):
        cfgs.append(dict(api="old", style="block", ident="other", method=None, frames=frames, repeat=1, cached=False,
                         size=(2, 1), fmt=(None, 3, None, 2), term=term, row0=1, isatty=True, tty_faults=True,
                         src="pil" if frames == 1 else "file"))
    # ---- buffered stdout (what sys.stdout really is): data reaches the terminal at flush(); a fault during
    # that hand-over delivers any prefix of everything pending
    for (cls, mode), frames in itertools.product(news, (1, 2)):
        for size, pad in (((2, 2), ("exact", 0, 0, 0, 0, " ")), ((2, 2), ("exact", 1, 1, 1, 1, " ")),
                          ((1, 1), ("aligned", 0, -2, 1, 1, " "))):
            if quick and (cls == "TextR" and pad[0] != "aligned" or cls != "TextR" and pad[0] == "aligned"):
                continue
            for buffering in ("full", "line"):
                if buffering == "line" and (quick and (frames == 1 or pad[1] == 1) or not isinstance(pad[1], int)):
                    continue
                cfgs.append(dict(api="new", cls=cls, mode=mode, frames=frames, loops=1, cache=False, size=size,
                                 pad=pad, term=term, row0=1, isatty=True, buffering=buffering))
    if not quick:
        for (cls, mode) in news:
            cfgs.append(dict(api="new", cls=cls, mode=mode, frames=3, loops=2, cache=True, size=(2, 2),
                             pad=("exact", 1, 0, 0, 1, " "), term=term, row0=4, isatty=True, buffering="full",
                             hide_cursor=False, echo_input=True))
    for (style, ident, method), frames in itertools.product(OLD_COMBOS, (1, 2)):
        if quick and (method == "whole") != (ident == "konsole"):
            continue           # quick: LINES everywhere except konsole (WHOLE)
        sizes = (((1, 1), (None, 1, None, 1)),) if quick else (((1, 1), (None, 1, None, 1)), ((2, 2), (None, 4, None, 3)))
        for size, fmt in sizes:
            cfgs.append(dict(api="old", style=style, ident=ident, method=method, frames=frames, repeat=1, cached=False,
                             size=size, fmt=fmt, term=term, row0=1, isatty=True, buffering="full",
                             src="pil" if frames == 1 else "file"))
        if not quick and method != "whole":
            cfgs.append(dict(api="old", style=style, ident=ident, method=method, frames=frames, repeat=1, cached=False,
                             size=(1, 1), fmt=(None, 1, None, 1), term=term, row0=1, isatty=True, buffering="line",
                             src="pil" if frames == 1 else "file"))
    cfgs.append(dict(api="old", style="kitty", ident="kitty", method="lines", frames=2, repeat=1, cached=False,
                     size=(1, 1), fmt=(None, 1, None, 1), term=term, row0=1, isatty=True, cell=(40, 30), compress=0,
                     src="file", buffering="full"))
    # chunked kitty transmissions (payload > 4096 base64 characters): cell of 40x30 px, no compression
    for method, frames in itertools.product(("lines", "whole"), (1, 2)):
        for ident in (("kitty",) if quick else ("kitty", "konsole")):
            cfgs.append(dict(api="old", style="kitty", ident=ident, method=method, frames=frames, repeat=1,
                             cached=False, size=(1, 1), fmt=(None, 1, None, 1), term=term, row0=1, isatty=True,
                             cell=(40, 30), compress=0, src="pil" if frames == 1 else "file"))
    return cfgs


# ------------------------------------------------------------------------------------ driver
def _shard(units):
    col = _CTX.new_collector()
    for ci, j in units:
        case, b = _CONFIGS[ci], _BASE[ci]
        if j < 0:     # the (-j)-th call of draw() into the tty device
            faults = [dict(tty=-j, mode=m, exc=e) for e in EXCS for m in ("instead", "after")]
        else:
            faults = faults_of(case, b, j, _QUICK)
        for fault in faults:
            try:
                run_fault(col, case, b, j, fault)
            except world.HarnessError:
                raise
            except Exception as e:
                import traceback

                tb = traceback.extract_tb(e.__traceback__)[-1]
                col.violation(dict(api=case["api"], clause="harness-exception", exc=type(e).__name__),
                              f"{type(e).__name__}: {e} at {tb.filename}:{tb.lineno}", dict(case=case, fault=fault))
            if col.evaluations % 2003 == 0:
                col.sample(dict(case=case, fault=fault))
        col.inc("fault_points")
    return col


def run(ctx):
    global _CTX, _CONFIGS, _BASE, _QUICK
    _CTX = ctx
    _QUICK = ctx.tier == "quick"
    _CONFIGS = build_configs(ctx.tier)
    only = getattr(ctx, "opts", {}).get("api")
    if only:
        _CONFIGS = [c for c in _CONFIGS if c["api"] == only]
    _BASE = []
    units = []
    out_of_scope = tty_points = 0
    for ci, case in enumerate(_CONFIGS):
        b = baseline(case)
        ctx.count()
        if not b.ok:
            ctx.violation(dict(api=case["api"], clause="baseline", animated=case["frames"] > 1),
                          f"fault-free draw() of {case} does not itself restore the terminal / raised {b.exc!r}",
                          dict(case=case, fault=None))
        _BASE.append(b)
        for j in range(b.cleanup_start):
            units.append((ci, j))
        tcalls = tty_fault_points(b, _QUICK) if (case.get("tty_faults") or not _QUICK) else []
        for n, kind in tcalls:
            units.append((ci, -n))
        tty_points += len(tcalls)
        out_of_scope += len(b.points) - b.cleanup_start
        ctx.max("points_per_draw", len(b.points))
        ctx.max("write_length", max([len(p[2]) for p in b.points if p[2]] or [0]))
    units = explore.rotate(units)
    for col in explore.pmap(_shard, units, chunks_per_proc=8):
        ctx.merge(col)
    ctx.sample(dict(case=_CONFIGS[0], fault=dict(k=1, mode="instead", exc="KeyboardInterrupt")))
    ctx.rule = ("every fault point (write / flush / sleep / frame render) of the fault-free run before clean-up x "
                "{KeyboardInterrupt, RuntimeError} x {instead, after, partial hand-over at every prefix length x "
                "{rest lost, rest buffered}} - the hand-over being the write itself on an unbuffered stdout and "
                "the flush (or the write of a newline, line discipline) of everything pending on a buffered one; " +
                ("prefix lengths that leave the terminal parser in the same state with the same control data "
                 "(inside one base64 payload / one run of plain text) are represented by the first and last of "
                 "the run; " if _QUICK else
                 "every prefix length for writes up to 700 characters, first/last of each parser-equivalent run "
                 "for longer ones (chunked kitty payloads); ") +
                "plus every write / drain / select / read / clock call into the tty device made by the terminal "
                "queries a render issues inside draw() (fresh caches, queries enabled) x {instead, after}; "
                "distinct = distinct (configuration, bytes that reached the terminal, outcome) triples")
    ctx.coverage.update(configurations=len(_CONFIGS), fault_points_in_scope=len(units),
                        tty_query_fault_points=tty_points,
                        cleanup_points_out_of_scope=out_of_scope,
                        exceptions=sorted(EXCS), modes=["instead", "after", "partial/lost", "partial/buffered"])
    ctx.assumptions += ["faults are injected at calls into the environment (write/flush/sleep/render), not between "
                        "arbitrary bytecodes (DESIGN 6)", "vterm is the terminal (ESC inside a sequence aborts it, a "
                        "lone ST is ignored)", "faults at termios calls (tcgetattr / tcsetattr) belong to C13", "PIL"]
    if getattr(ctx, "opts", {}).get("dump"):
        import sys

        for k, (cnt, sig, what, rep) in sorted(ctx.violations.items()):
            print(f"{cnt:6d} {k}\n         {what[:300]}\n         {rep}", file=sys.stderr)


def replay(ctx, rec):
    case, fault = rec["case"], rec.get("fault")
    b = baseline(case)
    if fault is None:
        if not b.ok:
            ctx.violation(dict(api=case["api"], clause="baseline", animated=case["frames"] > 1),
                          f"fault-free draw() does not restore the terminal / raised {b.exc!r}", rec)
        return
    if "tty" in fault:
        run_fault(ctx, case, b, None, fault)
        return
    j = next(i for i, p in enumerate(b.points) if p[0] == fault["k"])
    run_fault(ctx, case, b, j, fault)
