"""C08 A render iterator yields exactly the frames its operation history dictates.

Engine: explicit-state search over operation histories (DESIGN 2.5.3).  A state is the history
that reaches it; every transition replays the history on a FRESH real `RenderIterator` over a fresh
instrumented harness renderable and on a fresh reference model, then applies one more operation to
both and compares: outcome (frame / StopIteration / exception type), the yielded Frame (number,
duration, size, output), `loop`, the renderable's `tell()`, the (offset, whence) pairs an INDEFINITE
source was handed, and - after a rejected operation - that nothing changed.  The search runs to the
FIXPOINT of every configuration (the reachable set is finite under the alphabet), so the length of
the histories is immaterial.

Oracle: `vlib/c08_model.py::Model`, written from the RenderIterator docstrings (DESIGN B.1).

canon (why merged states have the same futures): the key is the pair (implementation canon, model
state).  The implementation canon lists every piece of state that `__next__`, `close`, `seek`,
`set_*` and the suspended `_iterate` generator read: `_closed`; the generator's suspension point
(`f_lineno`) and the locals it uses after resumption (`loop`, `frame_no`, the whole `cache` list with
the cached Frame and its (size, duration, render args) details; `frame_count`/`definite` are constants
of the configuration); the `RenderableData` fields (frame_offset, seek_whence, size, duration,
iteration); `_render_args`, `_padding`, `_padded_size`, `loop`, `_loops`, `_cached`,
`_render_data.finalized`; of the renderable: `tell()` and the stream position of an INDEFINITE source
(frame count, size, stream length are constants; the render counters are write-only).  The terminal
size (changed only by the explicit resize operation) is part of the key.  Two histories with equal keys therefore drive both the real code and the model
through identical futures.  The claim is cross-checked by enumerating ALL histories up to a smaller
depth without merging and walking them against the merged graph (observation and successor state of
every step must be the ones recorded).
"""
from __future__ import annotations

from .. import c08_model as M
from .. import explore, world

ID = "C08"
LEVEL = "model_checking"

_CTX = None
_GRAPHS = {}
# far above what any configuration needs on the unchanged tree (quick: < 8k states, thorough: < 30k); only a
# changed implementation that grows hidden state runs into it - the search then stops expanding new states
# (breadth first: all short histories are done by then) and the run is reported as not exhaustive
MAX_STATES = dict(quick=40000, thorough=150000)


def cfg_of(n, loops, cache, dur0, pad0, profile):
    return dict(n=n, loops=loops, cache=cache, dur0=dur0, pad0=pad0, profile=profile)


def configs(tier):
    """[(cfg, depth of the unmerged cross-check or 0)]"""
    out = []
    if tier == "quick":
        for n in (2, 3):
            for loops in (-1, 1, 2):
                if (n, loops) != (3, 1):
                    out.append((cfg_of(n, loops, False, 100, "E0", "full"), 0))
        out.append((cfg_of(2, 2, 1, "DYN", "Arel", "full"), 0))            # cache=n-1: disabled
        out.append((cfg_of(2, -1, 2, "DYN", "E0", "dur"), 0))              # cache=n: enabled
        out.append((cfg_of(2, 2, 3, 100, "E0", "size"), 0))
        out.append((cfg_of(3, 2, True, 100, "E0", "one"), 0))
        out.append((cfg_of(3, -1, 3, "DYN", "E0", "one"), 0))
        out.append((cfg_of("I3", 1, False, 100, "E0", "small"), 0))
        out.append((cfg_of("I3", 2, True, "DYN", "Arel", "small"), 0))     # loops / cache ignored
        out.append((cfg_of("I4", 1, False, 100, "E0", "tiny"), 0))
        out.append((cfg_of(2, 2, False, 100, "Arel", "resize"), 0))       # terminal resizes x relative paddings
        out.append((cfg_of(2, -1, True, "DYN", "Arel2", "resize"), 0))
        # rarely used entry points: the extension constructor on a pre-seeked renderable; postponed frame counts
        out.append((dict(cfg_of(3, 2, False, 100, "E0", "one"), ctor="frd"), 0))
        out.append((dict(cfg_of(2, 2, True, 100, "Arel", "one"), ctor="frd"), 0))
        out.append((dict(cfg_of("I3", 2, True, 100, "E0", "one"), postponed="unread"), 0))
        out.append((dict(cfg_of(2, 2, True, 100, "E0", "one"), postponed="unread"), 0))
        out.append((dict(cfg_of(2, -1, 2, 100, "E0", "one"), postponed="read", ctor="frd"), 0))
        out.append((cfg_of(2, 2, True, 100, "E0", "tiny"), 3))
        out.append((cfg_of("I3", 1, False, 100, "E0", "tiny"), 3))
        out.append((cfg_of(3, 2, False, 100, "E0", "tiny"), 2))
    else:
        for n in (2, 3):
            for loops in (-1, 1, 2, 3) if n == 2 else (-1, 2):
                for cache in (False, n - 1):
                    for dur0, pad0 in ((100, "E0"), ("DYN", "Arel")):
                        out.append((cfg_of(n, loops, cache, dur0, pad0, "wide"), 0))
        for loops in (1, 3):
            out.append((cfg_of(3, loops, False, 100, "E0", "full"), 0))
        for loops in (-1, 2):
            out.append((cfg_of(4, loops, False, 100, "E0", "full"), 0))
        for loops in (-1, 1, 2, 3):
            for cache in (True, 2, 3):
                out.append((cfg_of(2, loops, cache, 100 if loops != 3 else "DYN", "E0", "small"), 0))
        # (n=3 with the 'small' alphabet and an enabled cache has ~100k states / 4M transitions in ONE configuration,
        #  8+ minutes on one core: covered instead by the five one-dimensional projections below and by 'tiny')
        for loops in (-1, 1, 2, 3):
            for cache, prof in ((True, "tiny"), (3, "dur"), (4, "args"), (True, "size"), (3, "pad")):
                out.append((cfg_of(3, loops, cache, 100, "E0", prof), 0))
        out.append((cfg_of(4, 2, True, 100, "E0", "pad"), 0))    # (4 frames x 'dur' = 68k states in one configuration)
        for loops, cache in ((1, False), (2, True)):
            for dur0 in (100, "DYN"):
                out.append((cfg_of("I3", loops, cache, dur0, "E0" if dur0 == 100 else "Arel", "full"), 0))
        out.append((cfg_of("I4", 1, False, 100, "E0", "small"), 0))
        for n, loops, cache, pad0 in ((2, 2, False, "Arel"), (3, -1, True, "Arel2"), (3, 2, 2, "E0"), ("I3", 1, False, "Arel"),
                                      (2, 3, True, "Arel")):
            out.append((cfg_of(n, loops, cache, 100, pad0, "resize"), 0))
        out.append((cfg_of("I4", 2, True, "DYN", "Arel", "small"), 0))
        for n, loops, cache in ((2, 2, True), (3, -1, False), ("I3", 1, True), ("I4", 2, False)):
            for extra in (dict(ctor="frd"), dict(postponed="unread"), dict(postponed="read", ctor="frd")):
                out.append((dict(cfg_of(n, loops, cache, 100, "E0", "one"), **extra), 0))
        # unmerged cross-checks: depth 4 on the reduced alphabet, depth 3 on a richer one
        out.append((cfg_of(2, 2, True, 100, "E0", "tiny"), 4))
        out.append((cfg_of("I3", 1, False, 100, "E0", "tiny"), 4))
        out.append((cfg_of(3, 2, False, 100, "E0", "tiny"), 4))
        out.append((cfg_of(2, -1, 2, "DYN", "E0", "small"), 3))
        out.append((cfg_of(2, 2, False, 100, "Arel", "full"), 3))
    return out


def cfg_id(cfg):
    return repr(sorted(cfg.items()))


def _explore_shard(items):
    col = _CTX.new_collector()
    graphs = {}
    for cfg, xdepth in items:
        try:
            ex = M.Explorer(cfg, col, record_graph=xdepth > 0, max_states=MAX_STATES[_CTX.tier]).run()
        except world.HarnessError:
            raise
        except Exception as e:      # the real code blew up on a valid configuration / operation
            col.violation(dict(clause="exception", where="exploration", exc=type(e).__name__),
                          f"{type(e).__name__}: {e} while exploring {cfg}", dict(cfg=cfg, history=[], op=["next"]))
            continue
        col.inc("states", ex.states)
        col.inc("transitions", ex.transitions)
        col.max("depth_of_fixpoint", ex.max_depth)
        col.max("states_of_one_configuration", ex.states)
        col.inc("configurations", 1)
        if ex.capped:
            col.notes.add(f"state cap {MAX_STATES[_CTX.tier]} hit: {cfg_id(cfg)}")
        elif xdepth:
            graphs[cfg_id(cfg)] = (ex.key0, ex.graph)
    return col, graphs


def _unmerged_shard(items):
    col = _CTX.new_collector()
    for cfg, depth, first in items:
        key0, graph = _GRAPHS[cfg_id(cfg)]
        ex = M.Explorer(cfg, col, record_graph=True)
        ex.key0, ex.graph = key0, graph
        n = M.unmerged(ex, depth, col, first=first)
        col.inc("unmerged_histories", n)
    return col


def straight_runs(ctx):
    """'exactly loops x frame_count frames are produced absent seeks' - checked directly for more frame
    counts than the searches use: next() until StopIteration, no other operation."""
    M.lib()
    M.ensure_world()
    for n in range(2, 7):
        for loops in (1, 2, 3, 4):
            for cache in (False, True, n - 1, n):
                ctx.count()
                cfg = cfg_of(n, loops, cache, 100, "E0", "tiny")
                im = M.Impl(cfg)
                numbers, loop_values = [], []
                res = None
                for _ in range(loops * n + 2):
                    res, _s = im.apply(("next",))
                    if res[0] != "frame":
                        break
                    numbers.append(res[1])
                    loop_values.append(im.it.loop)
                want = list(range(n)) * loops
                want_loops = [loops - i // n for i in range(loops * n)]
                if numbers != want or res != ("stop",) or im.it.loop != 0 or loop_values != want_loops:
                    ctx.violation(dict(clause="straight-run", what="frames" if numbers != want else "loop-or-end"),
                                  f"n={n} loops={loops} cache={cache}: frames {numbers} then {res}, loop values "
                                  f"{loop_values} -> {im.it.loop}; documented {want} then stop, {want_loops} -> 0",
                                  dict(cfg=cfg, history=[["next"]] * len(numbers), op=["next"]))
                else:
                    ctx.add_distinct(("straight", n, loops, cache))


def run(ctx):
    global _CTX
    _CTX = ctx
    world.load()
    M.lib()
    straight_runs(ctx)
    items = configs(ctx.tier)
    # big configurations first (cached / INDEFINITE / wide alphabets), the seed only rotates within
    items = explore.rotate(items)
    weight = {"small": 5, "full": 3, "wide": 4}
    items.sort(key=lambda it: -(weight.get(it[0]["profile"], 1) * (3 if it[0]["n"] in (3, 4, "I4") else 1)
                                * (10 if (it[0]["profile"], it[0]["n"]) == ("small", 3) else 1)))
    for col, graphs in explore.pmap(_explore_shard, items, chunks_per_proc=len(items)):
        ctx.merge(col)
        _GRAPHS.update(graphs)
    for note in sorted(ctx.notes):
        if note.startswith("state cap"):
            ctx.cap(note)
    work = []
    for cfg, xdepth in items:
        if xdepth and cfg_id(cfg) in _GRAPHS:
            for first in range(len(M.alphabet(cfg))):
                work.append((cfg, xdepth, first))
    if work:
        for col in explore.pmap(_unmerged_shard, work):
            ctx.merge(col)
    ctx.rule = ("distinct = distinct reachable (implementation canon, model state) pairs per configuration; every "
                "transition (one more operation after a full replay of the history on fresh real objects) is one "
                "evaluation, every unmerged history of the cross-check is one more")
    ctx.coverage.update(
        fixpoint=True,
        terminal=list(M.TERM),
        alphabets={k: v for k, v in M.PROFILES.items() if k in {c["profile"] for c, _ in items}},
        seek_offsets="-n-1 .. n+1 for START, CURRENT, END",
        configuration_space="frame count {2,3,4,INDEFINITE(3),INDEFINITE(4)} x loops {-1,1,2,3} x cache "
                            "{False,True,n-1,n,n+1} x duration {static,DYNAMIC} x initial padding {exact, relative}",
        unmerged_crosscheck=[dict(cfg=c, depth=d) for c, d in items if d],
    )
    ctx.assumptions += [
        "the harness renderable (vlib/renderables.py TextR) is a pure function of (frame, size, duration, args) and "
        "implements every seek of an INDEFINITE stream",
        "terminal size 8x6 at the start of every history; it only changes through the explicit resize operation of "
        "the 'resize' profile (8x6 <-> 6x5)",
        "canon soundness as argued in the module docstring, cross-checked by unmerged enumeration",
    ]


def replay(ctx, case):
    cfg = case["cfg"]
    hops = [tuple(o) for o in case["history"]]
    op = tuple(case["op"])
    ctx.count()
    try:
        im, mo = M.replay_ops(cfg, hops)
        obs, viol = M.judge(im, mo, op, cfg, hops)
    except world.HarnessError:
        raise
    except Exception as e:
        ctx.violation(dict(clause="exception", where="exploration", exc=type(e).__name__), f"{type(e).__name__}: {e}", case)
        return
    if viol is not None:
        ctx.violation(viol[0], viol[1], case)
