"""C09 Frame caching is invisible except for speed.

Engine: explicit-state search over operation histories of a PAIR driven in lock step (DESIGN 2.5.3),
to the fixpoint of the pair state; every transition replays the history on fresh real objects.

Part R  RenderIterator(cache=c) vs RenderIterator(cache=False) over two identical harness renderables,
        the C08 alphabet (next, every seek, set_frame_duration / padding / render_args / render_size with
        valid and invalid values, close), c in {True, n-1, n, n+1}, loops in {2, 3, -1}.
        Oracle: identical outcome of every operation (frame number, duration, size, output / StopIteration /
        exception type), identical `loop`; and the no-second-render clause: the harness follows "epochs"
        (an epoch ends when a set_* operation succeeds with a value different from the current one); when
        caching is enabled per the documentation (True or an integer >= frame count) a frame number that
        was already yielded in the current epoch must be yielded again without any `_render_` call.
Part D  Renderable.draw(loops=-1 / 2 / 3, cache=True / n / 100) on the virtual stdout, the infinite animation
        interrupted by Ctrl-C at every output point k (write / flush / sleep) of the first loops: the internal
        iterator must not call `_render_` more often than there are distinct frames.
Part I  ImageIterator(cached=c) vs ImageIterator(cached=False) on a 3-frame GIF for BlockImage / KittyImage
        / ITerm2Image: next, seek(p) (valid and invalid), image-size changes between a fixed size, another
        fixed size and a dynamic (FIT) size, terminal resizes (which change the dynamic size), close.
        (quick: the one configuration with terminal resizes uses a 2-frame GIF, the others a fixed terminal.)
        Oracle: identical outcome, `loop_no`, image `tell()`; additionally every yielded frame equals
        `format()` of an independent twin image seeked to the frame the image reports.

canon: part R - the C08 implementation canon of both iterators + the epoch bookkeeping; part I - closed /
started flags, the generator's suspension point and locals (n, repeat, sent, per-frame cache entry = hash of
the cached string + size hash), `loop_no`, the image's `_size`, `_seek_position`, the terminal size - of
both sides.  Everything the generators and methods read; merged pair states have equal futures.
"""
from __future__ import annotations

import collections
import os
import sys

from .. import c08_model as M
from .. import explore, imgkit, world
from ..harness import h64

ID = "C09"
LEVEL = "model_checking"

_CTX = None
# far above the needs of the unchanged tree (quick < 6k, thorough < 30k states per configuration); see c08.py
MAX_STATES = dict(quick=40000, thorough=150000)
_DEBUG = bool(os.environ.get("VERIF_DEBUG"))


# ====================================================================================== generic BFS
def bfs(build, ops, judge, col, case_of, stats):
    """build(history_ops) -> pair object with .key(); judge(pair, op) -> violation|None (applies op)."""
    p0 = build([])
    key0 = p0.key()
    seen = {key0}
    frontier = collections.deque([((), key0)])
    while frontier:
        h, hkey = frontier.popleft()
        stats["max_depth"] = max(stats.get("max_depth", 0), len(h))
        hops = [ops[i] for i in h]
        pair = None
        for oi, op in enumerate(ops):
            if pair is None:
                pair = build(hops)
            col.count()
            stats["transitions"] = stats.get("transitions", 0) + 1
            viol = judge(pair, op)
            if viol is not None:
                col.violation(viol[0], viol[1], case_of(hops, op))
                pair = None
                continue
            nkey = pair.key()
            if nkey != hkey:
                pair = None
            if nkey not in seen:
                if len(seen) >= stats.get("max_states", 10**9):
                    stats["capped"] = True
                    continue
                seen.add(nkey)
                if _DEBUG and len(seen) % 500 == 0:
                    print(f"[c09] {stats['id'][0]} states={len(seen)} depth={len(h) + 1} transitions={stats['transitions']}",
                          file=sys.stderr)
                frontier.append((h + (oi,), nkey))
                col.add_distinct(h64(repr((stats["id"], nkey))))
                if len(seen) % 1499 == 0:
                    col.sample(case_of(hops, op))
    stats["states"] = len(seen)


# ====================================================================================== part R
class RPair:
    def __init__(self, cfg):
        M.ensure_world()
        self.cfg = cfg
        self.a = M.Impl(cfg)                      # cache as configured
        self.b = M.Impl(cfg, cache=False)         # the uncached twin
        n = cfg["n"]
        self.enabled = (not isinstance(n, str)) and (cfg["cache"] is True or (cfg["cache"] is not False and cfg["cache"] >= n))
        self.cur = dict(dur=cfg["dur0"], pad=cfg["pad0"], args="t0", size=M.SIZE0)
        self.in_epoch = set()                     # frame numbers yielded (hence cached) in this epoch
        self.hits = 0

    def key(self):
        return h64(repr((M.impl_canon(self.a), M.impl_canon(self.b), sorted(self.in_epoch), sorted(self.cur.items()))))

    def apply(self, op):
        """Apply to both; keep the epoch bookkeeping.  Returns (res_a, res_b, renders_a)."""
        r0 = self.a.r.n_render
        ra, sa = self.a.apply(op)
        rb, sb = self.b.apply(op)
        renders = self.a.r.n_render - r0
        return (ra, tuple(sa)), (rb, tuple(sb)), renders

    def bookkeeping(self, op, ra, renders):
        kind = op[0]
        if not self.enabled:          # nothing is demanded of an iterator whose cache is documented to be off
            return
        if ra[0] == "ok" and kind in ("dur", "pad", "args", "size"):
            val = (op[1], op[2]) if kind == "size" else ("t0" if op[1] == "base" else op[1])
            if self.cur[kind] != val:
                self.cur[kind] = val
                self.in_epoch = set()
        elif kind == "next" and ra[0] == "frame":
            self.in_epoch.add(ra[1])


def r_replay(cfg, hops):
    p = RPair(cfg)
    for op in hops:
        (ra, _), _, renders = p.apply(op)
        p.bookkeeping(op, ra, renders)
    return p


def r_judge(p, op):
    name, arg = M.op_sig(op)
    (ra, sa), (rb, sb), renders = p.apply(op)

    def v(clause, what, **kw):
        sig = dict(part="R", clause=clause, op=name, arg=arg)
        sig.update(kw)
        return sig, f"{what} [cfg={p.cfg}, op={op}]"

    if M.res_sig(ra) != M.res_sig(rb):
        return v("outcome-differs", f"cached iterator: {M.res_sig(ra)}, uncached: {M.res_sig(rb)}",
                 cached=M.res_sig(ra), uncached=M.res_sig(rb))
    if ra[0] == "frame":
        for i, field in ((1, "number"), (2, "duration"), (3, "size"), (4, "output")):
            if ra[i] != rb[i]:
                return v("frame-differs", f"frame {field}: cached iterator {ra[i]!r}, uncached {rb[i]!r} "
                         f"(frames {ra[1:4]} / {rb[1:4]})", field=field)
    if p.a.it.loop != p.b.it.loop:
        return v("loop-differs", f"loop: cached {p.a.it.loop}, uncached {p.b.it.loop}")
    if sa != sb:
        return v("seek-handoff-differs", f"INDEFINITE source handed {sa} (cached) vs {sb}")
    if renders > 1:
        return v("multiple-renders", f"{renders} _render_ calls for one operation")
    if op[0] == "next" and ra[0] == "frame" and p.enabled:
        if ra[1] in p.in_epoch:
            if renders:
                return v("cached-frame-rerendered",
                         f"frame {ra[1]} was rendered again although size/duration/args/padding are unchanged since "
                         f"it was last yielded (settings {p.cur})")
            p.hits += 1
    p.bookkeeping(op, ra, renders)
    return None


def r_configs(tier):
    out = []

    def cf(n, loops, cache, dur0, pad0, profile):
        return dict(n=n, loops=loops, cache=cache, dur0=dur0, pad0=pad0, profile=profile)

    if tier == "quick":
        out += [cf(2, 2, True, 100, "E0", "tiny"), cf(2, -1, 2, "DYN", "E0", "dur"), cf(2, 2, 3, 100, "Arel", "args"),
                cf(2, 2, True, 100, "E0", "size"), cf(2, 2, 2, 100, "E0", "pad"),
                cf(2, 2, 1, 100, "E0", "small"),                        # disabled by cache < n
                cf(3, -1, 3, 100, "E0", "one"),
                cf("I3", 2, True, 100, "E0", "tiny"),                  # cache ignored for INDEFINITE
                dict(cf("I3", 2, True, 100, "E0", "one"), postponed="unread"),    # lazily evaluated frame counts
                dict(cf(2, 2, True, 100, "E0", "one"), postponed="unread", ctor="frd")]
    else:
        for loops in (2, -1):
            for cache in (True, 2):
                out.append(cf(2, loops, cache, 100, "E0", "small"))
        for cache, prof in ((True, "tiny"), (3, "dur"), (4, "args"), (True, "size"), (3, "pad"), (True, "one")):
            out.append(cf(3, 2, cache, 100, "E0", prof))
        out.append(cf(3, -1, 3, 100, "E0", "one"))
        out.append(cf(3, -1, True, 100, "E0", "dur"))
        out.append(cf(2, 3, 3, "DYN", "Arel", "small"))
        out.append(cf(3, 3, True, "DYN", "E0", "one"))
        out.append(cf(2, 2, 1, 100, "E0", "wide"))                      # disabled by cache < n
        out.append(cf(3, 2, 2, 100, "E0", "small"))                     # disabled by cache < n
        out.append(cf(4, 2, True, 100, "E0", "pad"))
        out.append(cf(4, -1, 4, 100, "E0", "one"))
        out.append(cf("I3", 2, True, 100, "E0", "small"))               # cache ignored for INDEFINITE
        for n, loops, cache in ((2, 2, True), (3, -1, 3), ("I3", 2, True)):
            for extra in (dict(ctor="frd"), dict(postponed="unread"), dict(postponed="read", ctor="frd")):
                out.append(dict(cf(n, loops, cache, 100, "E0", "one"), **extra))
    return out


def r_explore(col, cfg):
    ops = M.alphabet(cfg)
    stats = dict(id=("R", repr(sorted(cfg.items()))), max_states=MAX_STATES[_CTX.tier if _CTX else "thorough"])
    hits = [0]

    def judge(p, op):
        h0 = p.hits
        v = r_judge(p, op)
        hits[0] += p.hits - h0
        return v

    bfs(lambda hops: r_replay(cfg, hops), ops, judge, col,
        lambda hops, op: dict(part="R", cfg=cfg, history=[list(o) for o in hops], op=list(op)), stats)
    col.inc("cache_hits_checked", hits[0])
    return stats


# ====================================================================================== part I
GIF_PX = (6, 6)
NFRAMES = 3
T1, T2 = (6, 5), (4, 4)
CELL = (2, 3)
IDENT = {"block": "kitty", "kitty": "kitty", "iterm2": "iterm2"}
_twin_memo = {}
_gif_path = []
_world = {}


def gif_path(frames=NFRAMES):
    if not _gif_path:
        _gif_path.append({n: imgkit.gif(*GIF_PX, n) for n in (2, NFRAMES)})
    return _gif_path[0][frames]


def image_world(style):
    """One virtual terminal per (process, style); every build starts at terminal size T1.  The memos the
    library keeps between builds (cell size, colours, terminal identity) are functions of this tty only."""
    if _world.get("style") != style or world.W.tty is not _world.get("tty"):
        _world["tty"] = world.setup(IDENT[style], *T1, cell=CELL)
        _world["style"] = style
    set_term(_world["tty"], T1)
    _world["tty"].ncalls = 0          # the livelock guard of VTty counts per build, not per process
    return _world["tty"]


def set_term(tty, t):
    tty.cols, tty.rows = t
    tty.xpx, tty.ypx = t[0] * CELL[0], t[1] * CELL[1]


def set_img_size(img, s):
    L = world.load()
    if s == "A":
        img.set_size(width=2)
    elif s == "B":
        img.set_size(width=3, height=1)
    else:
        img.size = L.image.Size.FIT           # dynamic: follows the terminal size


# `frame` / `size_hash` / `n_frames` are dead or constant at every suspension point of the generator
_I_LOCALS = {"self", "img", "alpha", "fmt", "style_args", "image", "cached", "repeat", "cache", "sent", "n", "frame",
             "n_frames", "size_hash"}
_I_ATTRS = {"_image", "_repeat", "_format", "_cached", "_loop_no", "_animator", "_img", "_img_is_source"}


class ISide:
    def __init__(self, cfg, cached):
        L = world.load()
        cls = imgkit.style_class(cfg["style"])
        self.img = cls.from_file(gif_path(cfg.get("frames", NFRAMES)))
        set_img_size(self.img, cfg["size0"])
        self.renders = collections.Counter()
        orig = self.img._render_image
        img = self.img

        def counting(*a, **k):
            self.renders[img._seek_position] += 1
            return orig(*a, **k)

        self.img._render_image = counting
        self.it = L.image.ImageIterator(self.img, cfg["repeat"], cfg["spec"], cached)

    def apply(self, op):
        it, img = self.it, self.img
        try:
            if op[0] == "next":
                try:
                    return ("frame", next(it))
                except StopIteration:
                    return ("stop",)
            if op[0] == "seek":
                it.seek(op[1])
            elif op[0] == "size":
                set_img_size(img, op[1])
            elif op[0] == "close":
                it.close()
            return ("ok",)
        except world.HarnessError:
            raise
        except Exception as e:
            return ("raise", type(e).__name__)

    def canon(self):
        it, img = self.it, self.img
        base = (it.loop_no, img._seek_position, repr(img._size))
        gen = getattr(it, "_animator", None)
        if gen is None:
            return ("closed",) + base
        fr = gen.gi_frame
        if fr is None:
            return ("dead",) + base
        loc = fr.f_locals
        cache = loc.get("cache")
        csig = None if cache is None else tuple(
            (None if e[0] is None else h64(e[0]), e[1]) + tuple(M.generic(x) for x in e[2:]) for e in cache)
        # anything a changed implementation adds (new locals / attributes) is captured generically
        extra = [(k, M.generic(v)) for k, v in loc.items() if k not in _I_LOCALS]
        extra += [(k, M.generic(v)) for k, v in it.__dict__.items() if k not in _I_ATTRS]
        return ("open", base, fr.f_lasti < 0, fr.f_lineno, loc.get("n"), loc.get("repeat"), loc.get("sent"),
                loc.get("cached"), csig, tuple(sorted(extra)))


class IPair:
    def __init__(self, cfg):
        self.cfg = cfg
        self.tty = image_world(cfg["style"])
        self.term = T1
        self.a = ISide(cfg, cfg["cached"])
        self.b = ISide(cfg, False)
        self.size = cfg["size0"]

    def key(self):
        return h64(repr((self.a.canon(), self.b.canon(), self.term, self.size)))

    def expected(self, k):
        """format() of an independent twin image at frame k with the current size / terminal."""
        cfg = self.cfg
        mk = (cfg["style"], cfg["spec"], cfg.get("frames", NFRAMES), k, self.size, self.term if self.size == "D" else None)
        if mk not in _twin_memo:
            twin = imgkit.style_class(cfg["style"]).from_file(gif_path(cfg.get("frames", NFRAMES)))
            set_img_size(twin, self.size)
            twin.seek(k)
            _twin_memo[mk] = format(twin, cfg["spec"])
            twin.close()
        return _twin_memo[mk]

    def apply(self, op):
        if op[0] == "resize":
            self.term = T2 if self.term == T1 else T1
            set_term(self.tty, self.term)
            return ("ok",), ("ok",)
        ra, rb = self.a.apply(op), self.b.apply(op)
        if op[0] == "size" and ra == ("ok",):
            self.size = op[1]
        return ra, rb


def i_replay(cfg, hops):
    p = IPair(cfg)
    for op in hops:
        p.apply(op)
    return p


def i_judge(p, op):
    cfg = p.cfg
    ra, rb = p.apply(op)

    def v(clause, what, **kw):
        sig = dict(part="I", clause=clause, op=op[0], style=cfg["style"])
        sig.update(kw)
        return sig, f"{what} [cfg={cfg}, op={op}]"

    if M.res_sig(ra) != M.res_sig(rb):
        return v("outcome-differs", f"cached iterator: {M.res_sig(ra)}, uncached: {M.res_sig(rb)}",
                 cached=M.res_sig(ra), uncached=M.res_sig(rb))
    if ra[0] == "frame" and ra[1] != rb[1]:
        return v("frame-differs", f"cached iterator yields {ra[1][:60]!r}.. ({len(ra[1])} chars), uncached "
                 f"{rb[1][:60]!r}.. ({len(rb[1])} chars); image size {p.size}, terminal {p.term}")
    if p.a.it.loop_no != p.b.it.loop_no:
        return v("loop_no-differs", f"loop_no: cached {p.a.it.loop_no}, uncached {p.b.it.loop_no}")
    if p.a.img.tell() != p.b.img.tell():
        return v("tell-differs", f"image.tell(): cached {p.a.img.tell()}, uncached {p.b.img.tell()}")
    if ra[0] == "frame":
        k = p.b.img.tell()
        if ra[1] != p.expected(k):
            return v("frame-not-format", f"yielded frame differs from format(twin at frame {k}, {cfg['spec']!r}); "
                     f"image size {p.size}, terminal {p.term}")
    return None


def i_ops(alpha="full", frames=NFRAMES):
    n = frames
    if alpha == "fixed-terminal":
        return [("next",), ("close",)] + [("seek", k) for k in (0, n - 1, n)] + [("size", s) for s in ("A", "D")]
    if alpha == "quick":
        return ([("next",), ("close",), ("resize",)] + [("seek", k) for k in (0, n - 1, n)]
                + [("size", s) for s in ("A", "D")])
    return ([("next",), ("close",), ("resize",)] + [("seek", k) for k in (-1, 0, n - 1, n)]
            + [("size", s) for s in ("A", "B", "D")])


def i_configs(tier):
    def cf(style, spec, cached, repeat, size0, alpha="quick"):
        return dict(style=style, spec=spec, cached=cached, repeat=repeat, size0=size0, alpha=alpha)

    if tier == "quick":
        return [dict(cf("block", "1.1", True, 2, "A"), frames=2), cf("block", "1.1", 3, -1, "D", "fixed-terminal"),
                cf("kitty", "1.1+L", True, 2, "D", "fixed-terminal"), cf("iterm2", "1.1+W", 4, -1, "A", "fixed-terminal"),
                # padded frames with non-default alignment on both axes (the re-render paths format again)
                dict(cf("block", "<4._3", True, 2, "A"), frames=2), dict(cf("block", ">4.^3", 2, -1, "D"), frames=2)]
    # the full alphabet (3 sizes, every seek) costs ~130k transitions of ~2 ms: block style only
    out = [cf("block", "1.1", True, 2, "A", "full"), cf("block", "1.1", True, -1, "D", "full"),
           cf("block", "<4._3", True, 2, "A"), cf("block", ">4.^3", True, -1, "D"), cf("kitty", "<4.^3+L", 3, 3, "A"),
           cf("iterm2", ">4._3+W", True, 2, "D")]
    for style, specs in (("block", ["1.1"]), ("kitty", ["1.1+L", "1.1+W"]), ("iterm2", ["1.1+L", "1.1+W"])):
        for spec in specs:
            for cached, repeat, size0 in ((True, 2, "A"), (True, -1, "D"), (3, 3, "A"), (4, 2, "D"), (2, 2, "A"),
                                          (True, 1, "A")):
                if (cached, repeat) in ((2, 2), (True, 1)) and spec.endswith("+W") and style == "kitty":
                    continue
                out.append(cf(style, spec, cached, repeat, size0))
    return out


def i_explore(col, cfg):
    ops = i_ops(cfg["alpha"], cfg.get("frames", NFRAMES))
    stats = dict(id=("I", repr(sorted(cfg.items()))), max_states=MAX_STATES[_CTX.tier if _CTX else "thorough"])
    saved = [0]

    def judge(p, op):
        a0, b0 = sum(p.a.renders.values()), sum(p.b.renders.values())
        v = i_judge(p, op)
        saved[0] += (sum(p.b.renders.values()) - b0) - (sum(p.a.renders.values()) - a0)
        return v

    bfs(lambda hops: i_replay(cfg, hops), ops, judge, col,
        lambda hops, op: dict(part="I", cfg=cfg, history=[list(o) for o in hops], op=list(op)), stats)
    col.inc("image_renders_saved_by_cache", saved[0])
    return stats


# ====================================================================================== part D
def draw_case(case):
    """Renderable.draw() with its internal iterator: animate with the given loops / cache on a virtual stdout and
    interrupt it (Ctrl-C) at the k-th write / flush / sleep.  Returns (renders, distinct frame count n)."""
    lb = M.lib()
    n = case["n"]
    stdout = world.VStdout(None, True, None, record=False)
    clock = world.VClock(stdout)
    world.setup("other", 8, 6, stdout=stdout, clock=clock)
    try:
        r = lb["ns"].make(n, M.SIZE0, 100, cls=lb["DurR"])
        if case["k"]:
            stdout.plan = world.FaultPlan(k=case["k"], mode="instead", exc=KeyboardInterrupt)
        r.draw(loops=case["loops"], cache=case["cache"])
        return r.n_render
    finally:
        world.uninstall()


def draw_judge(case):
    renders = draw_case(case)
    n, cache, loops = case["n"], case["cache"], case["loops"]
    enabled = loops != 1 and (cache is True or (cache is not False and cache >= n))
    if enabled and renders > n:
        return (dict(part="D", clause="cached-frame-rerendered", via="draw", loops="infinite" if loops < 0 else "finite"),
                f"draw(loops={loops}, cache={cache}) on {n} frames, interrupted at output point {case['k']}: {renders} "
                f"_render_ calls for {n} distinct frames (settings never change during a draw) [case={case}]")
    return None


def draw_cases(tier):
    out = []
    for n in (2, 3):
        for cache in (True, n, 100):
            for k in range(1, 61 if tier == "quick" else 121):      # ~5 output points per frame: 4-8 loops
                out.append(dict(n=n, loops=-1, cache=cache, k=k))
            for loops in (2, 3):
                out.append(dict(n=n, loops=loops, cache=cache, k=0))
    return out


def draw_runs(ctx):
    for case in draw_cases(ctx.tier):
        ctx.count()
        try:
            viol = draw_judge(case)
        except world.HarnessError:
            raise
        except Exception as e:
            viol = (dict(part="D", clause="exception", exc=type(e).__name__), f"{type(e).__name__}: {e} [case={case}]")
        if viol is not None:
            ctx.violation(viol[0], viol[1], dict(part="D", case=case))
        else:
            ctx.add_distinct(h64(repr(("D", sorted(case.items())))))
    ctx.inc("draw_runs", len(draw_cases(ctx.tier)))


# ====================================================================================== driver
def _shard(items):
    col = _CTX.new_collector()
    for part, cfg in items:
        try:
            stats = r_explore(col, cfg) if part == "R" else i_explore(col, cfg)
        except world.HarnessError:
            raise
        except Exception as e:
            col.violation(dict(part=part, clause="exception", where="exploration", exc=type(e).__name__),
                          f"{type(e).__name__}: {e} while exploring {cfg}", dict(part=part, cfg=cfg, history=[], op=["next"]))
            continue
        if stats.get("capped"):
            col.notes.add(f"state cap {stats['max_states']} hit: {part} {cfg}")
        col.inc("states", stats["states"])
        col.inc("transitions", stats["transitions"])
        col.inc(f"states_part_{part}", stats["states"])
        col.inc(f"transitions_part_{part}", stats["transitions"])
        col.max("depth_of_fixpoint", stats["max_depth"])
        col.inc("configurations", 1)
    return col


def run(ctx):
    global _CTX
    _CTX = ctx
    world.load()
    M.lib()
    gif_path()                            # created before forking, shared by the workers
    M.CANON_IDENTITY = ctx.tier == "quick"   # (inherited by the forked workers)
    draw_runs(ctx)
    items = [("I", c) for c in i_configs(ctx.tier)] + [("R", c) for c in r_configs(ctx.tier)]
    items = explore.rotate(items)
    big = {"small": 5, "full": 2, "wide": 3}
    items.sort(key=lambda it: -((20 if it[1]["alpha"] == "full" else 4) if it[0] == "I" else big.get(it[1]["profile"], 1)))
    for col in explore.pmap(_shard, items, chunks_per_proc=len(items)):
        ctx.merge(col)
    world.uninstall()
    for note in sorted(ctx.notes):
        if note.startswith("state cap"):
            ctx.cap(note)
    ctx.rule = ("distinct = distinct reachable pair states (cached iterator, uncached iterator, epoch bookkeeping / "
                "image size / terminal) per configuration; every transition (one more operation after a full replay "
                "of the history on two fresh real iterators) is one evaluation")
    ctx.coverage.update(
        fixpoint=True,
        part_R=dict(alphabets={k: v for k, v in M.PROFILES.items() if k in {c["profile"] for p, c in items if p == "R"}},
                    seek_offsets="-n-1 .. n+1 for START, CURRENT, END", configurations=[c for p, c in items if p == "R"]),
        part_I=dict(ops={a: [list(o) for o in i_ops(a)] for a in sorted({c['alpha'] for p, c in items if p == 'I'})},
                    frames_note='3 frames unless a configuration says frames=2', gif=f"{GIF_PX[0]}x{GIF_PX[1]} px",
                    terminals=[list(T1), list(T2)], sizes=dict(A="width=2", B="3x1", D="Size.FIT (dynamic)"),
                    configurations=[c for p, c in items if p == "I"]),
    )
    ctx.assumptions += [
        "harness renderable is a pure function of (frame, size, duration, args); PIL decodes the GIF deterministically",
        "'settings unchanged' is read as: no set_* operation succeeded with a value different from the current one "
        "since the frame was last yielded",
        "virtual terminal (world.VTty) answers cell-size / identity queries; cell size constant 2x3 px",
    ]


def replay(ctx, case):
    if case["part"] == "D":
        ctx.count()
        viol = draw_judge(case["case"])
        if viol is not None:
            ctx.violation(viol[0], viol[1], case)
        return
    part, cfg = case["part"], case["cfg"]
    hops = [tuple(o) for o in case["history"]]
    op = tuple(case["op"])
    ctx.count()
    try:
        if part == "R":
            viol = r_judge(r_replay(cfg, hops), op)
        else:
            viol = i_judge(i_replay(cfg, hops), op)
    except world.HarnessError:
        raise
    except Exception as e:
        ctx.violation(dict(part=part, clause="exception", where="exploration", exc=type(e).__name__),
                      f"{type(e).__name__}: {e}", case)
        return
    finally:
        world.uninstall()
    if viol is not None:
        ctx.violation(viol[0], viol[1], case)
