"""C10 Render data is finalized exactly once and never used afterwards.

Engine: explicit-state search over histories of (operation, fault) pairs (DESIGN 2.5.3) on a fresh
instrumented harness renderable, to the FIXPOINT of every configuration; every transition replays the
history on fresh real objects.  Operations: render(), str(), draw() still, draw() animated (loops 1 / 2,
virtual stdout + virtual sleep), RenderIterator(...) (loops, cache), `_from_render_data_` with caller-made
data and finalize=True / False (re-using the caller's data when it is still alive), the same with stale
(already finalized) data, next, seek (valid / out of range), set_render_size, close (again), drop the
reference + gc, the caller finalizing its own data (twice).

Also: every entry point with render arguments of an unrelated render class (must fail without leaking data).

Faults are not bounded by a global index k: a fault is a *choice at the operation* ("the j-th `_render_`
/ `_get_render_data_` call made inside this operation raises X", j over every call the operation makes;
"the size validation of this draw fails" = the terminal is too small while it runs; "the j-th terminal-size
query of `_init_render_` raises OSError / KeyboardInterrupt"; with stdout_faults: "the j-th write / flush / sleep
of this draw on the virtual stdout fails, instead of or after taking effect", closing sequence included), with a budget of 1
(quick) / 2 (thorough) faults per history.  Since the search runs to the fixpoint, every global position
k of the fault in every history is covered.  X in {RenderError, StopIteration, AttributeError,
KeyboardInterrupt} (thorough: + ValueError, SystemExit).  Configurations: definite 2 / 3 / 4 frames,
INDEFINITE streams of 2 / 3 / 4 frames, a non-animated renderable, stdout a tty or not.

Oracle (per data object; the harness renderable keeps a strong reference to every RenderData it ever
created, so `__del__` can never stand in for a missing explicit finalization):
  * `_finalize_render_data_` runs at most once per object, always;
  * exactly once as soon as the owning operation has returned or raised (render/str/draw), or the owning
    iterator is exhausted / closed / failed with an Exception / dropped and collected;
  * never for data the caller kept ownership of (finalize=False) until the caller finalizes it; data
    that could not be handed over (constructor raised) is left alone;
  * no `_render_` call ever sees `render_data.finalized`;
  * after exhaustion, close() or an Exception out of next(): next() stops, seek / set_render_size raise
    FinalizedIteratorError, close() stays silent;  finalize() of the caller is idempotent.
  After a KeyboardInterrupt (a BaseException) out of next() only the "at most once / eventually" clauses
  are demanded (the statement speaks of errors).

canon: the C08 implementation canon of the current iterator (+ `_finalize_data`, whether it works on the
caller's data), the caller data's status, the expectation flags, the fault budget, and the multiset of
data objects that are not yet settled (owner kind, finalize count, expected count).  Settled objects
(one-shot / closed-iterator data finalized exactly once) are referenced by nothing but the log.
"""
from __future__ import annotations

import collections
import gc
import sys

from .. import c08_model as M
from .. import explore, world
from ..harness import h64

ID = "C10"
LEVEL = "model_checking"

_CTX = None
_FROZEN = False
_TTY = {}
MAX_STATES = 60000      # the unchanged tree needs < 4k states per configuration
_DEBUG = bool(__import__("os").environ.get("VERIF_DEBUG"))
TERM = (6, 5)
EXCS = ("RenderError", "StopIteration", "AttributeError", "KeyboardInterrupt")


EXCS_MORE = EXCS + ("ValueError", "SystemExit")


def exc_of(name):
    if name == "RenderError":
        return world.load().renderable.RenderError("injected")
    return {"StopIteration": StopIteration, "AttributeError": AttributeError, "ValueError": ValueError,
            "KeyboardInterrupt": KeyboardInterrupt, "SystemExit": SystemExit, "OSError": OSError}[name]("injected")


def fault_sig(fault):
    """(fault kind, exception) for a violation signature - no positions."""
    if fault is None:
        return None, None
    if fault[0] == "stdout":
        return "stdout-" + fault[2], fault[3]
    return fault[0], (fault[2] if len(fault) > 2 else None)


def op_name(op):
    if op[0] in ("drawa", "drawx"):
        return "draw"
    if op[0] == "badargs":
        return "incompatible-args:" + op[1]
    if op[0] == "initr":
        return "_init_render_:" + ("iteration" if op[1] else "render")
    return op[0]


_fin = {}


def fin_cls():
    """Harness renderable whose `_finalize_render_data_` hook is a fault point: the hook does its work (it is
    logged) and THEN raises when armed - 'releasing a resource failed'."""
    if not _fin:
        ns = M.lib()["ns"]

        class FinR(ns.TextR):
            @classmethod
            def _finalize_render_data_(cls, render_data):
                owner = ns.owners.get(id(render_data))
                super()._finalize_render_data_(render_data)
                if owner is not None:
                    owner.n_finalize = getattr(owner, "n_finalize", 0) + 1
                    if owner.fault:
                        e = owner.fault("finalize", owner.n_finalize)
                        if e is not None:
                            raise e

        _fin["cls"] = FinR
    return _fin["cls"]


_PADHOOK = [None]
_pads = {}


def pads():
    """Harness paddings: every call the library makes into the padding object (resolve, get_padded_size,
    _get_exact_dimensions_, pad) is a fault point."""
    if not _pads:
        P = M.lib()["P"]

        def point():
            if _PADHOOK[0] is not None:
                _PADHOOK[0]()

        def wrap(base, names):
            ns = {"__slots__": ()}
            for name in names:
                def method(self, *a, _name=name, **k):
                    point()
                    return getattr(base, _name)(self, *a, **k)
                ns[name] = method
            return type("Fault" + base.__name__, (base,), ns)

        _pads["A"] = wrap(P.AlignedPadding, ("resolve", "get_padded_size", "_get_exact_dimensions_", "pad"))
        _pads["E"] = wrap(P.ExactPadding, ("get_padded_size", "_get_exact_dimensions_", "pad"))
    return _pads


class Shim:
    def __init__(self, r, it):
        self.r, self.it = r, it


class Scn:
    """One history on fresh real objects + the ownership bookkeeping of the oracle."""

    def __init__(self, cfg):
        lb = M.lib()
        R = lb["R"]
        self.cfg = cfg
        self.stdout = world.VStdout(None, cfg.get("tty", True), None, record=False)
        self.clock = world.VClock(self.stdout)
        # one virtual tty per process (no operation here touches library-wide settings); a fresh virtual
        # stdout / clock per history
        tty = _TTY.get("tty")
        if tty is None or world.W.tty is not tty:
            tty = _TTY["tty"] = world.setup("other", *TERM, stdout=self.stdout, clock=self.clock)
        else:
            tty.cols, tty.rows = TERM
            tty.ncalls = 0
            tty.attrs = world.default_attrs()
            world.install(tty, self.stdout, self.clock)
        self.tty = tty
        n = cfg["n"]
        if isinstance(n, str):
            self.r = lb["ns"].make(R.FrameCount.INDEFINITE, M.SIZE0, 100, stream_len=int(n[1:]), cls=fin_cls())
        else:
            self.r = lb["ns"].make(n, M.SIZE0, 100, cls=fin_cls())
        self.it = None
        self.it_state = None        # None | "open" | "closed" | "zombie" (expected, from the history)
        self.gen = 0                # generation of the current iterator
        self.it_data = None         # index into r.datas of the data the iterator works on
        self.cd = None              # index of the caller-made data currently in the caller's hands
        self.rec = {}               # data index -> dict(kind= oneshot | failed-ctor | iter | caller,
                                    #   owner= "caller" | generation of the owning iterator, caller_fin=bool)
        self.budget = cfg["faults"]
        self.fired = False
        self.calls = (0, 0, 0, 0, 0, 0)

    # ---------------------------------------------------------------- fault plumbing
    def arm(self, fault):
        r = self.r
        base = dict(render=r.n_render, getdata=r.n_getdata, finalize=getattr(r, "n_finalize", 0))
        self.fired = False
        if fault is None or fault[0] in ("validate", "stdout", "termsize", "padding"):
            r.fault = None
            return

        kind, j, exc = fault

        def hook(k, n):
            if not self.fired and k == kind and n - base[k] == j:
                self.fired = True
                return exc_of(exc)
            return None

        r.fault = hook

    # ---------------------------------------------------------------- operations
    def enabled(self, op):
        k = op[0]
        if k in ("next", "seek0", "seekbad", "size", "close", "drop"):
            return self.it is not None
        if k == "cdfin":       # the caller never finalizes data an open iterator of his still works on
            return self.cd is not None and not (self.it is not None and self.it_data == self.cd
                                                and self.it_state in ("open", "zombie"))
        if k == "frd_stale":
            return self.cd is not None and self.r.datas[self.cd].finalized
        return True

    def drop_iterator(self):
        if self.it is not None:
            self.it = None
            gc.collect()
            self.it_state = None
            self.it_data = None

    def apply(self, op, fault=None):
        """Returns the outcome ("ok"|"stop"|"frame"|"raise", name?)."""
        lb = M.lib()
        r = self.r
        k = op[0]
        n0 = len(r.datas)
        r0, g0 = r.n_render, r.n_getdata
        self.arm(fault)
        p0 = self.stdout.npoints
        if fault is not None and fault[0] == "validate":
            self.tty.cols, self.tty.rows = 1, 1
            self.fired = True
        if fault is not None and fault[0] == "stdout":     # the j-th write / flush / sleep of this operation fails
            self.stdout.plan = world.FaultPlan(k=p0 + fault[1], mode=fault[2],
                                               exc={"KeyboardInterrupt": KeyboardInterrupt, "OSError": OSError}[fault[3]])
        # the terminal-size query of `_init_render_` (module global of _renderable) is a fault point too:
        # patched around the operation only
        RM = lb["L"]._renderable
        real_gts = RM.get_terminal_size
        ncalls = [0]

        def gts():
            ncalls[0] += 1
            if fault is not None and fault[0] == "termsize" and ncalls[0] == fault[1] and not self.fired:
                self.fired = True
                raise exc_of(fault[2])
            return real_gts()

        RM.get_terminal_size = gts
        dpad = pads()["A"](0, -2)       # = the default padding of draw(), with fault points
        npad = [0]

        def padpoint():
            npad[0] += 1
            if fault is not None and fault[0] == "padding" and npad[0] == fault[1] and not self.fired:
                self.fired = True
                raise exc_of(fault[2])

        _PADHOOK[0] = padpoint
        f0 = getattr(r, "n_finalize", 0)
        fin_fault = fault is not None and fault[0] == "finalize"
        old_unraisable = sys.unraisablehook
        if fin_fault:                # a hook failing inside __del__ is reported by the interpreter, not raised
            sys.unraisablehook = lambda *a: None
        out = ("ok",)
        try:
            if k == "render":
                r.render()
            elif k == "str":
                str(r)
            elif k == "draw":
                r.draw(None, dpad, animate=False)
            elif k == "drawa":
                r.draw(None, dpad, loops=op[1], cache=op[2])
            elif k == "badargs":            # render arguments of an unrelated render class: every entry point
                bad = lb["args"]["bad"]
                if op[1] == "render":
                    r.render(bad)
                elif op[1] == "draw":
                    r.draw(bad, animate=False)
                elif op[1] == "drawa":
                    r.draw(bad, loops=1)
                elif op[1] == "iter":
                    lb["RI"](r, bad)
                else:                       # _from_render_data_: the caller keeps his data
                    r.fault = None
                    data = r._get_render_data_(iteration=True)
                    self.rec[len(r.datas) - 1] = dict(kind="caller", owner="caller", caller_fin=False)
                    n0 = len(r.datas)
                    try:
                        lb["RI"]._from_render_data_(r, data, bad, finalize=False)
                    finally:
                        gc.collect()
                        early = data.finalized          # the library must leave the caller's data alone
                        data.finalize()
                        self.rec[n0 - 1]["caller_fin"] = not early
            elif k == "initr":
                # a custom operation of an extension: `_init_render_(renderer, iteration=, finalize=)` called
                # directly; finalize=True -> finalized once as soon as the renderer is over, finalize=False and
                # the renderer succeeded -> the caller keeps the data (and finalizes it himself, afterwards)
                def renderer(data, args, _raise=op[3]):
                    if _raise:
                        raise exc_of("OSError")
                    return None

                keep = None
                try:
                    r._init_render_(renderer, iteration=op[1], finalize=op[2])
                    if not op[2]:
                        keep = len(r.datas) - 1
                finally:
                    if keep is not None and keep >= n0:
                        early = r.datas[keep].finalized
                        r.datas[keep].finalize()
                        self.rec[keep] = dict(kind="caller", owner="caller", caller_fin=not early)
            elif k == "drawx":
                if op[1] == "nocheck":
                    r.draw(None, dpad, animate=False, check_size=False)
                elif op[1] == "scroll":
                    r.draw(None, dpad, animate=False, allow_scroll=True)
                elif op[1] == "exactpad":
                    r.draw(None, pads()["E"](1, 0, 1, 0), animate=False)
                else:
                    r.draw(None, dpad, animate=False, echo_input=True, hide_cursor=False)
            elif k == "iter":
                self.drop_iterator()
                self.it_data = None
                self.gen += 1
                self.it = lb["RI"](r, None, pads()["E"](), op[1], op[2])
                self.it_state, self.it_data = "open", len(r.datas) - 1
            elif k in ("frd", "frd_stale"):
                self.drop_iterator()
                self.it_data = None
                self.gen += 1
                if k == "frd" and (self.cd is None or r.datas[self.cd].finalized):
                    r.fault = None      # the caller's own call is not a fault point of the library
                    r._get_render_data_(iteration=True)
                    self.cd = len(r.datas) - 1
                    self.rec[self.cd] = dict(kind="caller", owner="caller", caller_fin=False)
                    n0 = len(r.datas)
                    self.arm(fault)
                # frd_stale: already finalized caller data, with finalize=True and (op[1] == 0) finalize=False
                finalize = bool(op[1]) if len(op) > 1 else True
                self.it = lb["RI"]._from_render_data_(r, r.datas[self.cd], None, pads()["E"](), op[2] if k == "frd" else 1,
                                                      False, finalize=finalize)
                self.it_state, self.it_data = "open", self.cd
                if finalize:
                    self.rec[self.cd]["owner"] = self.gen
            elif k == "next":
                try:
                    next(self.it)
                    out = ("frame",)
                except StopIteration:
                    out = ("stop",)
                    self.it_state = "closed"
            elif k == "seek0":
                self.it.seek(0)
            elif k == "seekbad":
                self.it.seek(99)
            elif k == "size":
                self.it.set_render_size(lb["Size"](1, 1))
            elif k == "close":
                self.it.close()
                self.it_state = "closed"
            elif k == "drop":
                self.drop_iterator()
            elif k == "cdfin":
                self.rec[self.cd]["caller_fin"] = True
                r.datas[self.cd].finalize()
            else:
                raise world.HarnessError(f"unknown op {op!r}")
        except world.HarnessError:
            raise
        except BaseException as e:
            out = ("raise", type(e).__name__)
            if k == "next" and self.it_state == "open":
                self.it_state = "closed" if isinstance(e, Exception) else "zombie"
            del e
            if k == "frd" and op[1] and self.cd is not None and self.rec[self.cd]["owner"] == "caller":
                # handed over with finalize=True to a constructor that failed: who owns it is not specified
                self.rec[self.cd]["owner"] = "unspecified"
            if k in ("iter", "frd", "frd_stale", "badargs"):
                gc.collect()         # a half-built iterator is garbage now: it must release what it owns
        finally:
            RM.get_terminal_size = real_gts
            _PADHOOK[0] = None
            sys.unraisablehook = old_unraisable
            r.fault = None
            if fault is not None and fault[0] == "validate":
                self.tty.cols, self.tty.rows = TERM
            if fault is not None and fault[0] == "stdout":
                self.fired = self.stdout.plan.fired
                self.stdout.plan = None
        if fin_fault and self.fired and self.it is not None and k in ("next", "close"):
            # close() was cut short by the failing hook: nothing about the iterator's state is demanded any more
            self.it_state = "zombie"
        self.calls = (r.n_render - r0, r.n_getdata - g0, self.stdout.npoints - p0, ncalls[0],
                      getattr(r, "n_finalize", 0) - f0, npad[0])
        # data objects the library created inside this operation
        for i in range(n0, len(r.datas)):
            if k == "iter":
                self.rec[i] = dict(kind="iter", owner=self.gen) if self.it_data == i else dict(kind="failed-ctor")
            elif k == "badargs" and op[1] in ("iter", "frd"):
                self.rec[i] = dict(kind="failed-ctor")
            elif k == "initr" and i in self.rec and self.rec[i].get("kind") == "caller":
                pass
            else:
                self.rec[i] = dict(kind="oneshot")
        return out

    # ---------------------------------------------------------------- oracle
    def fin_counts(self):
        c = collections.Counter()
        for e in self.r.log:
            if e[0] == "finalize":
                c[e[1]] += 1
        return c

    def expected(self, i):
        """Expected number of finalizations of data i now; None = only 'at most once'."""
        rec = self.rec.get(i)
        if rec is None:
            return None
        if rec["kind"] in ("oneshot", "failed-ctor"):
            return 1                                    # its operation is over
        if rec["owner"] == "unspecified":
            return None                                 # at most once
        if rec["owner"] == "caller":
            return 1 if rec["caller_fin"] else 0        # the caller kept ownership
        if rec["owner"] != self.gen or self.it is None:
            return 1                                    # the owning iterator was dropped and collected
        return {"open": 0, "closed": 1, "zombie": None}[self.it_state]

    def check(self, op, fault, out):
        """Violation (signature, what) or None."""
        fk, fe = fault_sig(fault)

        def v(clause, what, **kw):
            sig = dict(clause=clause, op=op_name(op), fault=fk, exc=fe)
            sig.update(kw)
            return sig, f"{what} [cfg={self.cfg}, op={op}, fault={fault}]"

        for e in self.r.log:
            if e[0] == "render-after-finalize":
                return v("render-with-finalized-data", "a frame was rendered with already finalized render data")
        counts = self.fin_counts()
        for i in range(len(self.r.datas)):
            c = counts.get(i, 0)
            kind = self.rec.get(i, {}).get("kind", "?")
            if c > 1:
                return v("finalized-twice", f"render data #{i} ({kind}) was finalized {c} times", owner=kind)
            want = self.expected(i)
            if want is not None and c != want:
                if want == 1:
                    return v("not-finalized", f"render data #{i} ({kind}) is not finalized although its operation / "
                             f"iterator is over (outcome of the operation: {out})", owner=kind)
                return v("finalized-early", f"render data #{i} ({kind}) was finalized although its owner "
                         f"({'the caller' if self.rec[i].get('owner') == 'caller' else 'an open iterator'}) "
                         f"still holds it", owner=kind)
            if bool(c) != bool(self.r.datas[i].finalized):
                return v("finalized-flag", f"render data #{i}: finalized={self.r.datas[i].finalized} after {c} finalizations")
        return None

    def check_outcome(self, op, fault, out, state_before):
        k = op[0]
        fk, fe = fault_sig(fault)

        def v(clause, what, **kw):
            sig = dict(clause=clause, op=op_name(op), fault=fk, exc=fe)
            sig.update(kw)
            return sig, f"{what} [cfg={self.cfg}, op={op}, fault={fault}]"

        if fault is not None and fault[0] == "finalize":
            return None          # only the data-level clauses (hook ran at most once, flag set) are demanded
        if state_before == "closed":
            if k == "next" and out != ("stop",):
                return v("closed-next", f"next() on a finished iterator: {out}", got=M.res_sig(out))
            if k in ("seek0", "seekbad", "size") and out != ("raise", "FinalizedIteratorError"):
                return v("closed-control", f"{k} on a finished iterator: {out}, expected FinalizedIteratorError",
                         got=M.res_sig(out))
            if k == "close" and out != ("ok",):
                return v("close-not-idempotent", f"close() on a finished iterator: {out}", got=M.res_sig(out))
        if self.it is not None and self.it_state == "closed" and not self.it._closed:
            return v("not-closed", f"the iterator is not closed after {k} -> {out}")
        if k == "cdfin" and out != ("ok",):
            return v("finalize-not-idempotent", f"RenderData.finalize(): {out}", got=M.res_sig(out))
        if k == "badargs" and out != ("raise", "IncompatibleRenderArgsError") and not (
                self.cfg["n"] == 1 and op[1] in ("iter", "frd") and out == ("raise", "ValueError")):   # not animated
            return v("incompatible-args-accepted", f"incompatible render args: {out}", got=M.res_sig(out))
        if k == "frd_stale" and out != ("raise", "ValueError"):
            return v("stale-data-accepted", f"_from_render_data_ with finalized data: {out}", got=M.res_sig(out))
        if not self.fired and out[0] == "raise" and not (
                (k == "seekbad" and out[1] == "ValueError") or k in ("frd_stale", "badargs")
                or (k == "initr" and op[3] and out[1] == "OSError")        # the harness's own renderer raised it
                or (state_before in ("closed", "zombie") and k in ("next", "seek0", "seekbad", "size", "close"))
                or (self.cfg["n"] == 1 and k in ("iter", "frd") and out[1] == "ValueError")):   # not animated
            return v("exception", f"{k} raised {out[1]} without any fault", got=M.res_sig(out))
        return None

    def key(self):
        counts = self.fin_counts()
        unsettled = []
        for i in range(len(self.r.datas)):
            rec = self.rec.get(i, {})
            c = counts.get(i, 0)
            live = i == self.it_data or i == self.cd
            want = self.expected(i)
            if live or not (c == 1 and want in (1, None)):
                owner = rec.get("owner")
                unsettled.append((rec.get("kind"), owner if owner in (None, "caller", "unspecified") else owner == self.gen,
                                  rec.get("caller_fin"), c, want, i == self.it_data, i == self.cd))
        itc = None
        if self.it is not None:
            try:
                itc = (M.impl_canon(Shim(self.r, self.it)), self.it._finalize_data)
            except AttributeError:       # an iterator whose close() was cut short (no `_iterator` any more)
                itc = ("broken", self.it._closed, sorted(k for k in self.it.__dict__))
        return h64(repr((itc, self.it_state, self.budget, sorted(unsettled, key=repr), self.r.stream_pos, self.r.tell())))


def ops_of(cfg):
    ops = [("render",), ("str",), ("draw",), ("drawa", 1, False), ("drawa", 2, True),
           ("iter", 1, False), ("iter", 2, True), ("frd", 1, 1), ("frd", 0, 2), ("frd_stale", 1), ("frd_stale", 0),
           ("next",), ("seek0",), ("seekbad",), ("size",), ("close",), ("drop",), ("cdfin",),
           ("badargs", "render"), ("badargs", "draw"), ("badargs", "drawa"), ("badargs", "iter"), ("badargs", "frd")]
    ops += [("initr", it, fin, rs) for it in (False, True) for fin in (True, False) for rs in (False, True)]
    if cfg.get("rich"):
        ops += [("drawa", 2, False), ("iter", -1, True), ("iter", 3, 2), ("drawa", 3, 2), ("frd", 1, 2), ("frd", 0, 1),
                ("drawx", "nocheck"), ("drawx", "scroll"), ("drawx", "exactpad"), ("drawx", "echo")]
    return ops


def fault_variants(op, calls, excs, stdout_faults=False, modes=("instead", "after")):
    """Every fault position inside *op* given the calls its fault-free run made."""
    out = []
    nr, ng, npoints, nts, nfin, npad = calls
    if op[0] == "badargs":
        return out
    for j in range(1, nfin + 1):           # the j-th finalization hook run by the operation fails after its work
        for x in ("OSError", "KeyboardInterrupt"):
            out.append(("finalize", j, x))
    for j in range(1, npad + 1):           # the j-th call into the padding object fails (resolve / padded size / pad)
        for x in ("OSError", "KeyboardInterrupt"):
            out.append(("padding", j, x))
    for j in range(1, nts + 1):            # the j-th terminal-size query of the operation fails
        for x in ("OSError", "KeyboardInterrupt"):
            out.append(("termsize", j, x))
    if stdout_faults and op[0] in ("draw", "drawa", "drawx"):
        # every write / flush / sleep of the draw, the closing sequence in its `finally` included
        for j in range(1, npoints + 1):
            for mode in modes:
                for x in ("KeyboardInterrupt", "OSError"):
                    out.append(("stdout", j, mode, x))
    for j in range(1, ng + 1):
        for x in excs:
            out.append(("getdata", j, x))
    for j in range(1, nr + 1):
        for x in excs:
            out.append(("render", j, x))
    if op[0] in ("draw", "drawa") or (op[0] == "drawx" and op[1] != "nocheck"):
        out.append(("validate",))
    return out


def build(cfg, hist):
    # collect what the previous history left behind, then move everything that is alive (the explorer's own
    # tables) out of the collector's sight: every later gc.collect() only looks at this history's objects
    gc.collect()
    if _FROZEN:
        gc.freeze()
    s = Scn(cfg)
    for op, fault in hist:
        s.apply(tuple(op), None if fault is None else tuple(fault))
        if fault is not None and s.fired:
            s.budget -= 1
    return s


def step(cfg, hist, op, fault):
    """One judged transition.  Returns (scenario, violation|None, fired)."""
    s = build(cfg, hist)
    before = s.it_state
    out = s.apply(op, fault)
    if fault is not None and s.fired:
        s.budget -= 1
    viol = s.check_outcome(op, fault, out, before) or s.check(op, fault, out)
    return s, viol, out


def explore_cfg(col, cfg):
    ops = ops_of(cfg)
    excs = cfg["excs"]
    s0 = build(cfg, [])
    key0 = s0.key()
    seen = {key0}
    frontier = collections.deque([()])
    stats = dict(transitions=0, max_depth=0, fault_transitions=0)
    cid = repr(sorted(cfg.items()))
    while frontier:
        h = frontier.popleft()
        stats["max_depth"] = max(stats["max_depth"], len(h))
        s = build(cfg, h)
        budget = s.budget
        en = [op for op in ops if s.enabled(op)]
        for op in en:
            variants = [None]
            first = True
            while variants:
                fault = variants.pop(0)
                s2, viol, out = step(cfg, h, op, fault)
                if fault is not None and not s2.fired:
                    continue            # the fault position does not exist in this operation: same as fault-free
                col.count()
                stats["transitions"] += 1
                if fault is not None:
                    stats["fault_transitions"] += 1
                if first:
                    first = False
                    if budget > 0 and viol is None:
                        variants = fault_variants(op, s2.calls, excs, cfg.get("stdout_faults", False),
                                                  cfg.get("stdout_modes", ("instead", "after")))
                case = dict(cfg=cfg, history=[[list(o), None if f is None else list(f)] for o, f in h],
                            op=list(op), fault=None if fault is None else list(fault))
                if viol is not None:
                    col.violation(viol[0], viol[1], case)
                    continue
                nkey = s2.key()
                if nkey not in seen:
                    if len(seen) >= MAX_STATES:      # only a changed implementation with hidden state gets here
                        stats["capped"] = True
                        continue
                    seen.add(nkey)
                    frontier.append(h + ((op, fault),))
                    if _DEBUG and len(seen) % 200 == 0:
                        print(f"[c10] states={len(seen)} depth={len(h) + 1} transitions={stats['transitions']} "
                              f"last={[o for o, f in h][-6:]} {op} {fault}", file=sys.stderr)
                    col.add_distinct(h64(repr((cid, nkey))))
                    if len(seen) % 499 == 0:
                        col.sample(case)
    stats["states"] = len(seen)
    return stats


def configs(tier):
    out = []
    if tier == "quick":
        out.append(dict(n=2, faults=1, excs=list(EXCS)))
        # only stdout / terminal-size / validation faults (split by mode for load balance)
        out.append(dict(n=2, faults=1, excs=[], stdout_faults=True, stdout_modes=["instead"]))
        out.append(dict(n=2, faults=1, excs=[], stdout_faults=True, stdout_modes=["after"]))
        out.append(dict(n="I2", faults=1, excs=list(EXCS)))
        out.append(dict(n=3, faults=0, excs=[], rich=True))
        out.append(dict(n=1, faults=1, excs=list(EXCS), rich=True, stdout_faults=True))
        out.append(dict(n=2, faults=1, excs=["RenderError", "KeyboardInterrupt"], tty=False))
        out.append(dict(n="I2", faults=1, excs=[], tty=False, stdout_faults=True))
    else:
        # (load balance: one configuration runs on one core; 2 faults x the rich operation set x 3 frames is 1.2M
        #  transitions / 10 minutes, so two faults go with the base operation set and the rich set with one fault)
        for n in (2, 3, "I2", "I3"):
            out.append(dict(n=n, faults=2, excs=list(EXCS_MORE if n in (2, "I2") else EXCS)))
            out.append(dict(n=n, faults=1, excs=list(EXCS_MORE if n != 3 else EXCS), rich=True))
            out.append(dict(n=n, faults=1, excs=["RenderError", "KeyboardInterrupt"], rich=n in ("I2", "I3"),
                            tty=n in (3, "I2"), stdout_faults=True))
        out.append(dict(n="I2", faults=2, excs=["RenderError", "KeyboardInterrupt"], rich=True))
        out.append(dict(n=2, faults=3, excs=list(EXCS)))
        out.append(dict(n="I2", faults=3, excs=list(EXCS)))
        out.append(dict(n=2, faults=2, excs=["RenderError", "KeyboardInterrupt"], stdout_faults=True))
        out.append(dict(n="I2", faults=1, excs=list(EXCS), rich=True, stdout_faults=True))
        out.append(dict(n=4, faults=1, excs=list(EXCS)))
        out.append(dict(n="I4", faults=1, excs=list(EXCS), rich=True))
        out.append(dict(n=1, faults=2, excs=list(EXCS_MORE), rich=True, stdout_faults=True))
        out.append(dict(n=1, faults=1, excs=list(EXCS_MORE), rich=True, tty=False))
    return out


def _shard(items):
    global _FROZEN
    col = _CTX.new_collector()
    gc.disable()
    gc.collect()
    gc.freeze()
    _FROZEN = True
    try:
        for cfg in items:
            try:
                stats = explore_cfg(col, cfg)
            except world.HarnessError:
                raise
            except Exception as e:
                col.violation(dict(clause="exception", where="exploration", exc=type(e).__name__),
                              f"{type(e).__name__}: {e} while exploring {cfg}", dict(cfg=cfg, history=[], op=["render"], fault=None))
                continue
            if stats.get("capped"):
                col.notes.add(f"state cap {MAX_STATES} hit: {cfg}")
            col.inc("states", stats["states"])
            col.inc("transitions", stats["transitions"])
            col.inc("fault_transitions", stats["fault_transitions"])
            col.max("depth_of_fixpoint", stats["max_depth"])
            col.inc("configurations", 1)
    finally:
        world.uninstall()
        _FROZEN = False
        gc.unfreeze()
        gc.enable()
    return col


def run(ctx):
    global _CTX
    _CTX = ctx
    world.load()
    M.lib()
    items = explore.rotate(configs(ctx.tier))
    for col in explore.pmap(_shard, items, chunks_per_proc=len(items)):
        ctx.merge(col)
    world.uninstall()
    for note in sorted(ctx.notes):
        if note.startswith("state cap"):
            ctx.cap(note)
    ctx.rule = ("distinct = distinct reachable states (iterator canon, caller data status, expectation flags, fault "
                "budget, unsettled data objects) per configuration; one evaluation = one (operation, fault position) "
                "executed after a full replay of the history on fresh real objects; fault positions that do not exist "
                "in an operation are not counted")
    ctx.coverage.update(
        fixpoint=True,
        operations=[list(o) for o in ops_of(dict(rich=True))],
        fault_kinds=["k-th _render_ inside the operation", "k-th _get_render_data_ inside the operation",
                     "size validation of draw (terminal 1x1)",
                     "k-th call into the padding object (resolve / get_padded_size / _get_exact_dimensions_ / pad) "
                     "inside draw or RenderIterator(...) raises OSError / KeyboardInterrupt",
                     "k-th _finalize_render_data_ hook inside the operation raises after doing its work (OSError / "
                     "KeyboardInterrupt): the hook must still run at most once per data object, `finalized` must be set",
                     "k-th terminal-size query of _init_render_ inside the operation (OSError / KeyboardInterrupt)",
                     "k-th write / flush / sleep of a draw on the virtual stdout, instead / after, KeyboardInterrupt / "
                     "OSError (configurations with stdout_faults)"],
        exceptions=list(EXCS if ctx.tier == "quick" else EXCS_MORE),
        configurations=items,
        terminal=list(TERM),
    )
    ctx.assumptions += [
        "harness renderable TextR logs every _get_render_data_ / _finalize_render_data_ / _render_ and keeps every "
        "RenderData alive",
        "gc.collect() after dropping the last reference stands for garbage collection",
        "KeyboardInterrupt out of next(): only 'at most once' and 'eventually (close / drop / next)' are demanded",
    ]


def replay(ctx, case):
    cfg = case["cfg"]
    hist = tuple((tuple(o), None if f is None else tuple(f)) for o, f in case["history"])
    op = tuple(case["op"])
    fault = None if case.get("fault") is None else tuple(case["fault"])
    ctx.count()
    try:
        s, viol, out = step(cfg, hist, op, fault)
    except world.HarnessError:
        raise
    except Exception as e:
        ctx.violation(dict(clause="exception", where="exploration", exc=type(e).__name__), f"{type(e).__name__}: {e}", case)
        return
    finally:
        world.uninstall()
    if viol is not None:
        ctx.violation(viol[0], viol[1], case)
