"""C11 Image iteration matches frame-by-frame rendering and leaks nothing.

Engine: explicit-state BFS over operation histories x (position and kind of one injected PIL fault),
one search per configuration (source x style x initial size x iterator flavour = repeat / format
spec / cached).  A state is the history that reaches it; every transition replays the history on fresh
real objects (`execute`).  States are merged by `canon` = the property-relevant implementation state
(image: closed / size setting / seek position / known frame count; per iterator: generator suspension
point and its locals n / repeat / sent / frame / cache, `_loop_no`; terminal size) together with the
reference model state and "fault already used".  `guard_cfg` checks the merging: enumeration of *all*
histories to a small depth must give the same states and the same violation signatures.

In `pipe` configurations the fault menu of every draw() additionally holds a *persistent* standard-output
failure: the k-th write/flush of the draw and every later one raise BrokenPipeError (or ValueError of a
closed stream), for every k - clean-up code that writes must not keep the rest of the clean-up from running.

`env="warn-error"` configurations run every operation with TermImageUserWarning turned into an error and
`native_anim_max_bytes = 1` (iterm2 native animation then fails after the library opened the raw file);
`run_two_url` opens two URL images whose URLs share a base name (different contents) side by side.

Operations: format(spec) / str / draw still / draw animated (repeat 1, 2; repeat=-1 cut by Ctrl-C at a
frame delay; virtual stdout + clock) / draw with an invalid repeat, cached or style argument /
ImageIterator(...) / next / seek(p) / close / drop + gc.collect() / image.close / image.seek /
image.n_frames / set a fixed size, a second one, the dynamic Size.FIT, a fixed size too wide / too high for
the terminal (every size-validating draw must then raise InvalidSizeError and leave nothing open) /
terminal resize (between and inside the passes of iterators over images with the dynamic sizes FIT and
FIT_TO_WIDTH: cached frames must follow the terminal); plus the
constructor product (`run_ctor`): from_url x {404 (with and without an image body), 500, non-image,
empty body, refused connection, malformed URL}, from_file x {missing, non-image, directory}, valid
image x invalid constructor arguments, render style not supported by the terminal, failing Image.open.

Oracle (independent of the code under test):
* reference model B.5 of DESIGN (`ItModel`) says which frame a `next` must yield, when iteration
  stops, which exceptions `seek` raises and what `image.tell()` is (last yielded frame, 0 after
  exhaustion, untouched by draw());
* the text of a frame must equal `format(twin, spec)` of a *separate* image object built on a PIL
  image the harness opened itself, seeked to that frame, same size setting and terminal (ANIM -> WHOLE
  for frames; terminal-relative padding of the spec is resolved when the iterator is created);
* resource tracking (`c11_kit.Tracker`): every image the library opens is recorded with its file
  objects and kept alive by the harness, so only an explicit close closes it.  After every operation
  each file opened by the library must be closed unless it is owned by a live iterator (live = created
  and neither closed, dropped, exhausted nor failed); plain `open()` handles of iterm2 likewise;
  `/proc/self/fd` must equal baseline + files owned by live iterators; the library's temp dir must
  list exactly the copy of the open URL image (same bytes); a caller-supplied PIL image must never see
  `close()`; `image.size` must be untouched by every rendering operation.  Every execution ends with a
  sweep (close live iterators, drop the image, collect) after which everything is back at baseline.
A leak is reported with its own signature (operation, which open, iterator state, failing PIL step +
source line), then *repaired* by the harness (file force-closed) so that the search continues behind
it.  A leak that the same operation shows without the fault as well keeps the fault-free signature.
"""
from __future__ import annotations

import collections
import gc
import io
import os
import shutil
import sys
import tempfile
import warnings

from .. import c11_kit as K
from .. import explore, world
from ..harness import Collector, h64

ID = "C11"
LEVEL = "model_checking"

COLS, ROWS, CELL = 12, 8, (2, 3)
T = K.TRACKER

STYLES = {
    "block": ("other", "BlockImage", "block"),
    "kitty": ("kitty", "KittyImage", "graphics"),
    "iterm2w": ("wezterm", "ITerm2Image", "graphics"),
    "iterm2k": ("konsole", "ITerm2Image", "graphics"),
}
# size ids: A = exactly the source pixels (no resize needed), B = smaller, U = upscaled, D = dynamic FIT,
# W / H = fixed sizes wider / higher than both terminals: every size-validating draw() must refuse them
# (InvalidSizeError) and leave nothing open; format / str / iteration do not validate and still render
SIZES = {
    "block": {"A": (4, 3), "B": (2, 1), "D": "FIT", "F": "FIT_TO_WIDTH", "W": (14, 3), "H": (4, 9)},
    "graphics": {"A": (2, 2), "B": (1, 1), "U": (4, 4), "D": "FIT", "F": "FIT_TO_WIDTH", "W": (14, 2), "H": (2, 9)},
}
OVERSIZE = ("W", "H")
TERMS = {"L": (COLS, ROWS), "S": (9, 6)}      # terminal sizes of the "term" operation (a resize)
ROUTES = {"gif": "/anim.gif", "apng": "/anim.png", "png": "/still.png"}

_PORT = None
_ROOT = None         # scratch root for per-process library temp dirs
_TMP_PID = None
_CTX = None


def E(*a):
    print(*a, file=sys.stderr)


def exc_mod():
    return sys.modules["term_image.exceptions"]


# ------------------------------------------------------------------------------------- devices
class Runaway(BaseException):
    """An animated draw() with a finite repeat count that does not come to an end (reported as a violation)."""


STDOUT_KINDS = {
    "BrokenPipe": lambda: BrokenPipeError(32, "Broken pipe"),
    "ClosedStdout": lambda: ValueError("I/O operation on closed file."),
}
DRAW_OPS = ("draw_still", "draw_anim", "draw_int")


class KStdout(world.VStdout):
    """Virtual stdout; `broken_at = n` makes the n-th write/flush *and every later one* raise `broken_exc()`
    (a pipe whose reader went away, a closed stream) - the persistent fault of the draw() operations."""
    LIMIT = 400
    broken_at = None
    broken_exc = None
    broke = False

    def _broken(self):
        if self.broken_at is not None and self.npoints + 1 >= self.broken_at:
            self.npoints += 1
            self.broke = True
            raise self.broken_exc()

    def write(self, s):
        if self.npoints > self.LIMIT:
            raise Runaway(f"draw() still writing after {self.LIMIT} writes/flushes")
        self._broken()
        return super().write(s)

    def flush(self):
        self._broken()
        return super().flush()

    def _deliver(self, s):      # output content is C06's business; keep nothing
        pass


class KClock(world.VClock):
    def __init__(self, stdout):
        super().__init__(stdout)
        self.nsleep = 0
        self.interrupt_at = None

    def sleep(self, d):
        self.nsleep += 1
        if self.nsleep > 100:
            raise Runaway("animation still running after 100 frame delays")
        if self.interrupt_at is not None and self.nsleep >= self.interrupt_at:
            self.interrupt_at = None
            raise KeyboardInterrupt
        self.t += max(d, 0.0)


def ensure_process():
    """Per-process one-time set-up: tracker, private library temp dir, frozen GC baseline."""
    global _TMP_PID
    T.install()
    L = world.load()
    if _TMP_PID != os.getpid():
        root = _ROOT or tempfile.mkdtemp(prefix="verif-c11-", dir=os.environ.get("VERIF_RUN_TMP") or "/var/tmp")
        L.common._TEMP_DIR = tempfile.mkdtemp(prefix=f"lib-{os.getpid()}-", dir=root)
        world.adopt(L.common, "_TEMP_DIR")
        _TMP_PID = os.getpid()
        gc.collect()
        gc.freeze()
    return L


# ------------------------------------------------------------------------------------- model
class ItModel:
    __slots__ = ("uid", "started", "nxt", "passes", "dead", "undefined", "spec")

    def __init__(self, uid, repeat, spec):
        self.uid, self.started, self.nxt, self.passes, self.dead, self.undefined = uid, False, 0, repeat, False, False
        self.spec = spec        # frame spec: ANIM -> WHOLE, terminal-relative padding resolved at creation

    def key(self):
        return (self.started, self.nxt, self.passes, self.dead, self.undefined)


class Model:
    def __init__(self, n, size):
        self.n = n
        self.animated = n > 1
        self.tell = 0           # None = unknown (after a failure), resynchronised from the image
        self.size = size
        self.closed = False
        self.term = "L"
        self.its = {}


class State:
    pass


def apply_size(L, image, style, sizeid):
    v = SIZES[STYLES[style][2]][sizeid]
    if isinstance(v, str):      # a dynamic size: recomputed from the terminal at every render
        image.size = getattr(L.common.Size, v)
    else:
        image.set_size(*v)


def size_kwargs(L, style, sizeid):
    v = SIZES[STYLES[style][2]][sizeid]
    if isinstance(v, str):      # (Size.FIT is the constructor's default; other dynamic sizes are set afterwards)
        return {}
    return dict(width=v[0], height=v[1])


def size_value(L, style, sizeid):
    v = SIZES[STYLES[style][2]][sizeid]
    return getattr(L.common.Size, v) if isinstance(v, str) else v


def draw_kwargs(style, spec):
    """draw() arguments equivalent to the alpha / render-method part of the format spec."""
    kw = {}
    main, _, st = spec.partition("+")
    if "#" in main:
        a = main[main.index("#") + 1:]
        kw["alpha"] = None if a == "" else "#" + a.lstrip("#") if a != "#" else "#"
    if st and style != "block":
        kw["method"] = {"L": "lines", "W": "whole", "A": "anim"}[st[0]]
    return kw


_EXP = {}


def expected(S, sizeid, spec, k):
    """format(twin, spec) for frame k - the twin is built on a PIL image opened by the harness."""
    cfg = S.cfg
    kind, key = cfg["src"].split(":")
    tk = "mem" if kind == "mem" else "pil"
    mkey = (key, tk, cfg["style"], sizeid, spec, k, S.M.term)
    r = _EXP.get(mkey)
    if r is None:
        L = S.L
        assert not T.armed
        pil = T.orig_open(io.BytesIO(K.file_bytes(key)) if tk == "mem" else K.files()[key])
        try:
            tw = getattr(L.image, STYLES[cfg["style"]][1])(pil)
            apply_size(L, tw, cfg["style"], sizeid)
            if K.N_FRAMES[key] > 1:
                tw.seek(k)
            r = format(tw, spec)
            tw.close()
        except world.HarnessError:
            raise
        except Exception as e:   # the plain, direct format of a valid image failed: that is a finding, not a crash
            viol(S, dict(clause="exception", op="direct-format-of-twin", exc=type(e).__name__, style=cfg["style"]),
                 f"format(image, {spec!r}) of a fresh image (PIL source, frame {k}, size {sizeid}) raised "
                 f"{type(e).__name__}: {str(e)[:150]}")
            S.stop = True
            return None
        finally:
            pil.close()
        _EXP[mkey] = r
    return r


# ------------------------------------------------------------------------------------- execution
RENDER_OPS = {"term", "fmt", "str", "draw_still", "draw_anim", "draw_int", "draw_bad", "it_new", "next", "seek", "it_close",
              "it_drop", "n_frames", "img_seek"}


def op_label(op):
    n = op[0]
    if n == "draw_bad":
        return f"draw_bad:{op[1]}"
    return n


def src_type(cfg):
    return {"file": "file", "url": "url", "pil": "pil", "mem": "pil"}[cfg["src"].split(":")[0]]


_WORLD = {}


def enter_world(ident, so, clock, fresh):
    """A fresh world (`reset_world` + new virtual tty) per configuration, per constructor case and for every
    determinism-guard re-execution; in between only the devices are renewed and the terminal size is put
    back: nothing a C11 operation does changes any other piece of the world, and the guard compares a
    renewed-world run with a fresh-world run of the same history every 97 executions."""
    key = (os.getpid(), ident)
    if fresh or _WORLD.get("key") != key:
        tty = world.setup(ident, COLS, ROWS, cell=CELL, stdout=so, clock=clock)
        _WORLD.update(key=key, tty=tty)
        return tty
    tty = _WORLD["tty"]
    tty.cols, tty.rows = COLS, ROWS
    tty.xpx, tty.ypx = COLS * CELL[0], ROWS * CELL[1]
    del tty.out[:]
    world.install(tty, so, clock)
    return tty


def purge_temp(L):
    """Harness hygiene between executions: nothing of an earlier execution may show up in a later listing."""
    tmp = L.common._TEMP_DIR
    if os.listdir(tmp):
        gc.collect()
        for fn in os.listdir(tmp):
            try:
                os.remove(os.path.join(tmp, fn))
            except FileNotFoundError:
                pass


def execute(cfg, hist, col, report_last_only=True, base_leaks=None, fresh=False):
    """Replay *hist* (list of [op, fault|None]) on fresh objects; judge the last operation (and the
    closing sweep).  Returns a State with .canon, .points (fault points of the last op), .enabled,
    .stop (a non-repairable violation happened on the way)."""
    L = ensure_process()
    if hist and hist[-1][1] and base_leaks is None:
        # which opens of the last operation are left open even without the fault (replay / guard runs)
        base_leaks = execute(cfg, hist[:-1] + [[hist[-1][0], None]], Collector(), fresh=fresh).leaks_last
    S = State()
    S.L, S.cfg, S.col = L, cfg, col
    S.base_leaks = base_leaks or ()
    S.leaks_last = set()
    S.in_sweep = False
    S.stop = False
    S.new_viol = 0
    S.report = False
    S.hist = hist
    S.points = []
    T.reset()
    so = S.so = KStdout(None, True, None, record=False)
    S.so_points = 0
    S.clock = KClock(so)
    ident, clsname, _ = STYLES[cfg["style"]]
    enter_world(ident, so, S.clock, fresh)
    S.cls = getattr(L.image, clsname)
    S.warn_env = cfg.get("env") == "warn-error"
    if S.warn_env:      # every native animation is "too large": the library warns, the environment makes it an error
        S.cls.native_anim_max_bytes = 1
    kind, key = cfg["src"].split(":")
    S.kind, S.key = kind, key
    S.pil = None
    S.pil_files = []
    if kind in ("pil", "mem"):
        S.pil = T.orig_open(K.files()[key] if kind == "pil" else io.BytesIO(K.file_bytes(key)))
        S.pil_files = [S.pil.fp] + [f for f in (getattr(S.pil, "_fp", None),) if f is not None and f is not S.pil.fp]
    S.image = None
    S.its = {}
    S.uid = 0
    S.live = set()
    S.fault_used = False
    S.M = Model(K.N_FRAMES[key], cfg["size0"])
    S.base = K.nfds()
    n = len(hist)
    try:
        S.report = n == 0
        apply_op(S, ["construct"], None)
        for i, (op, fault) in enumerate(hist):
            S.report = (i == n - 1) or not report_last_only
            if fault:
                S.fault_used = True
            apply_op(S, op, fault)
            if S.stop:
                break
        S.canon = None if S.stop else canon(S)
        S.enabled = [] if S.stop else enabled_ops(S)
        S.points_last = list(S.points)
        S.so_points_last = S.so_points
        S.in_sweep = True
        # closing sweep: close what is still live, drop the image, everything must be back at baseline
        S.report = True
        if not S.stop:
            for slot in sorted(S.its):
                if not S.M.its[slot].dead:
                    apply_op(S, ["it_close", slot], None)
            apply_op(S, ["img_drop"], None)
    finally:
        T.armed = False
        for r in T.records + T.raw:
            if r.is_open():
                r.force_close()
        S.its.clear()
        S.image = None
        if S.pil is not None:
            try:
                S.pil.close()
            except Exception:
                pass
        T.reset()
        if kind == "url":
            purge_temp(L)
    col.count()
    return S


def viol(S, sig, what):
    S.new_viol += 1
    if S.report:
        sig = dict(sig)
        S.col.violation(sig, what, dict(part="bfs", cfg=S.cfg, hist=S.hist))


def construct(S):
    L, cfg = S.L, S.cfg
    kw = size_kwargs(L, cfg["style"], cfg["size0"])
    if S.kind == "file":
        img = S.cls.from_file(K.files()[S.key], **kw)
    elif S.kind == "url":
        img = S.cls.from_url(f"http://127.0.0.1:{_PORT}{ROUTES[S.key]}", **kw)
    else:
        img = S.cls(S.pil, **kw)
    if cfg["size0"] == "F":
        apply_size(L, img, cfg["style"], "F")
    return img


def do_op(S, op):
    L, cfg = S.L, S.cfg
    name = op[0]
    img = S.image
    if name == "construct":
        S.image = construct(S)
        return None
    if name == "fmt":
        return format(img, cfg["spec"])
    if name == "str":
        return str(img)
    dk = draw_kwargs(cfg["style"], cfg["spec"])
    if name == "draw_still":
        return img.draw(animate=False, **dk)
    if name == "draw_anim":
        return img.draw(repeat=op[1], cached=cfg["cached"], **dk)
    if name == "draw_int":
        S.clock.interrupt_at = S.clock.nsleep + op[1]
        try:
            return img.draw(repeat=-1, cached=cfg["cached"], **dk)
        finally:
            S.clock.interrupt_at = None
    if name == "draw_bad":
        if op[1] == "repeat":
            return img.draw(repeat=0, **dk)
        if op[1] == "cached":
            return img.draw(cached=0, **dk)
        return img.draw(no_such_style_parameter=1)
    if name == "it_new":
        slot = op[1]
        old = S.its.pop(slot, None)
        if old is not None:
            del old
            gc.collect()
        it = L.common.ImageIterator(img, cfg["repeat"], cfg["spec"], cfg["cached"])
        S.its[slot] = it
        return None
    if name == "next":
        return next(S.its[op[1]])
    if name == "seek":
        return S.its[op[1]].seek(op[2])
    if name == "it_close":
        return S.its[op[1]].close()
    if name == "it_drop":
        del S.its[op[1]]
        gc.collect()
        return None
    if name == "img_close":
        return img.close()
    if name == "img_seek":
        return img.seek(op[1])
    if name == "size":
        return apply_size(L, img, cfg["style"], op[1])
    if name == "n_frames":
        return img.n_frames
    if name == "term":
        tty = world.W.tty
        tty.cols, tty.rows = TERMS[op[1]]
        tty.xpx, tty.ypx = tty.cols * CELL[0], tty.rows * CELL[1]
        return None
    if name == "img_drop":
        S.its.clear()
        S.image = None
        del img
        gc.collect()
        return None
    raise world.HarnessError(f"C11: unknown op {op}")


def apply_op(S, op, fault):
    name = op[0]
    label = op_label(op)
    M = S.M
    size_before = None
    if S.image is not None:
        size_before = S.image.size
    nrec0 = len(T.records)
    if not S.in_sweep:
        S.leaks_last = set()        # ordinals of the opens *this* operation leaves behind without a fault
    so = S.so
    so_p0 = so.npoints
    pipe = fault if fault and fault[1] in STDOUT_KINDS else None
    if pipe:        # persistent stdout failure from the k-th write/flush of this operation on
        so.broken_at, so.broken_exc, so.broke = so_p0 + pipe[0], STDOUT_KINDS[pipe[1]], False
    T.begin_op(label, tuple(fault) if fault and not pipe else None)
    ret = None
    exc_type = exc_text = None
    injected = False
    try:
        if S.warn_env:
            with warnings.catch_warnings():
                warnings.simplefilter("error", exc_mod().TermImageUserWarning)
                ret = do_op(S, op)
        else:
            ret = do_op(S, op)
    except world.HarnessError:
        raise
    except BaseException as e:  # noqa - everything the library raises is an observation
        if isinstance(e, (SystemExit, GeneratorExit)):
            raise
        exc_type, exc_text = type(e).__name__, str(e)[:200]
        injected = K.injected_in(e)
        e.__traceback__ = None
        del e
    finally:
        T.end_op()
        so.broken_at = None
    fired = T.fired
    if pipe and so.broke:
        fired = (f"stdout:{pipe[1]}", "")
    S.so_points = so.npoints - so_p0
    S.points = list(T.points)
    ctx = dict(ret=ret, exc=exc_type, exc_text=exc_text, fired=fired, injected=injected, fault=fault,
               size_before=size_before, nrec0=nrec0, label=label)
    judge(S, op, ctx)


def enabled_ops(S):
    M, cfg = S.M, S.cfg
    alpha = cfg["alphabet"]
    ops = []
    if M.animated:
        ops.append(["fmt"])
        if "str" in alpha:
            ops.append(["str"])
        ops.append(["draw_still"])
        for r in alpha.get("draw_anim", (1,)):
            ops.append(["draw_anim", r])
        for j in alpha.get("draw_int", ()):
            ops.append(["draw_int", j])
        for b in alpha.get("draw_bad", ("repeat", "style")):
            ops.append(["draw_bad", b])
        free = [s for s in range(cfg["maxit"]) if s not in S.its or M.its[s].dead]
        if free:
            ops.append(["it_new", free[0]])
        for slot in sorted(S.its):
            ops.append(["next", slot])
            for p in alpha.get("seek", (0, M.n - 1)):
                ops.append(["seek", slot, p])
            ops.append(["it_close", slot])
            ops.append(["it_drop", slot])
        for q in alpha.get("img_seek", (1,)):
            ops.append(["img_seek", q])
        if "n_frames" in alpha:
            ops.append(["n_frames"])
    else:
        ops += [["fmt"], ["str"], ["draw_still"], ["draw_bad", "style"], ["it_new", 0], ["n_frames"]]
    if not M.closed:
        ops.append(["img_close"])
        for sz in alpha["sizes"]:
            if sz != M.size:
                ops.append(["size", sz])
    elif "reclose" in alpha:
        ops.append(["img_close"])
    for t in alpha.get("terms", ()):
        if t != M.term:
            ops.append(["term", t])
    if alpha.get("only_iter"):
        keep = {"it_new", "next", "seek", "it_close", "size", "img_seek", "term"}
        ops = [o for o in ops if o[0] in keep]
    return ops


def impl_iter_state(it):
    d = it.__dict__
    g = d.get("_animator")
    if g is None:
        return ("closed", d.get("_loop_no"), "_img" in d)
    fr = getattr(g, "gi_frame", None)
    if fr is None:
        return ("finished", d.get("_loop_no"))
    try:
        loc = fr.f_locals
        cache = loc.get("cache")
        csig = None
        if cache is not None:
            csig = tuple((h64(c[0]) if c[0] is not None else None, c[1]) for c in cache)
        frame = loc.get("frame")
        return (fr.f_lasti, loc.get("n"), loc.get("repeat"), loc.get("sent"),
                h64(frame) if isinstance(frame, str) else None, csig, d.get("_loop_no"))
    except Exception:
        return ("opaque", fr.f_lasti)


def canon(S):
    M = S.M
    its = []
    for slot in range(S.cfg["maxit"]):
        it = S.its.get(slot)
        if it is None:
            its.append(None)
        else:
            its.append((M.its[slot].key(), impl_iter_state(it)))
    img = S.image
    impl = (img.closed, repr(img.size), img.tell(), getattr(img, "_n_frames", None))
    ntemp = len(os.listdir(S.L.common._TEMP_DIR)) if S.kind == "url" else 0
    return h64(repr((M.closed, M.size, M.term, M.tell, impl, tuple(its), S.fault_used, ntemp)))


# ------------------------------------------------------------------------------------- oracle
def judge(S, op, c):
    L, cfg, M = S.L, S.cfg, S.M
    name = op[0]
    label = c["label"]
    X = exc_mod()
    exc = c["exc"]
    fired = c["fired"]
    step = fired[0] if fired else "none"
    site = fired[1] if fired else ""
    kindname = c["fault"][1] if c["fault"] else None
    failed_by_fault = bool(fired) and exc is not None
    if fired and exc is None and name != "draw_int":
        S.col.inc("faults_swallowed")
    sig0 = dict(op=label, src=src_type(cfg))
    # a failed iteration may leave the seek position one past the last frame (not specified): direct renders
    # of that "frame" are then not judged, only their resources
    bad_pos = M.tell is not None and M.tell >= M.n
    if bad_pos:
        sig0["state"] = "seek-position-past-the-end-after-failed-iteration"

    def unexpected(what_expected):
        viol(S, dict(sig0, clause="exception", exc=exc, expected=what_expected, image_closed=M.closed),
             f"{label}: raised {exc}: {c['exc_text']} (expected {what_expected})")
        S.stop = True

    def not_raised(what_expected):
        viol(S, dict(sig0, clause="not-raised", expected=what_expected, image_closed=M.closed),
             f"{label}: returned normally, expected {what_expected}")
        S.stop = True

    def expect_exc(*names):
        if exc is None:
            not_raised("/".join(names))
        elif exc not in names:
            unexpected("/".join(names))

    it_state = None   # for leak signatures of iterator operations
    # ---------------------------------------------------------------- per-operation model
    if name == "construct":
        if exc is not None and "Connect" in exc:
            raise world.HarnessError(f"C11: the loopback HTTP server is unreachable ({exc}: {c['exc_text']})")
        if exc is not None and not failed_by_fault:
            unexpected("a new image")
        elif exc is not None:
            S.stop = True
    elif failed_by_fault:
        # an injected PIL failure made the operation fail: legitimate; model what is left
        if name == "next":
            im = M.its[op[1]]
            it_state = "started" if im.started else "unstarted"
            im.dead = True
            S.live.discard(im.uid)
            M.tell = None
        elif name == "it_new":
            M.its.pop(op[1], None)
            S.its.pop(op[1], None)
        elif name in ("seek", "img_seek", "n_frames"):
            M.tell = None
    elif (S.warn_env and not M.closed and M.animated and "+A" in cfg["spec"] and name in ("fmt", "draw_still")
          and not (name == "draw_still" and M.size in OVERSIZE)):
        # native animation above native_anim_max_bytes with warnings turned into errors: the render is refused
        # by the environment; what matters is that nothing stays open (judged below)
        if not bad_pos:
            expect_exc("TermImageUserWarning")
    elif name in ("fmt", "str"):
        if M.closed:
            expect_exc("TermImageError")
        elif bad_pos:
            pass
        elif exc is not None:
            unexpected("a render")
        elif not fired and M.tell is not None:
            spec = cfg["spec"] if name == "fmt" else "1.1"
            want = expected(S, M.size, spec, M.tell if M.animated else 0)
            if want is not None and c["ret"] != want:
                viol(S, dict(sig0, clause="direct-format-differs-from-twin", style=cfg["style"]),
                     f"{label} of frame {M.tell} at size {M.size} differs from the twin image's format({spec!r})")
                S.stop = True
    elif name in ("draw_still", "draw_anim", "draw_int"):
        if M.closed:
            # (a finalized image that does not fit either: which of the two refusals comes first is not specified)
            expect_exc(*(("TermImageError", "InvalidSizeError") if M.size in OVERSIZE else ("TermImageError",)))
        elif M.size in OVERSIZE:
            expect_exc("InvalidSizeError")
        elif bad_pos and name == "draw_still":
            pass
        elif exc is not None:
            unexpected("a completed draw")
    elif name == "draw_bad":
        if M.closed:
            expect_exc(*(("TermImageError", "InvalidSizeError") if M.size in OVERSIZE else ("TermImageError",)))
        elif M.size in OVERSIZE:    # two reasons to refuse; the order of the checks is not specified
            expect_exc("InvalidSizeError", "StyleError" if op[1] == "style" else "ValueError")
        else:
            expect_exc("StyleError" if op[1] == "style" else "ValueError")
    elif name == "it_new":
        if M.closed or not M.animated:
            expect_exc("TermImageError" if M.closed and M.animated else "ValueError")
            S.its.pop(op[1], None)
            M.its.pop(op[1], None)
        elif exc is not None:
            unexpected("a new iterator")
            S.its.pop(op[1], None)
        else:
            S.uid += 1
            fspec = cfg["spec"].replace("+A", "+W")
            if fspec == "":     # default padding = terminal width x (terminal height - 2), fixed when created
                fspec = f"{TERMS[M.term][0]}.{TERMS[M.term][1] - 2}"
            M.its[op[1]] = ItModel(S.uid, cfg["repeat"], fspec)
            S.live.add(S.uid)
            it_state = "unstarted"
    elif name == "next":
        im = M.its[op[1]]
        it_state = "started" if im.started else "unstarted"
        if im.dead:
            expect_exc("StopIteration")
        elif M.closed or im.undefined or fired:
            # iterating an image that was closed meanwhile (or a swallowed fault): not specified
            im.undefined = True
            M.tell = None
            if exc is not None:
                im.dead = True
                S.live.discard(im.uid)
        else:
            im.started = True
            if im.nxt >= M.n:
                im.nxt = 0
                if im.passes > 0:
                    im.passes -= 1
            if im.passes == 0:
                im.dead = True
                S.live.discard(im.uid)
                M.tell = 0
                expect_exc("StopIteration")
            else:
                k = im.nxt
                im.nxt += 1
                M.tell = k
                if exc is not None:
                    unexpected(f"frame {k}")
                else:
                    spec = im.spec
                    want = expected(S, M.size, spec, k)
                    if want is not None and c["ret"] != want:
                        frame_mismatch(S, sig0, c["ret"], want, k, spec)
    elif name == "seek":
        im = M.its[op[1]]
        p = op[2]
        if M.closed or im.undefined:
            if exc is not None and exc not in ("TermImageError", "ValueError"):
                unexpected("TermImageError/ValueError/None")
            if exc is None and not im.dead:
                im.nxt = p
        elif not 0 <= p < M.n:
            expect_exc("ValueError")
        elif im.dead or not im.started:
            expect_exc("TermImageError")
        elif exc is not None:
            unexpected("None")
        else:
            im.nxt = p
    elif name in ("it_close", "it_drop"):
        im = M.its[op[1]]
        it_state = "dead" if im.dead else "started" if im.started else "unstarted"
        if exc is not None:
            unexpected("None")
        im.dead = True
        S.live.discard(im.uid)
        if name == "it_drop":
            M.its.pop(op[1], None)
    elif name == "img_close":
        if exc is not None:
            unexpected("None")
        M.closed = True
        for im in M.its.values():
            if not im.dead:
                im.undefined = True
    elif name == "img_seek":
        if M.closed:
            if exc is None:
                M.tell = op[1]
            elif exc != "TermImageError":
                unexpected("TermImageError/None")
        elif exc is not None:
            unexpected("None")
        else:
            M.tell = op[1]
    elif name == "size":
        if exc is not None:
            unexpected("None")
        else:
            M.size = op[1]
    elif name == "term":
        M.term = op[1]
    elif name == "n_frames":
        if exc is not None:
            if not (M.closed and exc == "TermImageError"):
                unexpected(str(M.n))
        elif c["ret"] != M.n:
            viol(S, dict(sig0, clause="n_frames"), f"n_frames={c['ret']} expected {M.n}")
            S.stop = True
    elif name == "img_drop":
        if exc is not None:
            unexpected("None")

    # ---------------------------------------------------------------- invariants after every operation
    img = S.image
    # (1) files: everything the library opened is closed unless a live iterator owns it
    if name == "it_new" and exc is None and op[1] in M.its:
        uid = M.its[op[1]].uid
        for r in T.records[c["nrec0"]:]:
            if r.filebacked and r.is_open() and r.owner is None:
                r.owner = uid
                break
    leaked = False
    for idx, r in enumerate(T.records):
        if not r.filebacked or r.repaired or not r.is_open():
            continue
        if r.owner is not None and r.owner in S.live:
            continue
        leaked = True
        fname = os.path.basename(r.path)
        if r.owner is not None:
            # the iterator that owned this image is gone (closed / dropped / exhausted / failed)
            if M.closed and name != "img_close":
                sig = dict(clause="file-left-open", case="iterator-ended-after-image-close")
                what = (f"after {label}: the iterator ended after image.close(); the image file {fname!r} it opened "
                        f"was never explicitly closed")
            else:
                sig = dict(clause="file-left-open", case="iterator-ended", iter=it_state, op=label, step=step,
                           site=site, fault=kindname)
                what = (f"after {label}{' failing at ' + step if fired else ''} on a {it_state} iterator: the image "
                        f"file {fname!r} opened for it at {r.site[2]} was never explicitly closed")
        else:
            ordinal = idx - c["nrec0"]
            if not S.in_sweep and not fired:
                S.leaks_last.add(ordinal)
            if fired and ordinal in S.base_leaks:
                # the same open is left behind without the fault as well: one cause, one signature
                sig = dict(clause="file-left-open", case="operation", op=label, opened_by=r.site[2], step="none",
                           site="", fault=None)
            else:
                sig = dict(clause="file-left-open", case="operation", op=label, opened_by=r.site[2], step=step,
                           site=site, fault=kindname)
            what = (f"after {label}{' failing at ' + step + ' (' + str(kindname) + ')' if fired else ''}: image file "
                    f"{fname!r} opened by the library during it ({r.site[2]}) was never explicitly closed")
        if bad_pos and not fired and name in ("fmt", "str", "draw_still"):
            sig["state"] = sig0["state"]
        viol(S, sig, what)
        r.repaired = True
        r.force_close()
    for r in T.raw:
        if r.repaired or not r.is_open():
            continue
        leaked = True
        viol(S, dict(clause="raw-file-left-open", op=label, step=step, site=site, fault=kindname, opened_by=r.site[2]),
             f"after {label}: file opened with open() at {r.site[2]} is still open")
        r.repaired = True
        r.force_close()
    # (2) a caller-supplied PIL image is never closed
    # (PIL itself closes the file of a single-frame image once it is loaded: only close() calls count)
    if S.pil is not None:
        if id(S.pil) in T.closed_ids:
            viol(S, dict(sig0, clause="caller-image-closed", faulted=bool(fired), iter=it_state),
                 f"{label}: the PIL image supplied by the caller was closed by the library")
            S.stop = True
    # (3) open-file count
    owned = sum(1 for r in T.records if r.filebacked and r.is_open() and not r.repaired)
    owned -= sum(1 for f in S.pil_files if isinstance(f, (io.BufferedReader, io.FileIO)) and f.closed)
    nf = K.nfds()
    if nf != S.base + owned and not leaked:
        viol(S, dict(sig0, clause="fd-count", faulted=bool(fired), delta="+" if nf > S.base + owned else "-"),
             f"after {label}: {nf} open file descriptors, expected baseline {S.base} + {owned} owned by live iterators")
        S.base = nf - owned     # resynchronise: report each cause once
    # (4) temp dir == copies of the currently open URL images
    if S.kind == "url":
        ls = sorted(os.listdir(L.common._TEMP_DIR))
        want_open = img is not None and not M.closed and name != "img_drop"
        if want_open:
            src_path = getattr(img, "_source", None)
            ok = isinstance(src_path, str) and ls == [os.path.basename(src_path)]
            if ok and name == "construct":
                with open(src_path, "rb") as f:
                    ok = f.read() == K.file_bytes(S.key)
                if not src_path.endswith(os.path.basename(ROUTES[S.key])) or img.source != \
                        f"http://127.0.0.1:{_PORT}{ROUTES[S.key]}":
                    ok = False
            if not ok:
                viol(S, dict(sig0, clause="temp-dir", expected="one-copy", faulted=bool(fired)),
                     f"after {label}: temp dir lists {ls}, expected exactly the private copy of the open URL image")
                S.stop = True
        elif ls:
            viol(S, dict(sig0, clause="temp-dir", expected="empty", faulted=bool(fired)),
                 f"after {label}: temp dir still lists {ls} although no URL image is open")
            for fn in ls:
                os.remove(os.path.join(L.common._TEMP_DIR, fn))
    if img is None or name in ("img_drop",):
        return
    # (5) the size setting is untouched by rendering operations
    if name in RENDER_OPS and c["size_before"] is not None:
        now = img.size
        if now != c["size_before"] or type(now) is not type(c["size_before"]):
            viol(S, dict(sig0, clause="size-changed", faulted=bool(fired), size=M.size),
                 f"{label}: image.size was {c['size_before']!r} before and is {now!r} after")
            S.stop = True
    if name in ("size", "construct") and exc is None:
        want = size_value(L, cfg["style"], M.size)
        if img.size != want:
            viol(S, dict(sig0, clause="size-set", size=M.size), f"{label}: image.size={img.size!r} expected {want!r}")
            S.stop = True
    # (6) current frame
    if exc is None or name != "construct":
        t = img.tell()
        if M.tell is None:
            M.tell = t
        elif t != M.tell:
            phase = "exhausted" if name == "next" and M.its.get(op[1]) and M.its[op[1]].dead else "running"
            viol(S, dict(sig0, clause="tell", phase=phase, faulted=bool(fired)),
                 f"after {label}: image.tell()={t}, expected {M.tell}")
            S.stop = True


def _iterm2_payload_size(s):
    """Pixel size of the (single) image carried by an iTerm2 WHOLE render, or None."""
    import base64

    i = s.find("\x1b]1337;File=")
    if i < 0:
        return None
    j = s.find(":", i)
    e = s.find("\x1b\\", j)
    if j < 0 or e < 0:
        return None
    try:
        im = T.orig_open(io.BytesIO(base64.standard_b64decode(s[j + 1:e])))
        return im.size
    except Exception:
        return None


def frame_mismatch(S, sig0, got, want, k, spec):
    cfg = S.cfg
    cause = "other"
    if cfg["style"].startswith("iterm2") and "+A" in cfg["spec"]:
        a, b = _iterm2_payload_size(got), _iterm2_payload_size(want)
        if a and b and a != b and got.count("\x1b]1337") == 1:
            cause = "anim-fallback-payload-not-minimal-size"
    viol(S, dict(clause="frame-differs-from-direct-format", op="next", style="iterm2" if cfg["style"].startswith("iterm2") else cfg["style"],
                 method=(cfg["spec"].partition("+")[2] or "-")[:1], cause=cause),
         f"next: frame {k} at size {S.M.size} differs from format(twin seeked to {k}, {spec!r})"
         + (f": payload is {_iterm2_payload_size(got)} px, direct WHOLE render is {_iterm2_payload_size(want)} px"
            if cause != "other" else ""))
    if cause == "other":
        S.stop = True


# ------------------------------------------------------------------------------------- search
def fault_kinds(cfg, step):
    if cfg.get("all_kinds") or step.startswith("save@"):
        return ("OSError", "ValueError")
    return ("OSError",)


def fault_trials(cfg, op, s):
    """The fault menu of one operation, from its fault-free run *s*: every PIL call index x kind, and for the
    draw operations of a `pipe` configuration every stdout write/flush index x persistent failure kind."""
    out = []
    for k, (stp, _line) in enumerate(s.points_last, 1):
        for kind in fault_kinds(cfg, stp):
            out.append([k, kind])
    if cfg.get("pipe") and op[0] in DRAW_OPS:
        for k in range(1, s.so_points_last + 1):
            for kind in cfg["pipe"]:
                out.append([k, kind])
    return out


def explore_cfg(cfg, col):
    depth = cfg["depth"]
    s0 = execute(cfg, [], col, fresh=True)
    if s0.stop or s0.canon is None:
        return
    seen = {s0.canon: 0}
    frontier = collections.deque([([], s0.enabled)])
    transitions = 0
    left = 0
    nexec = 0
    while frontier:
        h, ops = frontier.popleft()
        if len(h) >= depth:
            left += 1
            continue
        fault_used = any(f for _, f in h)
        for op in ops:
            trials = [None]
            first = True
            base_leaks = ()
            while trials:
                fault = trials.pop(0)
                nh = h + [[op, fault]]
                s = execute(cfg, nh, col, base_leaks=base_leaks if fault else None)
                nexec += 1
                transitions += 1
                if nexec % 97 == 0:     # determinism guard: same history, same observation
                    s2 = execute(cfg, nh, Collector(), fresh=True)
                    if s2.canon != s.canon or s2.new_viol != s.new_viol:
                        raise world.HarnessError(f"C11: nondeterministic replay of {nh} in {cfg}")
                if first:
                    first = False
                    base_leaks = s.leaks_last or ()
                    if not fault_used and cfg["faults"] and s.canon is not None:
                        # (a fault-free run that already broke the property is not varied further)
                        trials.extend(fault_trials(cfg, op, s))
                        if cfg.get("pipe") and op[0] in DRAW_OPS:
                            col.max("stdout_points_per_draw", s.so_points_last)
                    col.max("fault_points_per_op", len(s.points_last))
                elif fault[1] in STDOUT_KINDS:
                    col.inc("faulted_executions")
                    col.inc("persistent_stdout_fault_executions")
                    col.add_distinct(("fault", op_label(op), "stdout", fault[0], fault[1], cfg["style"], cfg["src"]))
                elif s.points_last and len(s.points_last) >= fault[0]:
                    col.inc("faulted_executions")
                    col.add_distinct(("fault", op_label(op), s.points_last[fault[0] - 1][0], fault[1], cfg["style"],
                                      cfg["src"]))
                if s.canon is None:
                    continue
                if s.canon not in seen:
                    seen[s.canon] = len(nh)
                    frontier.append((nh, s.enabled))
                    col.add_distinct((cfg["id"], s.canon))
                    col.max("depth", len(nh))
                    if len(seen) % 211 == 0:
                        col.sample(dict(cfg=cfg["id"], hist=nh))
    col.inc("states", len(seen))
    col.inc("transitions", transitions)
    col.inc("frontier_states_at_depth_bound", left)
    if not left:
        col.inc("configs_at_fixpoint")
    col.inc("configs")
    return seen


def guard_cfg(cfg, col):
    """DESIGN 2.5(3): enumerate *all* histories up to a small depth without merging states and require the
    same set of canonical states and the same set of violation signatures as the merged search."""
    d = cfg["guard"]
    mcol = Collector()
    seen = explore_cfg(dict(cfg, depth=d), mcol)
    ucol = Collector()
    states = set()
    s0 = execute(cfg, [], ucol, fresh=True)
    states.add(s0.canon)
    stack = [([], s0.enabled)]
    n = 0
    while stack:
        h, ops = stack.pop()
        if len(h) >= d:
            continue
        fault_used = any(f for _, f in h)
        for op in ops:
            s = execute(cfg, h + [[op, None]], ucol)
            n += 1
            runs = [(None, s)]
            if not fault_used and cfg["faults"] and s.canon is not None:
                for flt in fault_trials(cfg, op, s):
                    runs.append((flt, execute(cfg, h + [[op, flt]], ucol, base_leaks=s.leaks_last or ())))
                    n += 1
            for fault, r in runs:
                if r.canon is not None:
                    states.add(r.canon)
                    stack.append((h + [[op, fault]], r.enabled))
    if states != set(seen) or set(ucol.violations) != set(mcol.violations):
        raise world.HarnessError(
            f"C11: state merging is unsound for {cfg['id']}: {len(states)} states / {len(ucol.violations)} violation "
            f"signatures by plain enumeration to depth {d}, {len(seen)} / {len(mcol.violations)} by the merged search; "
            f"only-plain={sorted(set(ucol.violations) - set(mcol.violations))[:2]} "
            f"only-merged={sorted(set(mcol.violations) - set(ucol.violations))[:2]}")
    col.merge(mcol)
    col.count(ucol.evaluations)
    col.inc("canon_guard_histories", n)
    col.inc("canon_guard_states", len(states))


# ------------------------------------------------------------------------------------- constructor product
def ctor_cases():
    cases = []
    for style in STYLES:
        for route, want in (("/text.gif", "UnidentifiedImageError"), ("/empty.gif", "UnidentifiedImageError"),
                            ("/error.gif", "UnidentifiedImageError"), ("/nope.gif", "URLNotFoundError"),
                            ("/gone-with-image.gif", "URLNotFoundError")):
            cases.append(dict(part="ctor", style=style, via="url", target=route, kw="ok", want=want))
        for via, targets in (("url", ("/anim.gif", "/still.png")), ("file", ("gif", "png")), ("pil", ("gif", "png"))):
            for target in targets:
                for kw, want in (("width0", "ValueError"), ("widthstr", "TypeError"), ("mixed", "TypeError"),
                                 ("unknown", "TypeError")):
                    cases.append(dict(part="ctor", style=style, via=via, target=target, kw=kw, want=want))
                cases.append(dict(part="ctor", style=style, via=via, target=target, kw="ok", want=None))
                if via != "pil":
                    cases.append(dict(part="ctor", style=style, via=via, target=target, kw="ok", want="Injected",
                                      fault=[1, "OSError"]))
        for target, want in (("missing", "FileNotFoundError"), ("text", "UnidentifiedImageError"),
                             ("dir", "IsADirectoryError")):
            cases.append(dict(part="ctor", style=style, via="file", target=target, kw="ok", want=want))
        cases.append(dict(part="ctor", style=style, via="url", target="not-a-url", kw="ok", want="ValueError"))
        cases.append(dict(part="ctor", style=style, via="url", target="refused", kw="ok", want="ConnectionError"))
    for style in ("kitty", "iterm2w"):          # style not supported by the active terminal
        for via, target in (("url", "/anim.gif"), ("file", "gif"), ("pil", "gif")):
            cases.append(dict(part="ctor", style=style, via=via, target=target, kw="ok", want="StyleError",
                              ident="other"))
    return cases


def run_ctor(case, col):
    L = ensure_process()
    T.reset()
    purge_temp(L)
    _WORLD.clear()
    ident, clsname, _ = STYLES[case["style"]]
    world.setup(case.get("ident", ident), COLS, ROWS, cell=CELL)
    cls = getattr(L.image, clsname)
    Size = L.common.Size
    kw = {"ok": {}, "width0": dict(width=0), "widthstr": dict(width="3"), "mixed": dict(width=Size.FIT, height=2),
          "unknown": dict(no_such_argument=1)}[case["kw"]]
    via, target = case["via"], case["target"]
    pil = pil_files = None
    if via == "pil":
        pil = T.orig_open(K.files()[target])
        pil_files = [pil.fp] + [f for f in (getattr(pil, "_fp", None),) if f is not None and f is not pil.fp]
    base = K.nfds()
    sig0 = dict(op="construct", via=via, case=f"{target}:{case['kw']}")
    col.count()

    def bad(clause, what, **extra):
        col.violation(dict(sig0, clause=clause, **extra), f"{cls.__name__} via {via} {target} {kw}: {what}", case)

    img = None
    exc = None
    T.begin_op("construct", tuple(case["fault"]) if case.get("fault") else None)
    try:
        if via == "url":
            if target == "not-a-url":
                url = "not-a-url"
            elif target == "refused":
                url = "http://127.0.0.1:1/anim.gif"
            else:
                url = f"http://127.0.0.1:{_PORT}{target}"
            img = cls.from_url(url, **kw)
        elif via == "file":
            path = {"missing": os.path.join(K.imgkit.tmpdir(), "no-such-file.gif"),
                    "dir": K.imgkit.tmpdir()}.get(target) or K.files()[target]
            img = cls.from_file(path, **kw)
        else:
            img = cls(pil, **kw)
    except world.HarnessError:
        raise
    except Exception as e:
        exc = "Injected" if K.injected_in(e) else type(e).__name__
        e.__traceback__ = None
        del e
    finally:
        T.end_op()
    want = case["want"]
    if want is None and exc is not None:
        bad("exception", f"raised {exc}", exc=exc)
    elif want is not None and exc is None:
        bad("not-raised", f"expected {want}")
    elif want is not None and exc != want and not (want == "ConnectionError" and "Connect" in exc):
        bad("exception", f"raised {exc}, expected {want}", exc=exc)
    tmp = L.common._TEMP_DIR
    ls = os.listdir(tmp)
    if img is not None and via == "url":
        sp = getattr(img, "_source", None)
        ok = isinstance(sp, str) and ls == [os.path.basename(sp)]
        if ok:
            with open(sp, "rb") as f:
                ok = f.read() == K.file_bytes({"/anim.gif": "gif", "/still.png": "png"}[target])
        if not ok:
            bad("temp-dir", f"temp dir lists {ls} after a successful from_url", expected="one-copy")
    elif ls:
        bad("temp-dir", f"temp dir lists {ls} although no URL image is open", expected="empty")
    for r in T.records:
        if r.filebacked and r.is_open():
            bad("file-left-open", f"image file opened at {r.site[0]} is still open")
            r.force_close()
    if pil is not None and id(pil) in T.closed_ids:
        bad("caller-image-closed", "the caller's PIL image was closed")
    if pil is not None:
        base -= sum(1 for f in pil_files if isinstance(f, (io.BufferedReader, io.FileIO)) and f.closed)
    if K.nfds() != base:
        bad("fd-count", f"{K.nfds()} open descriptors, baseline {base}", delta="+" if K.nfds() > base else "-")
    if img is not None:
        # abandonment: dropping the last reference must remove the temp copy and close nothing of the caller's
        del img
        gc.collect()
        ls = os.listdir(tmp)
        if ls:
            bad("temp-dir", f"temp dir lists {ls} after the image was garbage-collected", expected="empty-after-gc")
        if pil is not None and id(pil) in T.closed_ids:
            bad("caller-image-closed", "the caller's PIL image was closed when the image object was collected")
        if K.nfds() != base:
            bad("fd-count", f"{K.nfds()} open descriptors after collection, baseline {base}", delta="gc")
    for fn in os.listdir(tmp):
        os.remove(os.path.join(tmp, fn))
    if pil is not None:
        pil.close()
    T.reset()
    col.add_distinct(("ctor", case["style"], via, target, case["kw"], bool(case.get("fault"))))


# ------------------------------------------------------------------------------------- configurations
SPECS = {
    "block": ["1.1", "", "6.4#", "1.1#102030", "1.1##"],
    "kitty": ["1.1+L", "1.1+W", "5.3#+W", "1.1#102030+L"],
    "iterm2w": ["1.1+L", "1.1+W", "1.1+A", "5.3#+W", "1.1#102030+A"],
    "iterm2k": ["1.1+L", "1.1+W", "1.1+A", "5.3#+W", "1.1#102030+A"],
}


def build_cfgs(tier):
    quick = tier == "quick"
    cfgs = []

    def add(src, style, size0, repeat, spec, cached, depth, maxit=1, faults=True, alphabet=None, all_kinds=False,
            guard=0, pipe=(), env=None):
        a = dict(sizes=("A", "D"))
        a.update(alphabet or {})
        c = dict(src=src, style=style, size0=size0, repeat=repeat, spec=spec, cached=cached, depth=depth,
                 maxit=maxit, faults=faults, alphabet=a, all_kinds=all_kinds, guard=guard, pipe=tuple(pipe), env=env)
        c["id"] = (f"{src}|{style}|{size0}|r{repeat}|{spec}|c{cached}|d{depth}|i{maxit}|f{int(faults)}"
                   + (f"|guard{guard}" if guard else "") + ("|pipe" if pipe else "") + (f"|{env}" if env else ""))
        cfgs.append(c)

    anim_srcs = ["file:gif", "file:apng", "file:apng-rgb", "pil:gif", "mem:gif", "url:gif"]
    still_srcs = ["file:png", "file:png-rgb", "pil:png", "mem:png", "url:png"]
    other = {"block": "B", "kitty": "U", "iterm2w": "U", "iterm2k": "U"}

    def flavours(style, si):
        """Three iterator flavours per (style, source); they rotate with the source index so that every
        (style, spec) and every (repeat, cached kind) combination occurs."""
        specs = SPECS[style]
        return [(1, specs[si % len(specs)], False, "A"), (2, specs[(si + 1) % len(specs)], True, other[style]),
                (-1, specs[(si + 2) % len(specs)], 2, "D")]

    full = dict(sizes=("A", "B", "D"), draw_anim=(1, 2), draw_int=(2,), str=1, n_frames=1,
                draw_bad=("repeat", "style", "cached"), reclose=1)
    if quick:
        for style in STYLES:
            for si, src in enumerate(anim_srcs):
                flav = flavours(style, si)
                if src == "url:gif":
                    flav = flav[:1]
                for rep, spec, cached, size0 in flav:
                    add(src, style, size0, rep, spec, cached, depth=3,
                        alphabet=dict(sizes=("A", "D"), draw_anim=(1,), draw_int=(2,) if rep < 0 else (),
                                      terms=("S",) if size0 == "D" else ()))
            for src in still_srcs:
                add(src, style, "A", 1, SPECS[style][1], False, depth=2, alphabet=dict(sizes=("A", "B")))
            # iteration logic (passes, seek, exhaustion, cache vs. size changes) without faults, deep
            for rep, cached in ((1, False), (2, True), (2, False), (-1, True)):
                add("file:gif", style, "A", rep, SPECS[style][0], cached, depth=9, faults=False,
                    alphabet=dict(sizes=("A", "B"), draw_anim=(), draw_bad=(), img_seek=(1,), only_iter=True))
            # the same with a *dynamic* size and terminal resizes between and inside the passes: every frame of
            # every pass (cached ones too) must be the frame-by-frame render at the terminal size of that moment
            for src, size0, rep, cached in (("file:apng", "D", 2, True), ("file:gif", "D", -1, True),
                                            ("file:apng", "F", -1, 2), ("pil:gif", "F", 2, 3)):
                add(src, style, size0, rep, SPECS[style][0], cached, depth=7, faults=False,
                    alphabet=dict(sizes=("A",), draw_anim=(), draw_bad=(), img_seek=(), only_iter=True,
                                  seek=(K.N_FRAMES[src.split(":")[1]] - 1,), terms=("S", "L")))
            # environment "warnings are errors" + native animation above native_anim_max_bytes (iterm2 only)
            if style.startswith("iterm2"):
                for src in ("file:gif", "url:gif", "pil:gif") if style == "iterm2w" else ("file:apng", "mem:gif"):
                    add(src, style, "A", 1, "1.1+A", False, depth=2, env="warn-error",
                        alphabet=dict(sizes=("D",), draw_anim=(1,), draw_bad=(), seek=(), img_seek=()))
            # standard output that fails for good from some write/flush of a draw on (closed pipe): the draw fails,
            # but the current frame, the size setting and every file are as after any other draw
            for src, rep, cached in (("file:gif", 1, False), ("pil:gif", 2, True), ("url:gif", 2, False)):
                add(src, style, "A", rep, SPECS[style][0], cached, depth=2, pipe=("BrokenPipe",),
                    alphabet=dict(sizes=("D",), draw_anim=(rep,), draw_int=(2,), draw_bad=(), seek=()))
            # sizes that do not fit the terminal: refused draws must leave nothing open, size and frame untouched
            for src, size0, sizes in (("file:gif", "W", ("A", "H")), ("url:gif", "H", ("A", "W")),
                                     ("file:png", "A", ("W", "H")), ("pil:gif", "W", ("H",))):
                add(src, style, size0, 2, SPECS[style][0], True, depth=2,
                    alphabet=dict(sizes=sizes, draw_anim=(1,), draw_int=(2,), terms=("S",)))
        for style in ("block", "iterm2w"):
            add("file:gif", style, "A", 2, SPECS[style][0], True, depth=2, guard=2,
                alphabet=dict(sizes=("A", "B"), draw_anim=(1,)))
    else:
        for style in STYLES:
            specs = SPECS[style]
            # (T1) the whole flavour product, shallow, every fault index
            for src in anim_srcs:
                nf = K.N_FRAMES[src.split(":")[1]]
                for rep in (1, 2, -1):
                    for spec in specs:
                        for cached in (False, True, 2, 3):
                            if rep == 1 and cached is not False:
                                continue        # repeat == 1 disables caching
                            if src.startswith("url") and (spec != specs[0] or cached not in (False, True)):
                                continue
                            size0 = "A" if cached is not True else other[style]
                            a = dict(full, seek=(0, nf - 1, nf), terms=("S",) if cached is True else (),
                                     draw_anim=(2,) if cached is not False else (1,))
                            if spec != specs[0]:    # str() and n_frames do not depend on the spec
                                a.pop("str")
                                a.pop("n_frames")
                            add(src, style, size0, rep, spec, cached, depth=3, alphabet=a)
            # (T2) deeper with every fault index, three flavours per (style, source)
            for si, src in enumerate(anim_srcs):
                nf = K.N_FRAMES[src.split(":")[1]]
                for rep, spec, cached, size0 in flavours(style, si)[: 1 if src.startswith("url") else 3]:
                    add(src, style, size0, rep, spec, cached, depth=5,
                        alphabet=dict(sizes=("A", "B", "D") if size0 != "U" else ("A", "U", "D"), draw_anim=(1,),
                                      draw_int=(2,) if rep < 0 else (), seek=(0, nf - 1),
                                      terms=("S",) if size0 == "D" else ()))
            # (T3) iteration logic without faults to the fixpoint (or depth 14)
            for rep, cached in ((1, False), (2, True), (2, False), (-1, True), (-1, 2)):
                for src in ("file:gif", "file:apng", "pil:gif"):
                    nf = K.N_FRAMES[src.split(":")[1]]
                    add(src, style, "A", rep, specs[0], cached, depth=14, faults=False,
                        alphabet=dict(sizes=("A", "B"), draw_anim=(), draw_bad=(), img_seek=(1,), only_iter=True,
                                      seek=(0, nf - 1, nf), terms=("S",) if cached is True and src == "file:gif" else ()))
            # (T3b) the same with dynamic sizes and terminal resizes between and inside the passes
            for rep, cached in ((2, True), (-1, True), (-1, 2), (2, False)):
                for src in ("file:gif", "file:apng", "pil:gif"):
                    nf = K.N_FRAMES[src.split(":")[1]]
                    for size0 in ("D", "F"):
                        add(src, style, size0, rep, specs[0], cached, depth=8, faults=False,
                            alphabet=dict(sizes=("A", size0), draw_anim=(), draw_bad=(), img_seek=(), only_iter=True,
                                          seek=(nf - 1,), terms=("S", "L")))
            # (T3c) persistently failing standard output from every write/flush index of every draw on
            for src in anim_srcs + ["file:png", "url:png"]:
                for rep, cached, size0 in ((1, False, "A"), (2, True, "D")):
                    if src.endswith("png") and rep == 2:
                        continue
                    add(src, style, size0, rep, specs[0], cached, depth=3, pipe=("BrokenPipe", "ClosedStdout"),
                        alphabet=dict(sizes=("A", "D"), draw_anim=(rep,), draw_int=(2,), draw_bad=(), seek=(0,)))
            # (T3d) environment "warnings are errors" + native animation above native_anim_max_bytes
            if style.startswith("iterm2"):
                for src in anim_srcs:
                    for spec in ("1.1+A", "1.1#102030+A"):
                        add(src, style, "A", 2, spec, True, depth=3, env="warn-error",
                            alphabet=dict(sizes=("D", "U"), draw_anim=(1,), draw_int=(2,), str=1, reclose=1))
            # (T4) two concurrent iterators on one image
            for src in ("file:gif", "pil:gif"):
                add(src, style, "A", 2, specs[0], True, depth=6, maxit=2, faults=False,
                    alphabet=dict(sizes=("A", "B"), draw_anim=(1,), draw_bad=()))
            # (T5) non-animated sources: every spec, both exception kinds at every step
            for src in still_srcs:
                for spec in specs:
                    add(src, style, "A", 1, spec, False, depth=3, alphabet=dict(sizes=("A", "B", "D"), reclose=1),
                        all_kinds=True)
            # (T7) sizes that do not fit the terminal (refused by every size-validating draw)
            for src in anim_srcs + still_srcs:
                for size0, sizes in (("W", ("A", "H", "D")), ("H", ("A", "W")), ("A", ("W", "H"))):
                    add(src, style, size0, 2, specs[0], True, depth=3,
                        alphabet=dict(sizes=sizes, draw_anim=(1,), draw_int=(2,), terms=("S",), reclose=1,
                                      draw_bad=("repeat", "style", "cached")))
            # (T6) soundness of the state merging: merged search == enumeration of all histories
            add("file:gif", style, "A", 2, specs[0], True, depth=3, guard=3,
                alphabet=dict(sizes=("A", "B"), draw_anim=(1,)))
    return cfgs


# ------------------------------------------------------------------------------------- two URL images
TWO_URLS = (("/a/x.gif", "gif"), ("/b/x.gif", "gif2"))      # same base name, different contents

_TWIN2 = {}


def twin_plain(L, style, key, k):
    """format(twin, '1.1') of frame k at size A, on a PIL image opened by the harness."""
    mk = (style, key, k)
    if mk not in _TWIN2:
        pil = T.orig_open(K.files()[key])
        try:
            tw = getattr(L.image, STYLES[style][1])(pil, **size_kwargs(L, style, "A"))
            tw.seek(k)
            _TWIN2[mk] = format(tw, "1.1")
            tw.close()
        finally:
            pil.close()
    return _TWIN2[mk]


def two_url_cases():
    cases = []
    for style in STYLES:
        for first_closed in (0, 1):
            for how in ("close", "drop"):
                cases.append(dict(part="two", style=style, first_closed=first_closed, how=how))
    return cases


def run_two_url(case, col):
    """Two URL-sourced images whose URLs end in the same base name, open at the same time: each has its own
    temporary copy for exactly as long as it is open, and renders / iterates like its own twin."""
    L = ensure_process()
    T.reset()
    purge_temp(L)
    _WORLD.clear()
    style = case["style"]
    ident, clsname, _ = STYLES[style]
    so = KStdout(None, True, None, record=False)
    world.setup(ident, COLS, ROWS, cell=CELL, stdout=so, clock=KClock(so))
    cls = getattr(L.image, clsname)
    tmp = L.common._TEMP_DIR
    base = K.nfds()
    col.count()
    state = dict(stop=False)

    def bad(clause, step, what, **extra):
        col.violation(dict(part="two-url-images", clause=clause, step=step, **extra),
                      f"{clsname}, two URL images .../a/x.gif and .../b/x.gif, after {step}: {what}", case)
        state["stop"] = True

    def act(step, f):
        T.begin_op(step)
        try:
            return f()
        except world.HarnessError:
            raise
        except Exception as e:
            if "Connect" in type(e).__name__:
                raise world.HarnessError(f"C11: the loopback HTTP server is unreachable ({e})")
            bad("exception", step, f"raised {type(e).__name__}: {str(e)[:150]}", exc=type(e).__name__)
            e.__traceback__ = None
            return None
        finally:
            T.end_op()

    imgs = [None, None]

    def check(step, owned=0):
        ls = sorted(os.listdir(tmp))
        want = []
        for i, im in enumerate(imgs):
            if im is None:
                continue
            sp = getattr(im, "_source", None)
            if not isinstance(sp, str) or not os.path.isfile(sp):
                bad("temp-dir", step, f"open URL image #{i} has no existing private copy (source {sp!r}, dir {ls})",
                    expected="own-copy")
                continue
            want.append(os.path.basename(sp))
            with open(sp, "rb") as f:
                if f.read() != K.file_bytes(TWO_URLS[i][1]):
                    bad("temp-dir", step, f"the private copy of URL image #{i} does not hold that image's bytes",
                        expected="own-bytes")
        if len(set(want)) != len(want):
            bad("temp-dir", step, "two open URL images share one temporary file", expected="distinct-copies")
        elif not state["stop"] and ls != sorted(want):
            bad("temp-dir", step, f"temp dir lists {ls}, expected exactly the copies of the open images {sorted(want)}",
                expected="exactly-the-open-copies")
        for r in T.records:
            if r.filebacked and r.is_open() and r.owner is None and not r.repaired:
                bad("file-left-open", step, f"image file opened at {r.site[2]} is still open")
                r.repaired = True
                r.force_close()
        if K.nfds() != base + owned and not state["stop"]:
            bad("fd-count", step, f"{K.nfds()} open descriptors, expected baseline {base} + {owned}")

    def render(i, step, k=0):
        im = imgs[i]
        act(step, lambda: im.seek(k))
        got = act(step, lambda: format(im, "1.1"))
        if got is not None and got != twin_plain(L, style, TWO_URLS[i][1], k):
            bad("frame-differs-from-direct-format", step, f"format() of URL image #{i} frame {k} is not that image's render")

    kw = size_kwargs(L, style, "A")
    try:
        for i in (0, 1):
            imgs[i] = act(f"open#{i}", lambda: cls.from_url(f"http://127.0.0.1:{_PORT}{TWO_URLS[i][0]}", **kw))
            if imgs[i] is None:
                return
            check(f"open#{i}")
        for i in (0, 1):
            if not state["stop"]:
                render(i, f"render#{i}-both-open", k=1)
                check(f"render#{i}-both-open")
        a = case["first_closed"]
        b = 1 - a
        if not state["stop"]:
            if case["how"] == "close":
                act(f"close#{a}", imgs[a].close)
            imgs[a] = None
            gc.collect()
            check(f"{case['how']}#{a}")
        if not state["stop"]:
            render(b, f"render#{b}-after-{case['how']}#{a}", k=0)
            it = act("iterate", lambda: L.common.ImageIterator(imgs[b], 1, "1.1", False))
            if it is not None:
                fr = act("iterate", lambda: next(it))
                if fr is not None and fr != twin_plain(L, style, TWO_URLS[b][1], 0):
                    bad("frame-differs-from-direct-format", "iterate", f"first iterated frame of URL image #{b} differs")
                act("iterate", it.close)
            del it
            for r in T.records:     # the iterator's own image must be closed by now
                r.owner = None
            check(f"iterate#{b}-after-{case['how']}#{a}")
        if not state["stop"]:
            if case["how"] == "close":
                act(f"close#{b}", imgs[b].close)
            imgs[b] = None
            gc.collect()
            check(f"{case['how']}#{b}-last")
    finally:
        T.armed = False
        imgs[:] = [None, None]
        for r in T.records + T.raw:
            if r.is_open():
                r.force_close()
        T.reset()
        gc.collect()
        purge_temp(L)
    col.add_distinct(("two", style, case["first_closed"], case["how"]))


def _shard(items):
    col = _CTX.new_collector()
    for kind, item in items:
        try:
            if kind == "ctor":
                run_ctor(item, col)
            elif kind == "two":
                run_two_url(item, col)
            elif item.get("guard"):
                guard_cfg(item, col)
            else:
                explore_cfg(item, col)
        except world.HarnessError:
            raise
    return col


def _prepare():
    global _PORT, _ROOT
    K.files()
    _PORT = K.start_server()
    if _ROOT is None:
        _ROOT = tempfile.mkdtemp(prefix="verif-c11-", dir=os.environ.get("VERIF_RUN_TMP") or "/var/tmp")
        import atexit

        pid = os.getpid()
        root = _ROOT
        atexit.register(lambda: os.getpid() == pid and shutil.rmtree(root, ignore_errors=True))


def run(ctx):
    global _CTX
    _CTX = ctx
    _prepare()
    cfgs = build_cfgs(ctx.tier)
    only = getattr(ctx, "opts", {}).get("only")
    if only:
        cfgs = [c for c in cfgs if only in c["id"]]
    if getattr(ctx, "opts", {}).get("depth"):
        cfgs = [dict(c, depth=int(ctx.opts["depth"])) for c in cfgs]
    items = [("ctor", c) for c in ctor_cases()] + [("two", c) for c in two_url_cases()] + [("bfs", c) for c in cfgs]
    if getattr(ctx, "opts", {}).get("noctor"):
        items = [i for i in items if i[0] == "bfs"]
    # warm-up in the parent (lazy imports, first-use descriptors) - not counted
    warm = ctx.new_collector()
    if cfgs:
        execute(dict(cfgs[0], src="url:gif"), [[["fmt"], None], [["draw_still"], None]], warm)
    # biggest searches first, then interleave
    items.sort(key=lambda it: -(it[1].get("depth", 0) * (2 if it[1].get("faults") else 1)) if it[0] == "bfs" else 0)
    items = explore.rotate(items)
    for col in explore.pmap(_shard, items, chunks_per_proc=8):
        ctx.merge(col)
    K.stop_server()
    if getattr(ctx, "opts", {}).get("dump"):
        for k, (cnt, sig, what, rep) in sorted(ctx.violations.items()):
            E(f"SIG x{cnt}: {k}\n      {what}\n      e.g. {rep.get('hist') if isinstance(rep, dict) else rep}")
    for c in ctor_cases()[:1] + cfgs[:1]:
        ctx.sample(c if "part" in c else dict(cfg=c["id"], hist=[]))
    ctx.coverage["states"] = ctx.extra.get("states", 0)
    ctx.coverage["transitions"] = ctx.extra.get("transitions", 0)
    ctx.coverage.update(
        configurations=len(cfgs), constructor_cases=len(ctor_cases()), two_url_image_cases=len(two_url_cases()),
        terminal=dict(cols=COLS, rows=ROWS, cell=CELL), styles={k: v[0] for k, v in STYLES.items()},
        sizes=SIZES, specs=SPECS, sources=sorted({c["src"] for c in cfgs}),
        fault_steps="every direct call from term_image code to PIL Image.open/new/frombytes and "
                    + "/".join(K.METHODS) + " plus iterm2's open(); one fault per history, every index",
        depths=sorted({c["depth"] for c in cfgs}),
    )
    if ctx.extra.get("frontier_states_at_depth_bound"):
        ctx.coverage["bounded_by_depth"] = True
    ctx.rule = ("distinct = distinct (configuration, canonical implementation+model state) reached by the BFS, plus "
                "distinct (operation, failing PIL step, exception kind, style, source) fault transitions, plus "
                "distinct constructor cases; evaluations = replays of a history on fresh real objects")
    ctx.assumptions += [
        "PIL (decode/convert/resize/encode) and requests are a trusted base; faults are injected at the boundary "
        "of direct calls from the library into PIL, as OSError (and ValueError where the library distinguishes it)",
        "the URL source is a loopback HTTP/1.0 server forked by the harness",
        "a file counts as closed only when its file object was closed explicitly - the harness keeps every opened "
        "image alive so that reference counting cannot close it",
        "an iterator stops owning its image once it is closed, dropped, exhausted or has raised",
    ]


def replay(ctx, case):
    global _CTX
    _CTX = ctx
    _prepare()
    try:
        if case.get("part") == "ctor":
            run_ctor(case, ctx)
        elif case.get("part") == "two":
            run_two_url(case, ctx)
        else:
            execute(case["cfg"], case["hist"], ctx, fresh=True)
    finally:
        K.stop_server()
