"""C12 Terminal queries report what the terminal said, whatever the timing.

Engine: choice tree over the environment's answers (explore.ChoiceTree) on the virtual tty
(world.VTty): for every responder configuration the *whole* tree of reply schedules is executed
(at every blocking select the next 1..k atomic replies arrive after a delay in {0, small, just
under the remaining timeout}); the real query code of term_image.utils / image.kitty /
image.iterm2 / image.__init__ runs against it.  Oracle: vlib/c12_model.py (XParseColor man page,
xterm ctlseqs, kitty protocol, class docstrings).

Parts
  A colour-grid   every component-width combination 1..4^3 x value patterns x {ST, BEL}, default schedule
  B colours       selected specs x every subset of {OSC10, OSC11, DA1} supported x every schedule
  C namever       identity strings x every subset of {XTVERSION, DA1} x every schedule
  D cell          every subset of {16t, 14t, DA1} x ioctl pixel size {present, zero, half-zero} x swap x every schedule
  E auto          identity x kitty graphics reply x DA1 on/off x every schedule of both queries:
                  KittyImage/ITerm2Image/BlockImage.is_supported, auto_image_class, AutoImage, from_file
  F defaults      every operation with queries disabled and against a terminal that answers nothing
  G late          (outside the premise) schedules in which a wait may expire although replies are still
                  to come: only "no exception, returns within the timeout, attributes restored" is judged
"""
from __future__ import annotations

import copy
import itertools
import os

from .. import explore, world
from .. import c12_model as M
from ..harness import h64

ID = "C12"
LEVEL = "exploration"

EPS = 1e-6
DA1 = b"\x1b[?62;4c"

# identity strings: (XTVERSION text, note)
IDENTS_QUICK = [
    None,
    b"kitty(0.30.1)", b"kitty(0.19.9)", b"kitty(0.20.0)",
    b"Konsole 22.03.9", b"Konsole 22.04.0", b"Konsole 22.12.3",
    b"WezTerm 20240203-110809-5046fc22", b"iTerm2 3.4.19", b"XTerm(370)", b"foot(1.16.2)",
    b"kitty(0.x.1)",
]
IDENTS_MORE = [
    b"kitty(0.21.2)", b"kitty(1.0.0)", b"Konsole 21.12.3", b"Konsole 23.08.5", b"Konsole 22.b",
    b"tmux 3.3a", b"contour 0.3.12.262", b"mintty(3.6.4)", b"VTE(7200)", b"iTerm2 3.5.0beta11",
    b"WezTerm 20230712-072601-f4abf8fd", b"unknown_term(c)", b"KITTY(0.30.1)",
]

GETS = ("colors", "colors-rgb", "colors-hex", "namever", "cell")
TOGGLES = ("disable", "enable", "swap-on", "swap-off")

KITTY_REPLIES = [b"OK", b"ENOTSUPPORTED:", b"EINVAL:unsupported action", None]


# ---------------------------------------------------------------------------------- execution
def execute(case, chooser):
    """Run one operation on a fresh world against a fresh tty.  Returns the observation dict."""
    L = world.load()
    world.reset_world()
    r = case["resp"]
    st = b"\x07" if r.get("st") == "BEL" else b"\x1b\\"
    enc = lambda v: None if v is None else (v.encode("latin-1") if isinstance(v, str) else v)  # noqa: E731
    resp = world.Responder(
        da1=_da1(r.get("da1", True)),
        xtversion=enc(r.get("xtversion")), fg=enc(r.get("fg")), bg=enc(r.get("bg")),
        text_area_px=tuple(r["t14"]) if r.get("t14") else None,
        cell_px=tuple(r["t16"]) if r.get("t16") else None,
        kitty=enc(r.get("kitty")), st=st)
    cols, rows, xpx, ypx = case.get("win", (80, 24, 0, 0))
    tty = M.TraceTty(cols, rows, xpx, ypx, responder=resp, attrs=M.make_attrs(case.get("attrs", "canon-echo")),
                     chooser=chooser, allow_silence=bool(case.get("late")), eager=case.get("eager", True))
    world.install(tty)
    env = {k: v for k, v in os.environ.items() if k not in ("TERM_PROGRAM", "TERM_PROGRAM_VERSION")}
    for k, v in zip(("TERM_PROGRAM", "TERM_PROGRAM_VERSION"), case.get("env") or (None, None)):
        if v is not None:
            env[k] = v
    L.utils.os.environ = env         # the proxy standing in for `os` inside term_image.utils (a per-execution copy)
    if case.get("swap"):
        L.ti.enable_win_size_swap()
    if not case.get("enabled", True):
        L.ti.disable_queries()
    timeout = case.get("timeout", 0.1)
    if timeout != 0.1:
        L.ti.set_query_timeout(timeout)
    before = copy.deepcopy(tty.attrs)
    t0 = tty.clock
    op = case["op"]
    out = {}
    try:
        if op == "colors":
            out["colors"] = L.utils.get_fg_bg_colors()
        elif op == "colors-hex":
            out["hex"] = L.utils.get_fg_bg_colors(hex=True)
        elif op == "namever":
            out["namever"] = L.utils.get_terminal_name_version()
        elif op == "cell":
            c = L.utils.get_cell_size()
            out["cell"] = None if c is None else tuple(c)
            c2 = L.utils.get_cell_size()            # memoised per terminal size: no second query
            out["cell2"] = None if c2 is None else tuple(c2)
        elif op == "auto":
            K, I, B = L.image.KittyImage, L.image.ITerm2Image, L.image.BlockImage
            names = {K: "kitty", I: "iterm2", B: "block"}
            out["auto"] = names.get(L.image.auto_image_class(), "?")
            out["sup"] = (K.is_supported(), I.is_supported(), B.is_supported())
            out["namever"] = L.utils.get_terminal_name_version()
            out["AutoImage"] = names.get(type(L.image.AutoImage(_img())), "?")
            out["from_file"] = names.get(type(L.image.from_file(_png())), "?")
        elif op == "session":
            K, I, B = L.image.KittyImage, L.image.ITerm2Image, L.image.BlockImage
            names = {K: "kitty", I: "iterm2", B: "block"}
            steps = []
            out["steps"] = steps
            for step in case["steps"]:
                w0, n0 = tty.nwrites, len(tty.inq) + len(tty.pending)
                if step == "colors":
                    v = L.utils.get_fg_bg_colors()
                elif step == "namever":
                    v = L.utils.get_terminal_name_version()
                elif step == "cell":
                    v = L.utils.get_cell_size()
                    v = None if v is None else tuple(v)
                elif step == "auto":
                    v = names.get(L.image.auto_image_class(), "?")
                elif step == "kitty":
                    v = K.is_supported()
                elif step == "iterm2":
                    v = I.is_supported()
                steps.append((step, v, tty.nwrites - w0, bytes(tty.inq), len(tty.pending)))
        elif op == "history":
            steps = []
            out["steps"] = steps
            for step in case["steps"]:
                v = None
                if step == "colors":
                    v = L.utils.get_fg_bg_colors()
                elif step == "colors-rgb":
                    v = L.utils.get_fg_bg_colors(hex=False)
                elif step == "colors-hex":
                    v = L.utils.get_fg_bg_colors(hex=True)
                elif step == "namever":
                    v = L.utils.get_terminal_name_version()
                elif step == "cell":
                    v = L.utils.get_cell_size()
                    v = None if v is None else tuple(v)
                elif step == "disable":
                    L.ti.disable_queries()
                elif step == "enable":
                    L.ti.enable_queries()
                elif step == "swap-on":
                    L.ti.enable_win_size_swap()
                elif step == "swap-off":
                    L.ti.disable_win_size_swap()
                else:
                    raise world.HarnessError(f"unknown step {step}")
                steps.append((step, v, 0, bytes(tty.inq), len(tty.pending)))
        else:
            raise world.HarnessError(f"unknown op {op}")
    except world.HarnessError:
        raise
    except explore.ReplayDivergence:
        raise
    except Exception as e:  # noqa: BLE001 - an exception on a valid terminal is a violation
        out["exception"] = f"{type(e).__name__}: {e}"
    out.update(
        inq=bytes(tty.inq), pending=len(tty.pending), echoed=bytes(tty.echoed),
        elapsed=tty.clock - t0, nq=tty.nwrites, timeout=timeout,
        attrs_diff=M.attrs_diff(before, tty.attrs), trace=tuple(tty.trace),
        late=tty.expired_with_pending, ncalls=tty.ncalls, written=bytes(tty.out))
    return out


def _da1(v):
    if v is True:
        return DA1
    if not v:
        return None
    return v.encode("latin-1") if isinstance(v, str) else v


DA1_VARIANTS = ["\x1b[?1;2c", "\x1b[?64;1;2;6;9;15;16;17;18;21;22;28c", "\x1b[?6c"]
# a long (174-byte) but well-formed DA1 reply: more than one 100-byte read is needed to drain its tail
DA1_VARIANTS.append("\x1b[?64;" + ";".join(str(i) for i in range(1, 60)) + "c")

_IMG = None
_PNG = None


def _img():
    global _IMG
    if _IMG is None:
        from ..imgkit import pattern

        _IMG = pattern(4, 4)
    return _IMG


def _png():
    global _PNG
    if _PNG is None:
        from ..imgkit import png

        _PNG = png(4, 4)
    return _PNG


# ---------------------------------------------------------------------------------- oracle
def judge(col, case, obs, choices):
    op = case["op"]
    r = case["resp"]
    rep = dict(case=case, choices=list(choices))
    enabled = case.get("enabled", True)
    base = dict(op=op)

    def bad(clause, what, _base=None, **extra):
        sig = dict(base if _base is None else _base, clause=clause, **extra)
        col.violation(sig, f"{what} [config: {_short(case)}; schedule: {list(obs['trace'])}]", rep)

    if "exception" in obs:
        bad("exception", obs["exception"], exc=obs["exception"].split(":")[0])
    # -- always claimed: bounded time, attributes restored
    if obs["elapsed"] > obs["nq"] * obs["timeout"] + EPS:
        bad("within-timeout", f"{obs['nq']} queries took {obs['elapsed']:.4f}s of virtual time, timeout "
            f"{obs['timeout']}s each")
    if obs["attrs_diff"]:
        bad("attrs-restored", f"terminal attributes differ afterwards: {obs['attrs_diff']}")
    if not enabled and obs["nq"]:
        pass  # writing while disabled is not part of the statement
    premise = not obs["late"]
    if not premise:
        col.inc("outside_premise_executions")
        return
    if "exception" in obs:
        return
    # -- under the premise
    if obs["inq"] or obs["pending"]:
        bad("input-drained", f"reply bytes left unread: {obs['inq']!r} (+{obs['pending']} replies never awaited)",
            **(dict(kitty_reply=_kr(r)) if op == "auto" else {}))
    if obs["echoed"]:
        bad("no-echo", f"reply bytes were echoed by the tty: {obs['echoed'][:20]!r}")

    if op in ("colors", "colors-hex"):
        fg = M.ref_colour(r.get("fg")) if enabled else None
        bg = M.ref_colour(r.get("bg")) if enabled else None
        if op == "colors":
            got = obs.get("colors")
            ok = isinstance(got, tuple) and len(got) == 2 and M.colour_ok(got[0], fg) and M.colour_ok(got[1], bg)
        else:
            got = obs.get("hex")
            ok = isinstance(got, tuple) and len(got) == 2 and M.hex_ok(got[0], fg) and M.hex_ok(got[1], bg)
        if not ok:
            chk = M.colour_ok if op == "colors" else M.hex_ok
            if isinstance(got, tuple) and len(got) == 2:
                failing = [sp for g, ref_, sp in ((got[0], fg, r.get("fg")), (got[1], bg, r.get("bg")))
                           if not chk(g, ref_)]
            else:
                failing = [r.get("fg"), r.get("bg")]
            mixed = all(sp is not None and len(set(M.widths(sp))) > 1 for sp in failing)
            # one signature per kind of colour failure, whatever the part / API / schedule
            bad("colour-value", f"reported {got!r} for fg={r.get('fg')} bg={r.get('bg')} "
                f"(acceptable: fg {_acc(fg)}, bg {_acc(bg)})",
                _base={}, component_widths="mixed" if mixed else "uniform")
    elif op == "namever":
        want = ref_nv(case, enabled)
        if obs.get("namever") != want:
            bad("name-version", f"reported {obs.get('namever')!r}, terminal said {r.get('xtversion')!r}, environment "
                f"TERM_PROGRAM/_VERSION={case.get('env')} -> {want!r}",
                source="reply" if enabled and r.get("xtversion") is not None else "environment" if case.get("env") else "none")
    elif op == "cell":
        cols, rows, xpx, ypx = case["win"]
        want = M.ref_cell(cols, rows, xpx, ypx, r.get("t16"), r.get("t14"), bool(case.get("swap")), enabled)
        if obs.get("cell") != want:
            bad("cell-size", f"reported {obs.get('cell')!r}, expected {want!r} (ioctl {xpx}x{ypx}px, 16t={r.get('t16')}, "
                f"14t={r.get('t14')}, swap={bool(case.get('swap'))})",
                source="ioctl" if xpx and ypx else "16t" if r.get("t16") else "14t" if r.get("t14") else "none")
        if obs.get("cell2") != obs.get("cell"):
            bad("cell-size-stable", f"second call reported {obs.get('cell2')!r} after {obs.get('cell')!r}")
    elif op == "session":
        name, version = M.ref_name_version(r.get("xtversion"))
        rk, ri = M.ref_kitty(name, version, _enc(r.get("kitty"))), M.ref_iterm2(name, version)
        cols, rows, xpx, ypx = case["win"]
        for i, (step, v, nw, inq, pend) in enumerate(obs.get("steps", ())):
            if inq or pend:
                bad("input-drained", f"step {i} ({step}): reply bytes left unread: {inq!r} (+{pend} replies)", step=step)
            if step == "colors":
                okv = (isinstance(v, tuple) and len(v) == 2 and M.colour_ok(v[0], M.ref_colour(r.get("fg")))
                       and M.colour_ok(v[1], M.ref_colour(r.get("bg"))))
                want = (r.get("fg"), r.get("bg"))
            elif step == "namever":
                want = (name, version)
                okv = v == want
            elif step == "cell":
                want = M.ref_cell(cols, rows, xpx, ypx, r.get("t16"), r.get("t14"), bool(case.get("swap")), True)
                okv = v == want
            elif step == "kitty":
                want, okv = rk, (rk is None or v is rk)
            elif step == "iterm2":
                want, okv = ri, (ri is None or v is ri)
            else:
                if rk is None or ri is None:
                    continue
                want = "kitty" if rk else "iterm2" if ri else "block"
                okv = v == want
            if not okv:
                bad("session-value", f"step {i} ({step}) of {case['steps']} reported {v!r}, expected {want!r}", step=step)
    elif op == "history":
        # reference state: queries enabled?, swap on?  A get made while queries are enabled must equal what
        # the responder says under the current settings (enable_queries / the swap toggles invalidate what was
        # memoised); while they are disabled the documented default or a still-valid earlier answer is accepted.
        en, swap = bool(case.get("enabled", True)), bool(case.get("swap"))
        cols, rows, xpx, ypx = case["win"]
        nv = M.ref_name_version(r.get("xtversion"))
        fg, bg = M.ref_colour(r.get("fg")), M.ref_colour(r.get("bg"))
        for i, (step, v, nw, inq, pend) in enumerate(obs.get("steps", ())):
            if inq or pend:
                bad("input-drained", f"step {i} ({step}): reply bytes left unread: {inq!r} (+{pend} replies)", step=step)
            if step == "disable":
                en = False
            elif step == "enable":
                en = True
            elif step == "swap-on":
                swap = True
            elif step == "swap-off":
                swap = False
            else:
                if step in ("colors", "colors-rgb", "colors-hex"):
                    chk = M.hex_ok if step == "colors-hex" else M.colour_ok
                    full = isinstance(v, tuple) and len(v) == 2 and chk(v[0], fg) and chk(v[1], bg)
                    okv = full or (not en and v == (None, None))
                    want = (r.get("fg"), r.get("bg"), "as #rrggbb" if step == "colors-hex" else "as 0-255 triples")
                elif step == "namever":
                    okv = v == nv or (not en and v == (None, None))
                    want = nv
                else:
                    want = M.ref_cell(cols, rows, xpx, ypx, r.get("t16"), r.get("t14"), swap, True)
                    okv = v == want or (not en and v == M.ref_cell(cols, rows, xpx, ypx, None, None, swap, False))
                if not okv:
                    hist = case["steps"][:i + 1]
                    bad("history-value", f"after {hist} (queries {'enabled' if en else 'disabled'}, swap {swap}) {step} "
                        f"reported {v!r}, the terminal says {want!r}", step=step, queries="enabled" if en else "disabled",
                        after_toggle=next((t for t in reversed(hist[:-1]) if t in TOGGLES), "none"))
    elif op == "auto":
        name, version = ref_nv(case, enabled)
        kreply =_enc(r.get("kitty")) if enabled else None
        if obs.get("namever") != (name, version):
            bad("name-version", f"reported {obs.get('namever')!r}, terminal said {r.get('xtversion')!r}, environment "
                f"TERM_PROGRAM/_VERSION={case.get('env')}",
                source="reply" if enabled and r.get("xtversion") is not None else "environment" if case.get("env") else "none")
        rk, ri = M.ref_kitty(name, version, kreply), M.ref_iterm2(name, version)
        sk, si, sb = obs["sup"]
        if rk is not None and sk is not rk:
            bad("kitty-support", f"KittyImage.is_supported()={sk}, documented rule gives {rk} for {name} {version} "
                f"with graphics reply {kreply!r}", term=name)
        if ri is not None and si is not ri:
            bad("iterm2-support", f"ITerm2Image.is_supported()={si}, documented rule gives {ri} for {name} {version}",
                term=name)
        if sb is not True:
            bad("block-support", f"BlockImage.is_supported()={sb} with COLORTERM=truecolor")
        ek = sk if rk is None else rk
        ei = si if ri is None else ri
        want = "kitty" if ek else "iterm2" if ei else "block"
        for k in ("auto", "AutoImage", "from_file"):
            if obs.get(k) != want:
                bad("auto-selection", f"{k} picked {obs.get(k)}, most capable supported style is {want} "
                    f"(kitty={ek}, iterm2={ei})", api=k, want=want)


def ref_nv(case, enabled=True):
    """Name and version: the XTVERSION reply when there is one, else the documented fallback - the
    TERM_PROGRAM / TERM_PROGRAM_VERSION environment variables (name lower-cased), else None."""
    xt = case["resp"].get("xtversion")
    if enabled and xt is not None:
        return M.ref_name_version(xt)
    name, version = case.get("env") or (None, None)
    return (name.lower() if name else None, version)


ENVS = [("WezTerm", "20240203-110809-5046fc22"), ("iTerm.app", None), (None, "1.2"), ("kitty", "0.30.1")]


def _enc(v):
    return None if v is None else (v.encode("latin-1") if isinstance(v, str) else v)


def _kr(r):
    k = _enc(r.get("kitty"))
    if k is None:
        return "none"
    return "OK" if k == b"OK" else ("error-with-c" if b"c" in k else "error")


def _acc(ref):
    return None if ref is None else [sorted(s) for s in ref]


def _short(case):
    d = {k: v for k, v in case.items() if k not in ("part",)}
    return d


# ---------------------------------------------------------------------------------- case building
def _digits(n, pat):
    return {"0": "0" * n, "f": "f" * n, "8": "8" + "0" * (n - 1), "7": "7" + "f" * (n - 1),
            "1": "0" * (n - 1) + "1", "A": "A5c3"[:n], "e": "f" * (n - 1) + "e"}[pat]


def spec(lens, pats):
    return "rgb:" + "/".join(_digits(n, p) for n, p in zip(lens, pats))


def mixed_case(text):
    """Alternate the case of the hex letters: 'ffff/a5c3' -> 'fFfF/a5C3'."""
    out, up = [], False
    for ch in text:
        if ch.isalpha():
            out.append(ch.upper() if up else ch.lower())
            up = not up
        else:
            out.append(ch)
    return "".join(out)


def build_cases(tier):
    quick = tier == "quick"
    cases = []
    add = cases.append
    # ---- A: colour grid, default schedule (bound 0)
    pats = "0f8A" if quick else "0f87A1e"
    for lens in itertools.product((1, 2, 3, 4), repeat=3):
        for pp in itertools.product(pats, repeat=3):
            fg0 = spec(lens, pp)
            bg0 = spec(lens[1:] + lens[:1], pp[::-1])
            seen_specs = set()
            for render in (str.lower, str.upper, mixed_case):     # hex digits are case-insensitive
                fg, bg = "rgb:" + render(fg0[4:]), "rgb:" + render(bg0[4:])
                if (fg, bg) in seen_specs:
                    continue
                seen_specs.add((fg, bg))
                for st in ("ST", "BEL"):
                    add(dict(part="A", op="colors", resp=dict(fg=fg, bg=bg, st=st), bound=0))
    # ---- B: colours under every schedule and every subset of supported queries
    specs = [("rgb:ffff/ffff/ffff", "rgb:0000/0000/0000"), ("rgb:8080/1a1a/e0e0", "rgb:12/34/56"),
             ("rgb:f/f/f", "rgb:c0c/1c1/ccc"), ("rgb:f/ffff/ff", "rgb:ffff/ff/f")]
    if not quick:
        specs += [("rgb:1/2/3", "rgb:fff/000/800"), ("rgb:ABCD/abcd/00C0", "rgb:c/c/c"),
                  ("rgb:00/8000/f", "rgb:7fff/80/8")]
    attr_sets = ["canon-echo"] if quick else ["canon-echo", "raw-noecho-vmin0-vtime5", "raw-echo-vmin1"]
    timeouts = [0.1, 0.05, 0.5] if quick else [0.1, 0.03, 0.05, 0.5]   # configured query timeouts: both sides of the default
    timeouts_e = [0.1] if quick else [0.1, 0.03]
    for fg, bg in specs:
        for sup in itertools.product((True, False), repeat=3):
            for st in ("ST", "BEL"):
                for at in attr_sets:
                    for to in timeouts:
                        for op in ("colors", "colors-hex"):
                            if op == "colors-hex" and (at != "canon-echo" or to != 0.1):
                                continue
                            add(dict(part="B", op=op, attrs=at, timeout=to,
                                     resp=dict(fg=fg if sup[0] else None, bg=bg if sup[1] else None, da1=sup[2], st=st)))
    # ---- C: name / version
    idents = IDENTS_QUICK + ([] if quick else IDENTS_MORE)
    for ident in idents:
        for da1 in (True, False):
            for at in attr_sets:
                for to in timeouts:
                    add(dict(part="C", op="namever", attrs=at, timeout=to,
                             resp=dict(xtversion=None if ident is None else ident.decode(), da1=da1)))
                    if ident in (None, b"XTerm(370)") and to == 0.1:
                        for env in ENVS:       # XTVERSION unsupported -> the environment identifies the terminal
                            add(dict(part="C", op="namever", attrs=at, timeout=to, env=list(env),
                                     resp=dict(xtversion=None if ident is None else ident.decode(), da1=da1)))
    # ---- D: cell size
    wins = [(80, 24, 0, 0), (80, 24, 800, 480), (80, 24, 0, 480)]
    if not quick:
        wins += [(80, 24, 800, 0), (100, 30, 900, 510), (7, 3, 0, 0)]
    for win in wins:
        cols, rows = win[:2]
        for sup in itertools.product((True, False), repeat=3):
            for swap in (False, True):
                for at in attr_sets:
                    t16 = (17, 9) if sup[0] else None            # height;width
                    t14 = (rows * 16, cols * 7) if sup[1] else None
                    add(dict(part="D", op="cell", win=win, swap=swap, attrs=at,
                             resp=dict(t16=t16, t14=t14, da1=sup[2])))
    # ---- E: support detection and automatic selection
    kreps = KITTY_REPLIES
    for ident in idents:
        for kr in kreps:
            for da1 in (True, False):
                for at in attr_sets:
                    for to in timeouts_e:
                        add(dict(part="E", op="auto", win=(80, 24, 800, 480), attrs=at, timeout=to,
                                 resp=dict(xtversion=None if ident is None else ident.decode(),
                                           kitty=None if kr is None else kr.decode(), da1=da1)))
                    if ident in (None, b"XTerm(370)") and at == "canon-echo":
                        for env in (ENVS[0], ENVS[3]):
                            add(dict(part="E", op="auto", win=(80, 24, 800, 480), attrs=at, env=list(env),
                                     resp=dict(xtversion=None if ident is None else ident.decode(),
                                               kitty=None if kr is None else kr.decode(), da1=da1)))
    # ---- F: documented defaults: queries disabled / a terminal that answers nothing
    full = dict(fg="rgb:ffff/ffff/ffff", bg="rgb:0000/0000/0000", xtversion="kitty(0.30.1)", kitty="OK",
                t16=(17, 9), t14=(384, 560), da1=True)
    mute = dict(da1=False)
    for op in ("colors", "colors-hex", "namever", "cell", "auto"):
        for win in ((80, 24, 0, 0), (80, 24, 800, 480)):
            for at in attr_sets:
                for to in timeouts:
                    for swap in ((False, True) if op == "cell" else (False,)):
                        add(dict(part="F", op=op, win=win, attrs=at, timeout=to, swap=swap, enabled=False, resp=full))
                        add(dict(part="F", op=op, win=win, attrs=at, timeout=to, swap=swap, enabled=True, resp=mute))
                        if op in ("namever", "auto") and to == 0.1 and win[2]:
                            add(dict(part="F", op=op, win=win, attrs=at, env=list(ENVS[0]), enabled=False, resp=full))
                            add(dict(part="F", op=op, win=win, attrs=at, env=list(ENVS[0]), enabled=True, resp=mute))
    # ---- DA1 reply variants (the drained second phase) for the two-phase getters and the 'c'-terminated reads
    for da1 in DA1_VARIANTS:
        for st in ("ST", "BEL"):
            add(dict(part="B", op="colors", resp=dict(fg="rgb:8080/1a1a/e0e0", bg="rgb:12/34/56", da1=da1, st=st)))
        add(dict(part="C", op="namever", resp=dict(xtversion="contour 0.3.12.262", da1=da1)))
        add(dict(part="D", op="cell", win=(80, 24, 0, 0), resp=dict(t16=(17, 9), t14=(384, 560), da1=da1)))
        add(dict(part="E", op="auto", win=(80, 24, 800, 480), resp=dict(xtversion="kitty(0.30.1)", kitty="OK", da1=da1)))
    # ---- H: sessions - several operations in one process, every order, bounded deviations
    perms = list(itertools.permutations(("colors", "namever", "cell", "auto")))
    sess_resp = [dict(fg="rgb:ff/80/00", bg="rgb:0000/0000/0000", xtversion="kitty(0.30.1)", kitty="OK",
                      t16=(17, 9), t14=(384, 560), da1=True),
                 dict(fg="rgb:ffff/ffff/ffff", bg=None, xtversion="Konsole 22.12.3", kitty="OK", t16=None,
                      t14=(384, 560), da1=True)]
    if not quick:
        sess_resp += [dict(fg="rgb:1/2/3", bg="rgb:fff/000/800", xtversion="WezTerm 20240203-110809-5046fc22",
                           kitty=None, t16=(17, 9), t14=None, da1="\x1b[?1;2c", st="BEL"),
                      dict(fg=None, bg=None, xtversion=None, kitty="OK", t16=None, t14=None, da1=True)]
    for steps in perms:
        for resp in sess_resp:
            add(dict(part="H", op="session", steps=list(steps) + ["kitty", "iterm2"], win=(80, 24, 0, 0), resp=resp,
                     bound=2 if quick else (4 if resp is sess_resp[0] else 3)))
    # ---- I: histories - every sequence of gets and toggles (disable/enable_queries, win-size swap on/off) that
    #         ends with a get, up to the length of the tier; the explicit hex=False / hex=True forms are operations
    hist_resp = dict(fg="rgb:ff/80/00", bg="rgb:1234/5678/9abc", xtversion="foot(1.16.2)", t16=None, t14=(384, 560), da1=True)
    hl = 4 if quick else 5
    for n in range(1, hl + 1):
        for seq in itertools.product(GETS + TOGGLES, repeat=n):
            if seq[-1] not in GETS:
                continue
            for win in ((80, 24, 0, 0),) + (() if quick or n == hl else ((80, 24, 800, 480),)):
                add(dict(part="I", op="history", steps=list(seq), win=win, resp=hist_resp,
                         bound=0 if (n == hl or quick) else 1))
    # ---- G: outside the premise - a wait may expire with replies still to come (bounded deviations)
    gb = 2 if quick else 4
    for op, resp, win in (
            ("colors", dict(fg="rgb:ffff/ffff/ffff", bg="rgb:0/0/0", da1=True), (80, 24, 0, 0)),
            ("namever", dict(xtversion="kitty(0.30.1)", da1=True), (80, 24, 0, 0)),
            ("cell", dict(t16=(17, 9), t14=(384, 560), da1=True), (80, 24, 0, 0)),
            ("auto", dict(xtversion="kitty(0.30.1)", kitty="OK", da1=True), (80, 24, 800, 480)),
            ("auto", dict(xtversion="Konsole 22.12.3", kitty="OK", da1=True), (80, 24, 800, 480))):
        for at in attr_sets:
            add(dict(part="G", op=op, win=win, attrs=at, resp=resp, late=True, bound=gb))
    return cases


# ---------------------------------------------------------------------------------- driver
_CTX = None


def explore_case(col, case):
    bound = case.get("bound")
    full = bound is None

    def run(ch):
        return execute(case, ch)

    def on_exec(ch, obs):
        col.count()
        judge(col, case, obs, ch.choices)
        delivered = [t for t in obs["trace"] if t[0]]
        if delivered or obs["nq"] == 0:
            col.add_distinct(h64((_key(case), obs["trace"])))
        col.max("choice_points", len(ch.choices))
        col.max("env_calls_per_execution", obs["ncalls"])
        col.inc(f"executions_part_{case['part']}")
        if col.evaluations % 211 == 0:
            col.sample(dict(case=case, choices=list(ch.choices), trace=[list(t) for t in obs["trace"]]))

    tree = explore.ChoiceTree(run, 10**9 if full else bound, on_exec=on_exec)
    tree.explore()
    if full:
        col.inc("schedule_trees_fully_explored")
    else:
        col.inc("schedule_trees_bounded")


def _key(case):
    return repr(sorted((k, repr(v)) for k, v in case.items()))


def _shard(cases):
    col = _CTX.new_collector()
    for case in cases:
        explore_case(col, case)
    world.uninstall()
    return col


def run(ctx):
    global _CTX
    _CTX = ctx
    cases = explore.rotate(build_cases(ctx.tier))
    _img(), _png()
    for col in explore.pmap(_shard, cases):
        ctx.merge(col)
    quick = ctx.tier == "quick"
    ctx.rule = ("one evaluation = one execution of the real query code against the virtual tty under one complete "
                "reply schedule; distinct = distinct (responder configuration, realised delivery trace) pairs in which "
                "at least one reply was delivered (or no query was needed)")
    ctx.coverage.update(
        cases=len(cases),
        parts=dict(A="colour grid 4^3 widths x value patterns x lower/UPPER/MiXed hex digits x ST/BEL, default schedule",
                   B="colours x 2^3 supported subsets x every schedule", C="identity strings x DA1 on/off x every schedule",
                   D="cell size: 2^3 subsets x ioctl variants x swap x every schedule",
                   E="is_supported / auto_image_class / AutoImage / from_file: identity x kitty reply x DA1 x every schedule",
                   F="queries disabled / mute terminal",
                   H="sessions: every order of colours/name/cell/auto in one process, deviation bound %s" % ("2" if quick else "4 (first terminal) / 3"),
                   I="histories: every sequence over {colours bare/hex=False/hex=True, name, cell, disable/enable_queries, "
                     "swap on/off} ending with a get, length <= %d" % (4 if quick else 5),
                   G="late replies (outside premise), deviation bound %d" % (2 if quick else 4)),
        schedule_bound="unbounded (whole choice tree) in parts B-F; 0 in A",
        delays=["already queued at tcdrain (first j replies)", "0", "0.001 s", "0.98 x remaining timeout"], timeouts=[0.1, 0.05, 0.5] if quick else [0.1, 0.03, 0.05, 0.5],
        environment="TERM_PROGRAM / TERM_PROGRAM_VERSION unset, and %s where XTVERSION is unsupported / disabled / mute" % (ENVS,),
        identities=len(IDENTS_QUICK) + (0 if quick else len(IDENTS_MORE)))
    ctx.assumptions += [
        "world.VTty is the tty: replies are atomic, in order, delivered at blocking select/read calls; virtual clock",
        "XParseColor rgb: semantics from the man page: n hex digits = value scaled in 4n bits, per component; "
        "either neighbouring integer of v*255/(16^n-1) accepted",
        "support rules from the KittyImage / ITerm2Image docstrings; undecided combinations (unparsable version, "
        "Konsole < 22.04.0 answering the kitty query with OK) are not judged",
        "executions in which a wait expired while replies were still to come are outside the premise: only "
        "bounded time, no exception and restored attributes are judged there",
    ]


def replay(ctx, case):
    ch = explore.Chooser(case["choices"])
    obs = execute(case["case"], ch)
    ctx.count()
    judge(ctx, case["case"], obs, ch.choices)
    world.uninstall()
