"""C13 Terminal attributes are always put back exactly as found.

Engine: fault enumeration on the virtual tty.  For every (initial attribute set, operation, reply /
keystroke schedule) the fault-free execution is run first; it makes N numbered environment calls
(tcgetattr, tcsetattr, tcdrain, write, select, read, ioctl, monotonic, the caller's more(), and for
draw() every stdout write / flush / sleep and the renderable's finalizer hook).  Then the same execution is repeated once per
(k in 1..N) x {exception INSTEAD of call k, exception right AFTER call k} x exception kind.
Oracle: the tty's struct termios after the operation returned or raised == before, byte for byte; and
a fixed fault-free follow-up (read_tty_all + a DA1 query) run afterwards in the same process - after
every execution, including those faulted at the restoring tcsetattr - leaves the attributes as it finds them.
Excluded by definition: a fault injected instead of a restoring tcsetattr itself (a tcsetattr whose
argument is the attribute set found on entry, made while the attributes differ, and after which the
(sub-)operation does no more terminal I/O before the next attribute change or its end).
"""
from __future__ import annotations

import copy
import itertools
import termios as _termios

from .. import explore, world
from .. import c12_model as M
from ..harness import h64

ID = "C13"
LEVEL = "fault_enumeration"

class SignalAbort(BaseException):
    """A BaseException that is neither KeyboardInterrupt nor an Exception (what a signal handler may raise)."""


EXC = {
    "KeyboardInterrupt": KeyboardInterrupt,
    "SystemExit": lambda: SystemExit(1),
    "SignalAbort": SignalAbort,
    "OSError": lambda: OSError(5, "Input/output error"),
    "termios.error": lambda: _termios.error(13, "Permission denied"),
    "BrokenPipeError": lambda: BrokenPipeError(32, "Broken pipe"),
}

KEYS = [("key", b"c"), ("key", b"de")]


class LenientChooser(explore.Chooser):
    """Replays a schedule recorded on the fault-free run; after the fault the execution may make
    different choices (or none) - out-of-range recorded choices fall back to the default."""

    def choose(self, n, label=None, costs=None):
        i = len(self.choices)
        if i < len(self.prefix) and self.prefix[i] >= n:
            self.prefix[i] = 0
        return super().choose(n, label, costs)


class MoreFailed(Exception):
    pass


def make_more(tty, kind):
    """Caller-supplied predicate; every call is a numbered environment call."""
    if kind == "default":
        return None
    calls = [0]

    def more(buf):
        n = tty._enter("more", len(buf))
        calls[0] += 1
        if kind.startswith("raise") and calls[0] == int(kind[5:]):
            raise MoreFailed(f"more() failed at call {calls[0]}")
        if kind == "until-c":
            r = not buf.endswith(b"c")
        elif kind.startswith("stop"):
            r = len(buf) < int(kind[4:])
        else:  # "true" and the raising ones
            r = True
        tty._leave(n)
        return r

    return more


_FIN = {}
_CURRENT = [None]        # the renderable of the running execution (finalizer calls of older ones are not its calls)


def fin_classes():
    """Harness renderables whose finalizer hook `_finalize_render_data_` is a numbered environment call
    (a fault point like any other): what a subclass releasing a resource there can raise."""
    if _FIN:
        return _FIN
    from ..renderables import classes

    ns = classes()

    def mk(base):
        class Fin(base):
            @classmethod
            def _finalize_render_data_(cls, render_data):
                tty = world.W.tty
                mine = tty is not None and _CURRENT[0] is not None and ns.owners.get(id(render_data)) is _CURRENT[0]
                n = tty._enter("finalize") if mine else None
                super()._finalize_render_data_(render_data)
                if mine:
                    tty._leave(n)

        Fin.__name__ = Fin.__qualname__ = "Fin" + base.__name__
        return Fin

    _FIN.update(FinTextR=mk(ns.TextR), FinClearR=mk(ns.ClearR), TextR=ns.TextR, ClearR=ns.ClearR)
    return _FIN


# ---------------------------------------------------------------------------------- one execution
def execute(case, chooser, fault=None):
    """Fresh world, one operation, optional fault.  Returns the observation dict."""
    L = world.load()
    world.reset_world()
    op = case["op"]
    rk = dict(da1=b"\x1b[?6c")
    if op == "colors":
        rk.update(fg=b"rgb:f/f/f", bg=b"rgb:0/0/0")
    elif op == "namever":
        rk.update(xtversion=b"x(1)")
    elif op == "cell":
        rk.update(cell_px=(17, 9) if case.get("t16", True) else None, text_area_px=(384, 560))
    elif op == "kitty":
        rk.update(xtversion=b"kitty(0.30.1)", kitty=b"OK")
    tty = M.TraceTty(80, 24, 0, 0, responder=world.Responder(**rk), attrs=M.make_attrs(case["attrs"]),
                     chooser=chooser, allow_silence=False)
    inp = case.get("input", "none")
    if inp == "keys":
        tty.inq.extend(b"ab")
        tty.pending.extend(KEYS)
    elif inp == "typeahead":
        tty.inq.extend(b"abcde")
    tty.log_calls = fault is None            # the fault-free run records its environment calls
    st = dict(fired=False, changed_at_fault=False)
    init = M.norm_attrs(tty.attrs)
    stdout = clock = None
    plan = None

    def factory_for(name):
        f = EXC[name]

        def factory():
            st["fired"] = True
            st["changed_at_fault"] = M.norm_attrs(tty.attrs) != init
            return f()

        return factory

    if fault and fault["dev"] == "tty":
        tty.fault = (fault["k"], fault["mode"], factory_for(fault["exc"]))
    if op == "draw":
        if fault and fault["dev"] == "out":
            plan = world.FaultPlan(fault["k"], fault["mode"], factory_for(fault["exc"]))
        stdout = world.VStdout(term=None, isatty=True, plan=plan, record=False)
        fd = case.get("fd", world.STDOUT_FD)
        stdout.fileno = lambda: fd        # descriptor number of sys.stdout: 0 and 1 are as valid as any other
        clock = world.VClock(stdout)
    world.install(tty, stdout, clock)
    if case.get("timeout_cfg"):
        L.ti.set_query_timeout(case["timeout_cfg"])
    outcome = "return"
    try:
        if op == "query":
            L.utils.query_terminal(b"\x1b[c", make_more(tty, case["more"]) or (lambda s: True), case.get("timeout"))
        elif op == "read":
            kw = dict(timeout=case.get("timeout"), min=case.get("min", 0), echo=case.get("echo", False))
            more = make_more(tty, case["more"])
            if more is None:
                L.utils.read_tty(**kw)
            else:
                L.utils.read_tty(more, **kw)
        elif op == "read_all":
            L.utils.read_tty_all()
        elif op == "cell":
            L.utils.get_cell_size()
        elif op == "colors":
            L.utils.get_fg_bg_colors()
        elif op == "namever":
            L.utils.get_terminal_name_version()
        elif op == "kitty":
            L.image.KittyImage.is_supported()
        elif op == "draw":
            from ..renderables import classes

            ns = classes()
            r = ns.make(case.get("frames", 1), (3, 2), 100, "plain", cls=fin_classes()[case.get("cls", "TextR")])
            _CURRENT[0] = r
            r.draw(animate=True, loops=1, hide_cursor=case.get("hide_cursor", True), echo_input=False)
        else:
            raise world.HarnessError(f"unknown op {op}")
    except (world.HarnessError, explore.ReplayDivergence):
        raise
    except BaseException as e:  # noqa: BLE001 - the injected fault, more() failing, ...
        outcome = type(e).__name__
    # what the operation itself left behind
    diff = M.attrs_diff(tty.initial_attrs, tty.attrs)
    ncalls, npoints = tty.ncalls, (stdout.npoints if stdout is not None else 0)
    restoring = restoring_calls(tty) if fault is None else None
    # fixed fault-free follow-up in the same process: whatever happened before (including a fault at the
    # restoring tcsetattr itself), later operations must again leave the terminal as THEY find it
    _CURRENT[0] = None
    tty.fault = None
    tty.log_calls = False
    tty.chooser = None           # the follow-up is one fixed execution: replies arrive at once, no schedule choices
    if plan is not None:
        plan.fired = True
    found = copy.deepcopy(tty.attrs)
    fu_outcome = "return"
    try:
        L.utils.read_tty_all()
        L.utils.query_terminal(b"\x1b[c", lambda buf: not buf.endswith(b"c"))
    except (world.HarnessError, explore.ReplayDivergence):
        raise
    except BaseException as e:  # noqa: BLE001
        fu_outcome = type(e).__name__
    finally:
        if stdout is not None:
            world.uninstall()
    return dict(
        outcome=outcome, diff=diff, ncalls=ncalls, npoints=npoints, fired=st["fired"],
        followup_diff=M.attrs_diff(found, tty.attrs), followup_outcome=fu_outcome,
        changed_at_fault=st["changed_at_fault"], fault_kind=getattr(tty, "fault_kind", None),
        restoring=restoring,
        choices=list(chooser.choices), trace=tuple(tty.trace), changed_ever=tty.changed_ever,
        plan_kind=getattr(plan, "fired_kind", None) if plan else None)


IO_CALLS = ("select", "read", "write", "more")


def restoring_calls(tty):
    """Indices of the *restoring* tcsetattr calls of a fault-free execution: a tcsetattr whose argument
    is the attribute set found on entry, made while the attributes differ from it, and after which
    the operation does no more terminal I/O before it changes the attributes again or ends (i.e. the
    call with which a (sub-)operation gives the terminal back).  A fault *instead of* such a call is
    the one case the property excludes by definition."""
    init = M.norm_attrs(tty.initial_attrs)
    cur = init
    out = []
    calls = tty.calls
    for i, (n, kind, detail) in enumerate(calls):
        if kind != "tcsetattr":
            continue
        new = M.norm_attrs(detail[1])
        if new == init and cur != init:
            restoring = True
            for _, k2, _ in calls[i + 1:]:
                if k2 == "tcsetattr":
                    break
                if k2 in IO_CALLS:
                    restoring = False
                    break
            if restoring:
                out.append(n)
        cur = new
    return out


# ---------------------------------------------------------------------------------- oracle
def judge(col, case, choices, fault, obs, nofault_points=None, restoring=()):
    col.count()
    if obs["followup_diff"] and (not fault or obs["fired"]):
        if fault:
            sig = dict(op=case["op"], clause="attrs-restored", phase="follow-up", fault_dev=fault["dev"],
                       call=obs["fault_kind"] if fault["dev"] == "tty" else obs["plan_kind"], mode=fault["mode"])
            when = (f"after {fault['exc']} {fault['mode']} {'environment call' if fault['dev'] == 'tty' else 'stdout point'} "
                    f"{fault['k']} ({sig['call']}) of {_desc(case)} (which ended with {obs['outcome']})")
        else:
            sig = dict(op=case["op"], clause="attrs-restored", phase="follow-up", fault="none")
            when = f"after a fault-free {_desc(case)} (ended with {obs['outcome']})"
        col.violation(sig, f"{when}: a later fault-free read_tty_all() + query_terminal(DA1) in the same process left the "
                      f"attributes changed from what it found: {obs['followup_diff']} (follow-up ended with "
                      f"{obs['followup_outcome']})", dict(case=case, choices=list(choices), fault=fault))
    if fault:
        if not obs["fired"]:
            # only an 'after' fault attached to a more() call that raises by itself (there is no "after")
            col.inc("after_faults_on_a_call_that_raised_itself")
            if not (fault["mode"] == "after" and obs["fault_kind"] == "more"):
                raise world.HarnessError(f"fault {fault} never fired in {case}")
            return
        col.inc("fault_executions")
        if fault["dev"] == "tty" and fault["mode"] == "instead" and fault["k"] in restoring:
            col.inc("excluded_fault_instead_of_restoring_tcsetattr")
            return
        if obs["changed_at_fault"]:
            col.add_distinct(h64((_key(case), tuple(choices), _fkey(fault))))
            col.inc("faults_while_attributes_modified")
    else:
        if obs["changed_ever"]:
            col.add_distinct(h64((_key(case), tuple(choices), "nofault")))
    if not obs["diff"]:
        return
    op = case["op"]
    rep = dict(case=case, choices=list(choices), fault=fault)
    if not fault:
        sig = dict(op=op, clause="attrs-restored", fault="none", outcome="return" if obs["outcome"] == "return" else "raise")
        what = (f"{_desc(case)} ended with '{obs['outcome']}' without any fault and left the attributes changed: "
                f"{obs['diff']}")
    elif fault["dev"] == "out":
        n_epi = 2 + (1 if case.get("hide_cursor", True) else 0)
        phase = "epilogue" if nofault_points is not None and fault["k"] > nofault_points - n_epi else "body"
        sig = dict(op=op, clause="attrs-restored", fault_dev="stdout", phase=phase)
        if phase != "epilogue":
            sig.update(point=obs["plan_kind"], mode=fault["mode"])
        what = (f"{_desc(case)}: {fault['exc']} {fault['mode']} stdout point {fault['k']} of {nofault_points} "
                f"({obs['plan_kind']}, {phase}: the trailing newline / show-cursor / flush come before the restoring "
                f"tcsetattr) -> attributes not restored: {obs['diff']}")
    else:
        sig = dict(op=op, clause="attrs-restored", fault_dev="tty", call=obs["fault_kind"], mode=fault["mode"])
        what = (f"{_desc(case)}: {fault['exc']} {fault['mode']} environment call {fault['k']} ({obs['fault_kind']}) "
                f"-> attributes not restored: {obs['diff']} (operation ended with {obs['outcome']})")
    col.violation(sig, what, rep)


def _key(case):
    return repr(sorted((k, repr(v)) for k, v in case.items()))


def _fkey(f):
    return (f["dev"], f["k"], f["mode"], f["exc"])


def _desc(case):
    d = {k: v for k, v in case.items() if k not in ("bound",)}
    return f"{d}"


# ---------------------------------------------------------------------------------- enumeration
def enumerate_schedules(col, case):
    """Phase 1: all schedules (bounded) of the fault-free run, each judged; returns the work items of
    phase 2: (case, choices, number of tty calls, number of stdout points)."""
    items = []

    def on_exec(ch, obs):
        choices = list(ch.choices)
        judge(col, case, choices, None, obs)
        col.max("env_calls_per_execution", obs["ncalls"] + obs["npoints"])
        col.inc("fault_points", obs["ncalls"] + obs["npoints"])
        col.inc("schedules")
        items.append((case, choices, obs["ncalls"], obs["npoints"], obs["restoring"]))

    explore.ChoiceTree(lambda ch: execute(case, ch), case.get("bound", 0), on_exec=on_exec).explore()
    return items


def inject_all(col, item):
    """Phase 2: one fault at every environment call of one fault-free execution."""
    case, choices, ncalls, npoints, restoring = item
    excs = case.get("excs", ["KeyboardInterrupt"])
    for k in range(1, ncalls + 1):
        for mode in ("instead", "after"):
            for exc in excs:
                f = dict(dev="tty", k=k, mode=mode, exc=exc)
                judge(col, case, choices, f, execute(case, LenientChooser(choices), f), None, restoring)
    for k in range(1, npoints + 1):
        for mode in ("instead", "after"):
            for exc in case.get("out_excs", excs):
                f = dict(dev="out", k=k, mode=mode, exc=exc)
                judge(col, case, choices, f, execute(case, LenientChooser(choices), f), npoints)
    if h64((_key(case), tuple(choices))) % 97 == 0:
        col.sample(dict(case=case, choices=choices, env_calls=ncalls, stdout_points=npoints))


def build_cases(tier):
    quick = tier == "quick"
    cases = []
    add = cases.append
    attr_sets = ["canon-echo", "canon-noecho", "raw-echo-vmin1", "raw-noecho-vmin0-vtime5",
                 "raw-noecho-vmin0-vtime0", "raw-echo-vmin0-vtime0"]
    if not quick:
        attr_sets += ["raw-noecho-vmin3-vtime2", "canon-echo-vmin0"]
    base_excs = ["KeyboardInterrupt", "SystemExit", "SignalAbort"]      # BaseExceptions of three different families
    excs = base_excs + (["OSError"] if quick else ["OSError", "termios.error"])
    sb = 2 if quick else 99         # schedule deviation bound for operations with one pending reply / keystrokes
    mb = 1 if quick else 99         # ... for the getters with several replies in flight (99 = the whole tree)
    for at in attr_sets:
        # query_terminal
        for more in ("until-c", "stop2", "raise1", "raise3", "true"):
            for to in (None, 0.05):
                add(dict(op="query", attrs=at, more=more, timeout=to, excs=excs, bound=sb))
        # read_tty
        for to in (None, 0, 0.05, -1):
            for mn in (0, 1, 3):
                for echo in (False, True):
                    for more in ("default", "stop2", "raise1", "raise2"):
                        for inp in ("keys", "typeahead", "none"):
                            if inp == "none" and (mn > 0 and to is not None):
                                continue        # documented to block until min bytes arrive: never returns
                            if to == -1 and (more == "default" or inp == "none"):
                                continue        # documented infinite wait
                            if to == -1 and more == "raise2" and inp == "none":
                                continue
                            if quick and inp == "typeahead" and (echo or mn == 1):
                                continue
                            add(dict(op="read", attrs=at, timeout=to, min=mn, echo=echo, more=more, input=inp,
                                     excs=excs, bound=sb))
        for inp in ("keys", "typeahead", "none"):
            add(dict(op="read_all", attrs=at, input=inp, excs=excs, bound=sb))
        # the query-based getters
        add(dict(op="cell", attrs=at, excs=excs, bound=mb))
        add(dict(op="cell", attrs=at, t16=False, excs=excs, bound=mb))
        add(dict(op="colors", attrs=at, excs=excs, bound=mb))
        add(dict(op="namever", attrs=at, excs=excs, bound=mb))
        add(dict(op="kitty", attrs=at, excs=excs, bound=0 if quick else 2))
        # Renderable.draw with echo suppressed
        for frames in (1, 2):
            for hc in (True, False):
                for cls in (("FinTextR",) if quick else ("FinTextR", "FinClearR")):
                    for fd in (world.STDOUT_FD, 0, 1):
                        add(dict(op="draw", attrs=at, frames=frames, hide_cursor=hc, cls=cls, excs=excs, fd=fd,
                                 out_excs=base_excs if quick else base_excs + ["BrokenPipeError"]))
    return cases


_CTX = None


def _shard1(cases):
    col = _CTX.new_collector()
    items = []
    for case in cases:
        items += enumerate_schedules(col, case)
    world.uninstall()
    return col, items


def _shard2(items):
    col = _CTX.new_collector()
    for item in items:
        inject_all(col, item)
    world.uninstall()
    return col


def run(ctx):
    global _CTX
    _CTX = ctx
    cases = explore.rotate(build_cases(ctx.tier))
    from ..renderables import classes

    classes()
    items = []
    for col, its in explore.pmap(_shard1, cases):
        ctx.merge(col)
        items += its
    items.sort(key=lambda it: (_key(it[0]), it[1]))          # order independent of the sharding
    items = explore.rotate(items)
    for col in explore.pmap(_shard2, items, chunks_per_proc=16):
        ctx.merge(col)
    quick = ctx.tier == "quick"
    ctx.rule = ("one evaluation = one execution of the real operation on a fresh virtual tty (fault-free, or with one "
                "injected fault); distinct = distinct (operation+parameters, initial attributes, schedule, fault point, "
                "mode, exception) in which the fault struck while the attributes differed from the initial ones "
                "(fault-free runs: the operation did change the attributes)")
    ctx.coverage.update(
        base_cases=len(cases),
        attribute_sets={k: dict(zip(("canonical", "echo", "vmin", "vtime"), v)) for k, v in M.ATTR_SETS.items()
                        if quick is False or k in ("canon-echo", "canon-noecho", "raw-echo-vmin1", "raw-noecho-vmin0-vtime5",
                                                   "raw-noecho-vmin0-vtime0", "raw-echo-vmin0-vtime0")},
        operations=["query_terminal(more: until-c/stop-after-2/raise@1/raise@3/always-true; timeout None/0.05)",
                    "read_tty(timeout None/0/0.05/-1 x min 0/1/3 x echo x more default/stop-after-2/raise@1/raise@2 x input)",
                    "read_tty_all", "get_cell_size (16t / 14t fallback)", "get_fg_bg_colors", "get_terminal_name_version",
                    "KittyImage.is_supported", "Renderable.draw(echo_input=False) static/animated x hide_cursor x sys.stdout.fileno() in {101, 0, 1}, the renderable's "
                    "_finalize_render_data_ hook being a fault point"],
        fault_modes=["instead", "after"],
        exceptions=["KeyboardInterrupt", "SystemExit", "SignalAbort(BaseException)", "OSError"] if quick else
        ["KeyboardInterrupt", "SystemExit", "SignalAbort(BaseException)", "OSError", "termios.error", "BrokenPipeError (stdout)"],
        schedule_deviation_bound=dict(single_reply_ops=2 if quick else 'whole tree', multi_reply_getters=1 if quick else 'whole tree',
                                      kitty_is_supported=0 if quick else 2))
    ctx.assumptions += [
        "world.VTty is the tty (attributes only change through tcsetattr); faults strike at environment-call "
        "boundaries (DESIGN section 6)",
        "struct termios compared after normalising Python's int/bytes presentation of control characters",
        "excluded by definition: a fault injected instead of a restoring tcsetattr itself = a tcsetattr(entry attributes) "
        "made while the attributes differ and after which the (sub-)operation does no more terminal I/O before the "
        "next attribute change or its end",
        "read_tty parameter combinations that are documented to wait forever (timeout<0 with the default predicate or "
        "without input; min>0 without input) have no fault-free execution and are not enumerated",
    ]


def replay(ctx, case):
    c = case["case"]
    obs0 = execute(c, LenientChooser(case["choices"]))
    f = case.get("fault")
    if f:
        obs = execute(c, LenientChooser(case["choices"]), f)
        judge(ctx, c, case["choices"], f, obs, obs0["npoints"], obs0["restoring"])
    else:
        judge(ctx, c, case["choices"], None, obs0)
    world.uninstall()
