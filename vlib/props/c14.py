"""C14 Terminal access is serialized across threads and processes.

Engine: stateless, preemption-bounded schedule exploration (vlib/sched.py) of the REAL
`lock_tty` wrapper, `_process_start_wrapper`, `_process_run_wrapper`, `query_terminal`,
`read_tty`, `write_tty`, `get_terminal_name_version` / `get_fg_bg_colors` bodies.  Threads are real
threads run one at a time; a child process is a thread running against another instance of
`term_image/utils.py` (own globals), initialised as fork / spawn would (DESIGN 2.6).

Oracle (independent of the lock code):
  * occupancy: no probe (a `lock_tty`-decorated function) is entered while a probe of another
    thread / process is inside one;
  * device sessions: while one task has the terminal attributes modified (a query in progress:
    between its `tcsetattr(new)` and the restoring `tcsetattr`) no other task calls into the tty;
  * every probe reads exactly the reply to its own query (queries carry a unique id), the real
    getters return what the terminal said; nothing is left unread, attributes are restored;
  * no deadlock, no exception, every started process runs; re-entrant (nested) calls succeed and
    every lock is free at the end.
Starts issued from inside a synchronized call are not generated (documented as unsupported).
"""
from __future__ import annotations

import copy
import termios as _termios

from .. import explore, sched, world
from ..harness import h64

ID = "C14"
LEVEL = "model_checking"

FD = world.TTY_FD
PROBE_NAMES = ("probe_raw_body", "probe_nested_body", "probe_query_body", "probe_name_body",
               "probe_colors_body", "probe_rw_body", "probe_cellsize_body", "probe_kitty_body", "_query_support",
               "probe_raise_body")
DA1 = b"\x1b[c"
DA1_REPLY = b"\x1b[?62;4c"


def kitty_query(tag):
    return b"\x1b_Gi=%d,a=q,t=d,f=24,s=1,v=1;AAAA\x1b\\" % tag


def kitty_reply(tag):
    return b"\x1b_Gi=%d;OK\x1b\\" % tag


# ---------------------------------------------------------------------------------- checked tty
class CheckedTty(world.VTty):
    """VTty that knows which task is talking to it: a task that has the attributes modified owns a
    *session*; any call of another task during a session is an interleaving of terminal access."""

    def __init__(self, *a, **kw):
        super().__init__(*a, **kw)
        self.base_attrs = copy.deepcopy(self.attrs)
        self.session = None
        self.intrusions = []
        self.pending_owner = []
        self.inq_owner = []      # [[task, bytes left]] parallel to inq
        self.misdelivered = []
        self.late = False        # late-reply harness: see tcsetattr

    def _who(self):
        s = sched.ACTIVE
        return s.current if s is not None else None

    def _enter(self, kind, detail=None):
        me = self._who()
        # (TIOCGWINSZ neither reads, writes nor reconfigures the terminal: get_cell_size() asks for the
        # window size outside the terminal lock, which interferes with nobody's query)
        if self.session is not None and me is not None and me is not self.session and kind != "ioctl":
            if len(self.intrusions) < 4:
                self.intrusions.append((self.session.name, me.name, kind))
        return super()._enter(kind, detail)

    # ---- who asked for the bytes in the input queue: a reply must be consumed by the task whose
    # query caused it ("none is lost or delivered to another caller")
    def write(self, fd, data):
        n0 = len(self.pending)
        r = super().write(fd, data)
        self.pending_owner.extend([self._who()] * (len(self.pending) - n0))
        return r

    def _deliver(self, k, delay):
        for _ in range(k):
            self.inq_owner.append([self.pending_owner.pop(0), len(self.pending[0][1])])
            super()._deliver(1, delay)
            delay = 0.0

    def _consume(self, nbytes, how):
        me = self._who()
        while nbytes > 0 and self.inq_owner:
            seg = self.inq_owner[0]
            take = min(seg[1], nbytes)
            if seg[0] is not None and me is not None and seg[0] is not me and len(self.misdelivered) < 4:
                self.misdelivered.append((seg[0].name, me.name, how))
            seg[1] -= take
            nbytes -= take
            if seg[1] == 0:
                self.inq_owner.pop(0)

    def read(self, fd, nbytes):
        data = super().read(fd, nbytes)
        self._consume(len(data), "read")
        return data

    def tcsetattr(self, fd, when, attrs):
        if self.late and when != _termios.TCSANOW and self.pending:
            # replies the previous caller stopped waiting for (its query timed out) have arrived by the
            # time the next query starts: they sit in the input queue when the attributes are changed
            self._deliver(len(self.pending), 0.0)
        if when == _termios.TCSAFLUSH and self.inq:
            self._consume(len(self.inq), "discarded (TCSAFLUSH)")
        super().tcsetattr(fd, when, attrs)
        if self.attrs != self.base_attrs:
            if self.session is None:
                self.session = self._who()
        else:
            self.session = None


def make_tty(chooser=None, late=False):
    cfg = dict(world.IDENTITIES["kitty"])
    resp = world.Responder(fg=b"rgb:ffff/ffff/ffff", bg=b"rgb:0000/0000/0000", cell_px=(7, 3),
                           text_area_px=(35, 30), **cfg)
    tty = CheckedTty(10, 5, 0, 0, responder=resp, chooser=chooser, allow_silence=late)
    tty.late = late
    tty.log_calls = False
    return tty


# ---------------------------------------------------------------------------------- per-execution state
class ExecState:
    def __init__(self, tty):
        self.tty = tty
        self.inside = []        # [(task, tag)]
        self.overlaps = []
        self.results = []       # (tag, kind, ok, detail)
        self.max_depth = 0

    def enter(self, tag, kind):
        me = sched.ACTIVE.current
        others = [(t.name, g) for t, g in self.inside if t is not me]
        if others and len(self.overlaps) < 4:
            self.overlaps.append((others[0][0], others[0][1], me.name, tag, kind))
        self.inside.append((me, tag))
        d = sum(1 for t, _ in self.inside if t is me)
        if d > self.max_depth:
            self.max_depth = d

    def begin_raw(self, tag):
        self.enter(tag, "raw")
        tty = self.tty
        old = tty.tcgetattr(FD)
        tty.tcsetattr(FD, _termios.TCSANOW, RAW_ATTRS)
        tty.write(FD, kitty_query(tag))
        return old

    def finish_raw(self, tag, old):
        tty = self.tty
        tty.select([FD], [], [], 0.1)
        data = tty.read(FD, 4096)
        tty.tcsetattr(FD, _termios.TCSANOW, old)
        self.leave(tag)
        return data

    def leave(self, tag):
        me = sched.ACTIVE.current
        self.inside.remove((me, tag))


S = None        # the ExecState of the execution in progress
RAW_ATTRS = world.default_attrs(canonical=False, echo=False, vmin=0)

_PROBES = {}


_URWID_SAVED = []


def _urwid_input_probe():
    """The library's urwid screen polling for input (UrwidImageScreen.get_available_raw_input, which
    the library synchronizes so that it cannot swallow a query's reply).  urwid's own reader - the
    base class method - is replaced by one that reads the virtual tty; the library's method is real."""
    L = world.load_urwid()
    base = L.urwid.raw_display.Screen
    if not _URWID_SAVED:
        _URWID_SAVED.append(base.get_available_raw_input)

    def harness_reader(self):
        tty = S.tty
        if not tty.select([FD], [], [], 0)[0]:
            return []
        return list(tty.read(FD, 4096))

    base.get_available_raw_input = harness_reader
    class _Screen(L.urwid_mod.UrwidImageScreen):        # never initialised (no real terminal): nothing to close
        def __del__(self):
            pass

    screen = object.__new__(_Screen)

    def probe_urwid_input_body(tag):
        data = screen.get_available_raw_input()
        return ("urwid_input", data == [], bytes(data))

    return probe_urwid_input_body


def _urwid_restore():
    if _URWID_SAVED:
        world.load_urwid().urwid.raw_display.Screen.get_available_raw_input = _URWID_SAVED.pop()
        _PROBES.clear()


class ProbeError(Exception):
    """Raised by the failing synchronized probe."""



def probes(mod):
    """The lock_tty-decorated probes of one utils instance (created once per process)."""
    p = _PROBES.get(mod)
    if p is not None:
        return p

    def probe_raw_body(tag):
        # three lines = three scheduling points: before entering, inside the critical section
        # (query written, reply not yet read), after leaving
        old = S.begin_raw(tag)
        data = S.finish_raw(tag, old)
        return ("raw", data == kitty_reply(tag), data)

    def probe_rw_body(tag):
        # the library's own synchronized primitives, nested in a synchronized function
        S.enter(tag, "rw")
        mod.write_tty(kitty_query(tag))
        data = mod.read_tty(lambda s: not s.endswith(b"\x1b\\"), 0.1)
        S.leave(tag)
        return ("rw", data == kitty_reply(tag), data)

    def probe_query_body(tag):
        S.enter(tag, "query")
        data = mod.query_terminal(kitty_query(tag) + DA1, lambda s: not s.endswith(b"c"))
        S.leave(tag)
        return ("query", data == kitty_reply(tag) + DA1_REPLY, data)

    def probe_nested_body(tag):
        S.enter(tag, "nested")
        inner = p["raw"](tag + 50)
        S.leave(tag)
        return ("nested", inner[1], inner[2])

    def probe_name_body(tag):
        # not a harness critical section: the real getter body, which synchronizes by itself
        r = mod.get_terminal_name_version.__wrapped__()
        return ("name", r == ("kitty", "0.30.1"), r)

    def probe_colors_body(tag):
        r = mod.get_fg_bg_colors.__wrapped__(hex=True)
        return ("colors", r == ("#ffffff", "#000000"), r)

    def probe_raise_body(tag):
        # a synchronized call that fails: enters, touches the terminal, raises
        old = S.begin_raw(tag)
        S.finish_raw(tag, old)
        raise ProbeError(tag)

    def probe_cellsize_body(tag):
        # ioctl reports no pixels: the real XTWINOPS + DA1 query; all three replies are this caller's
        r = mod.get_cell_size()
        return ("cellsize", r is not None and tuple(r) == (3, 7), r)

    def probe_kitty_body(tag):
        # rarely used entry point with its own synchronization: graphics support query + DA1, read in two steps
        K = world.load().image.KittyImage
        r = K.is_supported()
        return ("kitty", r is True, r)

    p = dict(raw=mod.lock_tty(probe_raw_body), rw=mod.lock_tty(probe_rw_body),
             query=mod.lock_tty(probe_query_body), nested=mod.lock_tty(probe_nested_body),
             name=probe_name_body, colors=probe_colors_body)
    # the same function object handed to lock_tty a second time (two components synchronizing the same
    # helper), and an already synchronized wrapper handed to it again: both results must be synchronized
    p["raise"] = mod.lock_tty(probe_raise_body)
    if mod is world.load().utils:
        p["urwid_input"] = _urwid_input_probe()
    p["cellsize"] = probe_cellsize_body
    p["kitty"] = probe_kitty_body
    p["raw2"] = mod.lock_tty(probe_raw_body)
    p["raw_ww"] = mod.lock_tty(p["raw"])
    _PROBES[mod] = p
    return p


# ---------------------------------------------------------------------------------- harness programs
def run_prog(model, pid, prog, base, threads=()):
    """Execute a program (list of ops) in process *pid*.  Tags are static (task base + position)."""
    mod = model.mod(pid)
    out = []
    for i, op in enumerate(prog):
        kind = op[0]
        if kind == "probe":
            tag = base + i + 1
            try:
                r = probes(mod)[op[1]](tag)
            except ProbeError:
                r = ("raise", op[1] == "raise", "raised")       # the caller handles it and carries on
            S.results.append((tag, pid) + tuple(r))
        elif kind == "start":
            model.children[op[1]][0].start()
        elif kind == "thread":
            model.sched.start_task(threads[op[1]])
        else:
            raise world.HarnessError(f"op {op!r}")
    return out


def build(spec, chooser):
    """Scheduler + process model + tasks for one execution of harness *spec*."""
    global S
    tty = make_tty(chooser if spec.get("replies") else None, late=bool(spec.get("late")))
    S = ExecState(tty)
    K = world.load().image.KittyImage
    K._supported = None         # support undetermined at the start of every execution
    s = sched.Scheduler(chooser, trace_names=PROBE_NAMES, max_steps=50000)
    procs = spec.get("procs", {})
    model = sched.ProcModel(s, tty, 1 + len(procs))
    for i, prog in enumerate(spec["main"]):
        s.spawn(run_prog, f"p0.t{i}", args=(model, 0, prog, 100 * (i + 1)), proc=0)
    for key in sorted(procs, key=int):
        pid = int(key)
        pd = procs[key]
        ths = []

        def target(model, proc, pid=pid, pd=pd, ths=ths):
            return run_prog(model, pid, pd["prog"], 1000 * pid, ths)

        model.process(pd.get("parent", 0), pid, target, spec["method"] if pd.get("method") is None else pd["method"])
        for j, tp in enumerate(pd.get("threads", ())):
            ths.append(s.spawn(run_prog, f"p{pid}.t{j + 1}", args=(model, pid, tp, 1000 * pid + 100 * (j + 1)),
                               proc=pid, autostart=False))
    return s, model, tty


def execute(spec, prefix=()):
    ch = explore.Chooser(prefix)
    s, model, tty = build(spec, ch)
    s.tty_hang = None
    try:
        s.run()
    except world.HarnessError as e:
        # the virtual tty refuses to block forever; when terminal access has demonstrably been
        # interleaved in this execution that is what the interleaving leads to (a hung read), not a
        # defect of the harness
        if not (S.overlaps or tty.intrusions or tty.misdelivered) or "VTty" not in str(e):
            raise
        s.tty_hang = str(e)
    return ch, s, model, tty, S


def expected_probe_count(spec):
    n = sum(1 for prog in spec["main"] for op in prog if op[0] == "probe")
    for pd in spec.get("procs", {}).values():
        n += sum(1 for op in pd["prog"] if op[0] == "probe")
        for tp in pd.get("threads", ()):
            n += sum(1 for op in tp if op[0] == "probe")
    return n


def judge(col, spec, ch, s, model, tty, st, case=None):
    """All clauses on one finished execution.  Returns the list of clause names that failed."""
    bad = []
    case = case or dict(spec=spec, choices=list(ch.choices))

    def viol(clause, what, **extra):
        bad.append(clause)
        sig = dict(clause=clause, harness=spec["name"], method=spec["method"])
        sig.update(extra)
        col.violation(sig, f"[{spec['name']}/{spec['method']}] {what}; schedule={_short(ch.choices)}", case)

    if s.deadlock:
        viol("deadlock", f"deadlock: (task, waits for, owner) = {s.deadlock}")
        return bad
    for t in s.tasks:
        if t.exc is not None:
            viol("exception", f"{t.name}: {type(t.exc).__name__}: {t.exc}\n{t.tb}", exc=type(t.exc).__name__,
                 where="child" if t.proc else "parent")
    if st.overlaps:
        a = st.overlaps[0]
        viol("occupancy", f"{a[2]} entered synchronized probe {a[3]} ({a[4]}) while {a[0]} was inside probe {a[1]}",
             across="processes" if a[0].split(".")[0] != a[2].split(".")[0] else "threads")
    if tty.intrusions:
        a = tty.intrusions[0]
        viol("device-session", f"{a[1]} called tty.{a[2]} while {a[0]} had a query in progress "
             f"(attributes modified, not yet restored)",
             across="processes" if a[0].split(".")[0] != a[1].split(".")[0] else "threads")
    late = bool(spec.get("late"))
    mis = [a for a in tty.misdelivered if not (late and a[2].startswith("discarded"))]
    if mis:
        a = mis[0]
        viol("reply-misdelivered", f"(part of) the terminal's reply to {a[0]} was {a[2]} by {a[1]}",
             across="processes" if a[0].split(".")[0] != a[1].split(".")[0] else "threads")
    if s.tty_hang:
        viol("tty-hang", f"a task would block forever on the terminal after interleaved access: {s.tty_hang}")
    elif not any(t.exc is not None for t in s.tasks):
        ns = s.never_started()
        if ns:
            viol("not-started", f"tasks never started: {[t.name for t in ns]}")
        for r in st.results:
            tag, pid, kind, ok, data = r
            if late and kind == "query" and data is not None and \
                    (kitty_reply(tag) + DA1_REPLY).startswith(data):
                ok = True       # the terminal may answer late: a (possibly empty) part of the own reply
            if not ok:
                viol("own-reply", f"probe {tag} ({kind}, process {pid}) got {data!r}", kind=kind)
                break
        if len(st.results) != expected_probe_count(spec):
            viol("probe-count", f"{len(st.results)} probes finished, expected {expected_probe_count(spec)}")
        if st.inside:
            viol("reentrancy", f"probes still marked inside at the end: {st.inside}")
        if tty.attrs != tty.base_attrs:
            viol("attrs-restored", "terminal attributes differ from the initial ones at the end")
        if (tty.inq or tty.pending) and not late:
            viol("unread", f"unread / undelivered replies at the end: {bytes(tty.inq)!r} {tty.pending}")
        for pid in range(model.npids):
            m = model.mod(pid)
            for g in ("_tty_lock", "_cell_size_lock"):
                lk = getattr(m, g)
                if getattr(lk, "owner", None) is not None:
                    viol("lock-free-at-end", f"process {pid}: {g} = {lk!r} still owned")
        # every process that was started must be in sync with the parent: same cross-process lock
        for parent, child, method in model.started:
            a, b = model.mod(parent)._tty_lock, model.mod(child)._tty_lock
            if a is not b or not isinstance(a, sched.HProcLock):
                viol("shared-lock", f"process {child} ({method}) uses {b!r}, its parent {parent} uses {a!r}")
    return bad


def _short(choices):
    """Choice sequence without the trailing zeros."""
    c = list(choices)
    while c and c[-1] == 0:
        c.pop()
    return c


# ---------------------------------------------------------------------------------- harnesses
def P(kind):
    return ["probe", kind]


def harnesses(tier):
    """Harness = programs of the main process' threads + child processes; bound = (quick, thorough)
    preemption bound of that harness."""
    quick = tier == "quick"
    H = []

    def add(name, main, procs=None, methods=("fork", "spawn"), bound=(2, 3), only_thorough=False, **kw):
        if only_thorough and quick:
            return
        for m in (methods if procs else ("none",)):
            H.append(dict(name=name, method=m, main=main, procs=procs or {}, bound=bound[0 if quick else 1], **kw))

    one = dict(prog=[P("raw")])
    # threads only
    add("threads-2", [[P("raw")], [P("raw")]])
    add("threads-3", [[P("raw")], [P("raw")], [P("raw")]])
    add("threads-nested", [[P("nested")], [P("raw")], [P("rw")]], bound=(1, 3))
    add("threads-real-getters", [[P("name")], [P("colors")]], bound=(2, 3))
    add("threads-query-replies", [[P("query")], [P("raw")]], replies=True, bound=(2, 3))
    # a reply (or its tail) arrives after its caller's query timed out and before the next caller's query:
    # the next caller must not read it as its own (query_terminal discards unread input first)
    add("threads-late-replies", [[P("query")], [P("query")]], replies=True, late=True, bound=(2, 2))
    # synchronized functions obtained by decorating one function object twice / a wrapper again
    add("threads-redecorated", [[P("raw")], [P("raw2")], [P("raw_ww")]], bound=(1, 2))
    add("start-redecorated", [[["start", 1]], [P("raw2")]], {"1": dict(prog=[P("raw2")])}, bound=(1, 2))
    # an urwid input poll (UrwidImageScreen.get_available_raw_input) next to a query
    add("threads-urwid-input", [[P("query")], [P("urwid_input")]], bound=(2, 2))
    # a synchronized call that raises, then further synchronized calls of the same thread
    add("threads-after-exception", [[P("raise"), P("raw")], [P("raw")]], bound=(2, 3))
    # get_cell_size's own query (three replies) next to another caller, replies slow and atomic
    add("threads-cell-size-replies", [[P("cellsize")], [P("name")]], replies=True, bound=(1, 2))
    # KittyImage.is_supported() (its own lock block, reply read in two steps) after the lock migration
    add("start-then-kitty-support", [[["start", 1], P("kitty")], [P("raw")]], {"1": dict(prog=[P("raw")])},
        bound=(1, 2))
    # first start (thread lock -> process lock migration) racing with probes
    add("start-race", [[P("raw")], [P("raw")], [["start", 1]]], {"1": one}, bound=(1, 2))
    add("start-then-probe", [[["start", 1], P("raw")], [P("raw")]], {"1": one})
    # the starter has used the old lock before
    add("probe-then-start", [[P("raw"), ["start", 1]], [P("raw")]], {"1": one})
    # second start: already migrated path
    add("second-start", [[["start", 1], ["start", 2]], [P("raw")]], {"1": one, "2": one}, bound=(1, 2))
    # two threads starting a process each at the same time
    add("two-starters", [[["start", 1]], [["start", 2]], [P("raw")]], {"1": one, "2": one}, bound=(1, 2))
    # grandchild
    add("grandchild", [[["start", 1]], [P("raw")]],
        {"1": dict(prog=[["start", 2], P("raw")]), "2": dict(prog=[P("raw")], parent=1)}, bound=(2, 3))
    # real query functions in parent and child
    add("start-real-query", [[["start", 1]], [P("query")]], {"1": dict(prog=[P("name")])}, bound=(2, 3))
    # the getters' own `with _tty_lock, _tty_lock` blocks racing with the lock migration
    add("start-vs-getter", [[["start", 1]], [P("name")]], {"1": dict(prog=[P("colors")])}, bound=(2, 2))
    add("start-nested", [[P("nested")], [["start", 1]], [P("raw")]], {"1": dict(prog=[P("nested")])},
        bound=(2, 2), only_thorough=True)
    add("child-threads", [[["start", 1]], [P("raw")]],
        {"1": dict(prog=[["thread", 0], P("raw")], threads=[[P("raw")]])}, bound=(2, 3), only_thorough=True)
    add("mixed-methods", [[["start", 1], ["start", 2]], [P("raw")]],
        {"1": dict(prog=[P("raw")], method="fork"), "2": dict(prog=[P("raw")], method="spawn")},
        methods=("mixed",), bound=(2, 2), only_thorough=True)
    add("grandchild-mixed", [[["start", 1]], [P("raw")]],
        {"1": dict(prog=[["start", 2], P("raw")], method="spawn"),
         "2": dict(prog=[P("raw")], parent=1, method="fork")}, methods=("mixed",), bound=(2, 2), only_thorough=True)
    return H


# ---------------------------------------------------------------------------------- exploration
_CTX = None
_SPECS = None


def _one(col, traces, spec, prefix):
    ch, s, model, tty, st = execute(spec, prefix)
    col.count()
    col.inc("scheduling_points", s.steps)
    col.inc("context_switches", s.switches)
    col.max("points_per_execution", len(ch.choices))
    col.max("reentrancy_depth", st.max_depth)
    bad = judge(col, spec, ch, s, model, tty, st)
    contention = any(lbl == "blocked" for _, lbl in s.trace)
    key = h64(repr((spec["name"], spec["method"], s.trace)))
    if s.preemptions or contention:
        col.add_distinct(key)
    if contention:
        col.inc("executions_with_contention")
    traces.add(key)
    return ch, s, bad


def _check_determinism(spec, prefix, s):
    """The same schedule again must give the same observation trace."""
    ch2, s2, model2, tty2, st2 = execute(spec, prefix)
    if s2.trace != s.trace:
        raise world.HarnessError(f"C14: schedule {_short(prefix)} of {spec['name']} is not reproducible")


def _children(ch, pre, cost, bound):
    out = []
    for i in range(len(ch.choices) - 1, len(pre) - 1, -1):
        for alt in range(1, ch.arity[i]):
            c2 = cost + ch.cost_of(i, alt)
            if c2 <= bound:
                out.append((ch.choices[:i] + [alt], c2))
    return out


def _shard(items):
    col = _CTX.new_collector()
    traces = set()
    n = 0
    for hi, pre, cost in items:
        spec = _SPECS[hi]
        stack = [(pre, cost)]
        while stack:
            p, c = stack.pop()
            ch, s, bad = _one(col, traces, spec, p)
            if len(ch.choices) < len(p):
                raise explore.ReplayDivergence(f"C14: prefix {p} not consumed in {spec['name']}")
            n += 1
            if bad or n % 997 == 0:
                _check_determinism(spec, list(ch.choices), s)
            if n % 1499 == 0:
                col.sample(dict(harness=spec["name"], method=spec["method"], schedule=_short(ch.choices)))
            stack.extend(_children(ch, p, c, spec["bound"]))
    col.trace_set = traces
    return col


def run(ctx):
    global _CTX, _SPECS
    _CTX = ctx
    specs = harnesses(ctx.tier)
    if ctx.opts.get("harness"):
        specs = [h for h in specs if h["name"] == ctx.opts["harness"]]
    if ctx.opts.get("bound"):
        for h in specs:
            h["bound"] = int(ctx.opts["bound"])
    _SPECS = specs
    traces = set()
    try:
        # the default schedule of every harness is executed (three times: determinism guard) here,
        # every sub-tree below it goes to the workers
        items = []
        top = ctx.new_collector()
        for hi, spec in enumerate(specs):
            ch, s, bad = _one(top, traces, spec, [])
            _check_determinism(spec, list(ch.choices), s)
            _check_determinism(spec, list(ch.choices), s)
            for pre, cost in _children(ch, [], 0, spec["bound"]):
                items.append((hi, pre, cost))
        ctx.merge(top)
        items = explore.rotate(items)
        for col in explore.pmap(_shard, items, chunks_per_proc=8):
            traces |= col.trace_set
            ctx.merge(col)
    finally:
        sched.restore_instances()
        _urwid_restore()
    for spec in specs[:3]:
        ctx.sample(dict(harness=spec["name"], method=spec["method"], main=spec["main"], procs=spec["procs"]))
    if not ctx.opts.get("harness") and ctx.opts.get("smoke", "1") != "0":
        ctx.coverage["conformance_smoke"] = smoke(ctx)
    ctx.coverage["states"] = len(traces)
    ctx.coverage["transitions"] = ctx.extra.get("scheduling_points", 0)
    ctx.coverage["harnesses"] = [f"{h['name']}/{h['method']} preemptions<={h['bound']}" for h in specs]
    ctx.rule = ("every schedule of each harness within its preemption bound (listed in `harnesses`); scheduling "
                "points at every harness-lock operation and every line of lock_tty_wrapper / _process_start_wrapper "
                "/ _process_run_wrapper / probe bodies; states = distinct interleaving traces, transitions = "
                "scheduling points executed; distinct = distinct traces with a preemption or a task blocking on a lock")
    ctx.assumptions += [
        "process model (vlib/sched.py ProcModel): a child process is a thread on a second instance of utils.py "
        "initialised as fork / spawn would; forkserver == spawn from the library's point of view",
        "threading.RLock / multiprocessing.RLock / multiprocessing.Array are replaced by harness classes with the "
        "same re-entrant semantics; atomicity granularity = source line of the traced frames + lock operations",
        "starts issued from inside a synchronized call are excluded (documented as unsupported)",
        "the terminal answers every query before the timeout; reply timing is enumerated in the *-replies harness only",
    ]


SMOKE_METHODS = ("fork", "spawn", "forkserver")


def smoke(ctx, apis=("Process", "context")):
    """Free-running conformance run with real multiprocessing on a real pty (not exploration, not
    counted): what crosses Process.start is what ProcModel assumes, for the documented entry point
    `multiprocessing.Process` and for the process classes of `multiprocessing.get_context()` (which
    Pool and ProcessPoolExecutor use)."""
    import os

    from .. import c14_conformance as cf

    src = os.path.join(world.REPO, "src")
    summary = {}
    for api in apis:
        bad_all, not_run = [], []
        for m in SMOKE_METHODS:
            bad, rep = cf.run_smoke(src, api, m)
            if bad is None:
                not_run.append(f"{m}: {rep}")
            else:
                bad_all += bad
        if not_run:
            summary[api] = "not run: " + "; ".join(not_run)[:300]
            ctx.notes.add(f"conformance smoke run ({api}) not possible here: {not_run[0][:120]}")
            continue
        summary[api] = "as the process model assumes" if not bad_all else f"{len(bad_all)} contradictions"
        if bad_all:
            what = ("real multiprocessing on a real pty, processes created with "
                    + ("multiprocessing.Process" if api == "Process" else
                       "multiprocessing.get_context(m).Process (ForkProcess / SpawnProcess / ForkServerProcess, also "
                       "what Pool and ProcessPoolExecutor start; not subclasses of multiprocessing.Process, so the "
                       "library's start/run wrappers never run)")
                    + ": parent and child are not serialized - " + "; ".join(bad_all[:4])
                    + (f"; ... {len(bad_all) - 4} more" if len(bad_all) > 4 else ""))
            ctx.violation(dict(clause="real-multiprocessing", api=api), what, dict(kind="smoke", api=api))
    return summary


def replay(ctx, case):
    if case.get("kind") == "smoke":
        smoke(ctx, apis=(case["api"],))
        return
    spec = case["spec"]
    try:
        ch, s, model, tty, st = execute(spec, case["choices"])
        ch2, s2, model2, tty2, st2 = execute(spec, case["choices"])
        if s.trace != s2.trace:
            raise world.HarnessError("C14 replay: the schedule is not reproducible")
        ctx.count()
        judge(ctx, spec, ch, s, model, tty, st, case)
    finally:
        sched.restore_instances()
        _urwid_restore()
