"""C15 Cached terminal facts never outlive the condition they were computed under.

Part H (histories): explicit-state breadth-first search over operation histories on the real
library talking to a virtual tty.  A state is the history reaching it (replayed on a reset world);
states are merged by (implementation state, reference-model state); every transition is judged
against the reference model of vlib/c15_model.py ("fresh computation" semantics, DESIGN B.4).
Alphabets are split into groups whose memos do not interact (cell size / query memos / decorator
probes), each searched to its fixpoint; the thorough tier adds the union alphabet to a depth bound
and an enumeration of all histories *without* merging to a smaller depth (guards the merge key).

Part T (threads): concurrent first calls of `cached` / `terminal_size_cached` probes, of a
re-decorated `get_fg_bg_colors` body and of `get_cell_size` (also racing with a process start that
migrates the cell-size cache) under the controlled scheduler of vlib/sched.py: every schedule
within the preemption bound; body invocations per distinct argument tuple <= 1, all callers get
the memoized value, no deadlock, no exception.
"""
from __future__ import annotations

import re

from .. import c15_model as M
from .. import explore, sched, world
from ..harness import h64

ID = "C15"
LEVEL = "model_checking"

PIXEL = (0, 0, 0)       # lower pixel of the rendered cell == the terminal's default background
_BG_RE = re.compile(r"\x1b\[48;2;(\d+);(\d+);(\d+)m")


# ---------------------------------------------------------------------------------- implementation driver
def closure_var(fn, name):
    fn = getattr(fn, "__func__", fn)
    try:
        return fn.__closure__[fn.__code__.co_freevars.index(name)].cell_contents
    except (ValueError, AttributeError, TypeError):
        return "?"


def closure_state(fn):
    """Everything a decorator wrapper keeps in its closure except functions and locks - whatever the
    variables are called (a changed implementation may keep its memo differently; state the merge
    key does not see would let the search merge states with different futures)."""
    fn = getattr(fn, "__func__", fn)
    out = []
    try:
        names, cells = fn.__code__.co_freevars, fn.__closure__ or ()
    except AttributeError:
        return "?"
    for name, cell in zip(names, cells):
        try:
            v = cell.cell_contents
        except ValueError:
            continue
        if callable(v) or "lock" in type(v).__name__.lower():
            continue
        out.append((name, repr(sorted(v.items(), key=repr)) if isinstance(v, dict) else repr(v)))
    return tuple(out)


_ORIG = None
_NOTHING = object()


def _seams_on(u):
    """Before a reset: give term_image.utils its import-time cache / lock OBJECTS back (a simulated
    process start rebinds them; a reset that created new objects would change their identity, which
    a library holding references to the old ones could tell)."""
    global _ORIG
    if _ORIG is None:
        if not isinstance(u._cell_size_cache, list):
            raise world.HarnessError("C15: term_image.utils._cell_size_cache is not in its import state")
        _ORIG = dict(cache=u._cell_size_cache, clock=u._cell_size_lock, tlock=u._tty_lock, mp_RLock=u.mp_RLock,
                     Array=u.Array, wrapped=u._process_start_wrapper.__dict__.get("__wrapped__", _NOTHING))
    u._cell_size_cache, u._cell_size_lock, u._tty_lock = _ORIG["cache"], _ORIG["clock"], _ORIG["tlock"]


def _seams_off():
    if _ORIG is None:
        return
    u = world.load().utils
    _seams_on(u)
    u._cell_size_cache[:] = [0] * 4
    u.mp_RLock, u.Array = _ORIG["mp_RLock"], _ORIG["Array"]
    if _ORIG["wrapped"] is _NOTHING:
        u._process_start_wrapper.__dict__.pop("__wrapped__", None)
    else:
        u._process_start_wrapper.__wrapped__ = _ORIG["wrapped"]


# the two argument values of the `cached` probe: distinct tuples with EQUAL hashes (hash(-1) == hash(-2))
CARGS = (-1, -2)
assert hash(((-1,), ())) == hash(((-2,), ()))


class _Silent:
    """Reply timing for one get: the terminal stays silent until the query has timed out (the last
    alternative of VTty's menu); the replies stay in transit."""

    def choose(self, n, label=None, costs=None):
        return n - 1


class ProbeFailure(Exception):
    """Raised by a probe body that was told to fail."""


class Impl:
    """The real library in a reset world; `do(op)` executes one operation and returns what a
    caller can observe."""

    _probes = None
    _image = None

    def __init__(self, envs, env0=0):
        self.L = L = world.load()
        self.envs = envs
        e = envs[env0]
        u = L.utils
        _seams_on(u)
        self.tty = world.setup("kitty", e.cols, e.rows)
        # standard output is not the active terminal: shutil.get_terminal_size() reports this constant
        self.tty.stdout_size = _STDOUT
        # replies nobody waited for (a query that timed out) have arrived by the time the next query starts
        tty = self.tty
        plain_tcsetattr = tty.tcsetattr

        def tcsetattr(fd, when, attrs):
            if tty.pending and when != world._real_termios.TCSANOW:
                tty._deliver(len(tty.pending), 0.0)
            return plain_tcsetattr(fd, when, attrs)

        tty.tcsetattr = tcsetattr
        # op "start": the real _process_start_wrapper on a process object that starts nothing
        u.mp_RLock, u.Array = sched.HProcLock, sched.HArray
        u._process_start_wrapper.__wrapped__ = lambda proc, *a, **k: None
        self.apply_env(env0)
        self.e = env0
        self.runs = {"tsc": 0, 0: 0, 1: 0}
        self.fail_next = False      # the next run of a probe body raises ProbeFailure (once)
        self.resize_in_body = None  # environment the tsc probe body switches to while it runs
        if Impl._probes is None:
            Impl._probes = self._make_probes()
        self.tsc, self.cached = Impl._probes
        self.tsc._invalidate_terminal_size_cache()
        self.cached._invalidate_cache()
        Impl._current = self
        if Impl._image is None:
            from PIL import Image

            im = Image.new("RGB", (1, 2))
            im.putpixel((0, 0), (9, 9, 9))
            im.putpixel((0, 1), PIXEL)
            Impl._image = L.image.BlockImage(im, width=1)     # fixed size (1, 1), built at ratio 0.5
            if Impl._image.size != (1, 1):
                raise world.HarnessError(f"C15: probe image has size {Impl._image.size}")

    def _make_probes(self):
        u = self.L.utils

        def tprobe_body():
            me = Impl._current
            me.runs["tsc"] += 1
            if me.fail_next:
                me.fail_next = False
                raise ProbeFailure("tsc")
            t = me.tty
            v = M.tval(me.e, M.Env(t.cols, t.rows, t.xpx, t.ypx, None, me.envs[me.e].q_area))
            if me.resize_in_body is not None:
                # the terminal is resized while the memoized body runs: the value belongs to the old size
                j, me.resize_in_body = me.resize_in_body, None
                me.apply_env(j)
            return v

        def cprobe_body(arg=None, *, a=None, b=None):
            # keyword mode: the two argument tuples are (a=-1) and (b=-1) - equal values, different names
            me = Impl._current
            arg = CARGS.index(arg) if arg is not None else (0 if a is not None else 1)
            me.runs[arg] += 1
            if me.fail_next:
                me.fail_next = False
                raise ProbeFailure(arg)
            return M.cval(arg, me.e)

        return u.terminal_size_cached(tprobe_body), u.cached(cprobe_body)

    def apply_env(self, i):
        e = self.envs[i]
        t = self.tty
        t.cols, t.rows, t.xpx, t.ypx = e.cols, e.rows, e.xpx, e.ypx
        r = t.responder
        r.cell_px = None if e.q_cell is None else (e.q_cell[1], e.q_cell[0])
        r.text_area_px = None if e.q_area is None else (e.q_area[1], e.q_area[0])
        self.e = i

    def do(self, op):
        L = self.L
        ti, u = L.ti, L.utils
        k = op[0]
        if k == "resize":
            self.apply_env(op[1])
        elif k == "swap":
            (ti.enable_win_size_swap if op[1] else ti.disable_win_size_swap)()
        elif k == "queries":
            (ti.enable_queries if op[1] else ti.disable_queries)()
        elif k == "ratio":
            mode = op[1]
            arg = getattr(ti.AutoCellRatio, mode) if isinstance(mode, str) else mode
            try:
                ti.set_cell_ratio(arg)
            except L.ti.TermImageError:
                return (True, None)
            return (False, ti.get_cell_ratio())
        elif k == "cell_size":
            r = u.get_cell_size()
            return None if r is None else tuple(r)
        elif k == "cell_size_int":
            # get_cell_size() interrupted at its op[1]-th call into the terminal (KeyboardInterrupt at any
            # call, termios.error at a tcgetattr / tcsetattr only); if that call is never reached, or the
            # library handles the error, this is an ordinary get
            t = self.tty
            if op[2] == "kbd":
                t.fault = (t.ncalls + op[1], "instead", KeyboardInterrupt)
            else:
                t.fault = (t.ncalls + op[1], "instead", lambda: world._real_termios.error(5, "Input/output error"),
                           lambda kind, detail: kind not in ("tcgetattr", "tcsetattr"))
            t.fault_fired = False
            try:
                r = u.get_cell_size()
                return None if r is None else tuple(r)
            except (KeyboardInterrupt, world._real_termios.error):
                if not t.fault_fired:
                    raise
                # the terminal's answer to the abandoned query arrives and is never read
                del t.pending[:]
                del t.inq[:]
                return "interrupted"
            finally:
                t.fault = None
        elif k == "cell_size_silent":
            t = self.tty
            t.chooser = _Silent()
            try:
                r = u.get_cell_size()
            finally:
                t.chooser = None
            return None if r is None else tuple(r)
        elif k == "cell_ratio":
            return ti.get_cell_ratio()
        elif k == "colors":
            return u.get_fg_bg_colors() if op[1] < 0 else u.get_fg_bg_colors(hex=bool(op[1]))
        elif k == "name":
            return u.get_terminal_name_version()
        elif k == "render":
            colors = u.get_fg_bg_colors()
            s = str(Impl._image)
            m = _BG_RE.search(s)
            if not m:
                raise world.HarnessError(f"C15: no background colour in render {s!r}")
            return (colors, tuple(map(int, m.groups())))
        elif k == "tsc":
            n = self.runs["tsc"]
            try:
                v = self.tsc()
            except ProbeFailure:
                v = "raised"
            return (v, self.runs["tsc"] - n)
        elif k == "fail_next":
            self.fail_next = True
        elif k == "start":
            import types

            u._process_start_wrapper(types.SimpleNamespace())
        elif k == "tsc_inv":
            self.tsc._invalidate_terminal_size_cache()
        elif k == "tsc_resizing":
            n = self.runs["tsc"]
            self.resize_in_body = op[1]
            try:
                v = self.tsc()
            except ProbeFailure:
                v = "raised"
            finally:
                self.resize_in_body = None
            return (v, self.runs["tsc"] - n)
        elif k == "cached":
            n = self.runs[op[1]]
            try:
                v = self.cached(**{"ab"[op[1]]: -1}) if _KWARGS else self.cached(CARGS[op[1]])
            except ProbeFailure:
                v = "raised"
            return (v, self.runs[op[1]] - n)
        elif k == "cached_inv":
            self.cached._invalidate_cache()
        else:
            raise world.HarnessError(f"C15: op {op!r}")
        return None

    def key(self):
        L = self.L
        u, ti = L.utils, L.ti
        isk = L.common.TextImage.__dict__.get("_is_on_kitty")
        return (self.e, self.fail_next, tuple(bytes(d) for _, d in self.tty.pending), bytes(self.tty.inq),
                type(u._cell_size_cache).__name__, tuple(u._cell_size_cache), u._queries_enabled, u._swap_win_size, ti._cell_ratio,
                ti.AutoCellRatio.is_supported, closure_state(u.get_fg_bg_colors),
                closure_state(u.get_terminal_name_version), closure_state(isk), closure_state(self.tsc),
                closure_state(self.cached))


class Machine:
    """Implementation and model side by side."""

    def __init__(self, envs, history=()):
        self.impl = Impl(envs)
        self.model = M.Model(envs)
        self.broken = False
        for op in history:
            self.step(op)

    def step(self, op):
        """Returns None or (signature, what)."""
        try:
            obs = self.impl.do(op)
        except world.HarnessError:
            raise
        except Exception as e:  # noqa - a valid operation must not raise
            self.broken = True
            return (dict(clause="exception", op=op[0], exc=type(e).__name__), f"{op}: {type(e).__name__}: {e}")
        try:
            self.model.step(op, obs)
        except M.Mismatch as mm:
            self.broken = True
            sig = dict(clause=mm.clause, op=op[0])
            sig.update(mm.sig)
            return (sig, mm.what)
        return None

    def key(self):
        return h64(repr((self.impl.key(), self.model.key())))

    def notes(self):
        return self.model.notes


# ---------------------------------------------------------------------------------- alphabets
def alphabet(group, nenv):
    res = [["resize", i] for i in range(nenv)] if nenv > 1 else []
    sw = [["swap", 1], ["swap", 0]]
    qu = [["queries", 0], ["queries", 1]]
    a = [["ratio", "FIXED"], ["ratio", "DYNAMIC"], ["ratio", 0.5], ["cell_size"], ["cell_ratio"], ["start"]]
    b = [["colors", -1], ["colors", 1], ["name"], ["render"]]
    if group == "query-memos3":
        return res + qu + b + [["colors", 0]]
    c = [["tsc"], ["tsc_inv"], ["cached", 0], ["cached", 1], ["cached_inv"], ["fail_next"]] + \
        [["tsc_resizing", i] for i in range(nenv)] * (nenv > 1)
    if group == "cell":
        return res + sw + qu + a + [["cell_size_int", k, "kbd"] for k in (1, 2, 5, 9, 13, 40, 67)] + \
            [["cell_size_int", k, "termios"] for k in (4, 66)]
    if group == "cell-late":
        return res + qu + [["cell_size"], ["cell_size_silent"], ["ratio", "DYNAMIC"], ["cell_ratio"]]
    if group == "cell-large":
        return res + sw + qu + a + [["cell_size_int", k, "kbd"] for k in list(range(1, 16)) + [40, 65, 66, 67]] + \
            [["cell_size_int", k, "termios"] for k in (2, 3, 4, 7, 8, 9, 66, 67)]
    if group == "query-memos":
        return res + qu + b
    if group == "probes":
        return res + c
    if group == "probes+switches":
        return res + sw + qu + c
    if group == "all":
        return res + sw + qu + a + b + c
    raise world.HarnessError(group)


def searches(tier):
    """(name, alphabet group, environment indices, depth bound or None = fixpoint, merged?)"""
    small = [("cell", "cell", [0, 1, 2, 7], None, True),
             ("query-memos", "query-memos", [0], None, True),
             # a query times out, its replies arrive before the next query (after a resize)
             ("cell-late", "cell-late", [0, 8], None, True),
             ("probes", "probes", [0, 1, 2], None, True),
             # standard output redirected: the library's get_terminal_size() and shutil's disagree
             ("probes-redirected", "probes", [0, 1, 2], None, True),
             # the memoized function called with keyword arguments of equal values and different names
             ("probes-kwargs", "probes", [0, 1, 2], None, True)]
    if tier == "quick":
        return small
    return small + [("cell-large", "cell-large", [0, 1, 2, 3, 4, 5, 6, 7], None, True),
                    ("query-memos-large", "query-memos3", [0, 3], None, True),
                    ("probes-large", "probes+switches", [0, 1, 2, 3], None, True),
                    ("probes-large-redirected", "probes+switches", [0, 1, 2, 3], None, True),
                    ("cell-redirected", "cell", [0, 1, 2, 7], None, True),
                    ("all", "all", [0, 1, 2], 6, True),
                    ("cell-unmerged", "cell", [0, 1, 2, 7], 4, False),
                    ("query-memos-unmerged", "query-memos", [0], 5, False),
                    ("probes-unmerged", "probes", [0, 1, 2], 5, False)]


# ---------------------------------------------------------------------------------- BFS (level-parallel)
_CTX = None
_JOB = None      # (name, envs, ops, merged)
_KWARGS = False  # the `cached` probe is called with keyword arguments a=-1 / b=-1 instead of positional -1 / -2
_STDOUT = None   # VTty.stdout_size of the search in progress (None: standard output is the terminal)
REDIRECTED = (80, 24)   # differs from every terminal size of the resize alphabet


def _expand(histories):
    """Successors of a shard of frontier states.  Returns (collector, [(history, key)])."""
    name, envs, ops, merged = _JOB
    col = _CTX.new_collector()
    out = []
    for h in histories:
        mach = None
        for oi, op in enumerate(ops):
            if mach is None:
                mach = Machine(envs, [ops[i] for i in h])
                col.inc("replayed_operations", len(h))
                if mach.broken:
                    raise world.HarnessError(f"C15: history {h} of search {name} fails on replay")
                k0 = mach.key()
            if op[0] in ("resize", "tsc_resizing") and mach.impl.e == op[1]:
                continue
            if op[0] == "cell_size_int" and envs[mach.impl.e].xpx and envs[mach.impl.e].ypx:
                continue        # the query path (where a get can be interrupted) needs an ioctl without pixels
            v = mach.step(op)
            col.count()
            h2 = h + (oi,)
            if v is not None:
                sig, what = v
                search = name.replace("-unmerged", "").replace("-large", "")
                stdout = list(_STDOUT) if _STDOUT else None
                steps = [ops[i] for i in h2]
                col.violation(sig, f"after {steps[:-1]}: {what}",
                              dict(kind="history", search=search, stdout_size=stdout, envs=[list(e) for e in envs],
                                   steps=steps, kwargs=_KWARGS))
                mach = None
                continue
            if mach.model.notes:
                col.notes |= mach.model.notes
            k1 = mach.key()
            out.append((h2, k1))
            if k1 != k0 or not merged:
                mach = None         # state changed: rebuild from the history for the next operation
    return col, out


def bfs(ctx, name, group, env_idx, depth, merged):
    global _JOB, _STDOUT, _KWARGS
    _STDOUT = REDIRECTED if "redirected" in name else None
    _KWARGS = "kwargs" in name
    envs = [M.ENVS[i] for i in env_idx]
    ops = alphabet(group, len(envs))
    _JOB = (name, envs, ops, merged)
    m0 = Machine(envs)
    seen = {m0.key(): ()}
    depth_of = {m0.key(): 0}        # merged: depth at which a state was first reached
    allkeys = {m0.key()}            # unmerged: every key any history reaches
    sigs = set()
    frontier = [()]
    transitions = 0
    level = 0
    nstates = 1
    while frontier and (depth is None or level < depth):
        results = explore.pmap(_expand, sorted(frontier), chunks_per_proc=2)
        succ = []
        for col, out in results:
            sigs.update(col.violations)
            ctx.merge(col)
            succ.extend(out)
        transitions += len(succ)
        level += 1
        if merged:
            new = {}
            for h2, k in succ:
                if k in seen:
                    continue
                if k not in new or h2 < new[k]:
                    new[k] = h2
            for k, h2 in new.items():
                seen[k] = h2
                depth_of[k] = level
                ctx.add_distinct(("state", group, tuple(env_idx), k))
            frontier = list(new.values())
            nstates = len(seen)
        else:
            frontier = [h2 for h2, _ in succ]
            allkeys.update(k for _, k in succ)
            nstates += len(frontier)
    fix = not frontier
    return dict(search=name, alphabet=[_opname(o) for o in ops], environments=[list(e) for e in envs],
                states=nstates, transitions=transitions, depth=level, fixpoint=bool(fix and merged),
                merged=merged, depth_bound=depth, _sigs=sigs, _depth_of=depth_of, _allkeys=allkeys)


def cross_check(merged_r, unmerged_r):
    """Every history up to the smaller depth, without merging, must reach exactly the states the
    merged search reached within that depth and fail in no way the merged search did not report -
    otherwise the merge key hides something (harness error, not a verdict)."""
    d = unmerged_r["depth"]
    want = {k for k, lv in merged_r["_depth_of"].items() if lv <= d}
    got = unmerged_r["_allkeys"]
    extra = unmerged_r["_sigs"] - merged_r["_sigs"]
    if True:
        if extra:
            raise world.HarnessError(f"C15: unmerged enumeration {unmerged_r['search']} fails in ways the merged "
                                     f"search did not see: {sorted(extra)[:2]}")
    if got != want:
        raise world.HarnessError(f"C15: merge key unsound in search {merged_r['search']}: unmerged histories of depth "
                                 f"<= {d} reach {len(got)} states, the merged search {len(want)} "
                                 f"(only unmerged: {len(got - want)}, only merged: {len(want - got)})")


def _opname(op):
    return op[0] if len(op) == 1 else f"{op[0]}({','.join(map(str, op[1:]))})"


# ---------------------------------------------------------------------------------- thread part
TARGS = {0: -1, 1: -2}      # thread part: arguments 0 / 1 are passed as -1 / -2 (distinct, equal hashes)
PROBE_NAMES = ("cprobe_body", "tprobe_body", "tprobe_none_body")


def thread_harnesses(tier):
    q = tier == "quick"
    b = 2 if q else 3
    H = [dict(name="cached-same-arg", calls=[["c", 0], ["c", 0]], bound=b),
         dict(name="cached-three", calls=[["c", 0], ["c", 1], ["c", 0]], bound=b),
         dict(name="cached-none-first-calls", calls=[["c", 2], ["c", 2]], bound=b),
         dict(name="tsc-none-first-calls", calls=[["tn"], ["tn"]], bound=b),
         dict(name="tsc-first-calls", calls=[["t"], ["t"]], bound=b),
         dict(name="tsc-three", calls=[["t"], ["t"], ["t"]], bound=b),
         dict(name="fgbg-redecorated", calls=[["f"], ["f"]], bound=b),
         dict(name="cell-size-first-calls", calls=[["s"], ["s"]], bound=b),
         dict(name="tsc-call-vs-invalidate", calls=[["t"], ["ti"]], bound=b),
         dict(name="cached-call-vs-invalidate", calls=[["c", 0], ["ci"], ["c", 0]], bound=b),
         dict(name="cell-size-vs-swap-toggle", calls=[["ss"], ["swss"]], swap_race=True, bound=2),
         dict(name="requery-name-vs-enable", calls=[["n"], ["eq"]], requery=True, bound=2),
         dict(name="requery-colors-vs-enable", calls=[["fq"], ["eq"]], requery=True, bound=2),
         dict(name="cell-size-start-race", calls=[["s"], ["start"]], child=[["s"]], bound=2, method="fork"),
         dict(name="cell-size-start-race", calls=[["s"], ["start"]], child=[["s"]], bound=2, method="spawn")]
    return H


class TState:
    pass


T = None


def t_execute(spec, prefix=()):
    """One controlled execution of a thread harness."""
    global T
    L = world.load()
    ch = explore.Chooser(prefix)
    env = M.ENVS[0]
    tty = world.make_tty("kitty", env.cols, env.rows)
    tty.responder.text_area_px = (env.q_area[1], env.q_area[0])
    s = sched.Scheduler(ch, trace_names=PROBE_NAMES, max_steps=50000)
    nproc = 2 if spec.get("child") else 1
    model = sched.ProcModel(s, tty, nproc)
    T = st = TState()
    st.runs = {}
    st.results = []
    st.tty = tty

    def make(mod):
        def cprobe_body(arg):
            st.runs[("c", arg)] = st.runs.get(("c", arg), 0) + 1
            v = ("value", arg, st.runs[("c", arg)]) if arg != 2 else None     # argument 2: the result is None
            return v

        def tprobe_body():
            st.runs["t"] = st.runs.get("t", 0) + 1
            v = ("tvalue", st.runs["t"])
            return v

        def tprobe_none_body():
            st.runs["tn"] = st.runs.get("tn", 0) + 1
            v = None
            return v

        return dict(c=mod.cached(cprobe_body), t=mod.terminal_size_cached(tprobe_body),
                    tn=mod.terminal_size_cached(tprobe_none_body),
                    f=mod.cached(mod.get_fg_bg_colors.__wrapped__),
                    n=mod.cached(mod.get_terminal_name_version.__wrapped__))

    u0 = model.mod(0)
    fns = {0: make(u0)}
    st.final = None
    saved_getters = (u0.get_fg_bg_colors, u0.get_terminal_name_version)
    if spec.get("requery"):
        # the real term_image.enable_queries() looks the getters up in term_image.utils at call time:
        # point it at the copies that were decorated with harness locks; start with queries disabled
        u0.get_fg_bg_colors, u0.get_terminal_name_version = fns[0]["f"], fns[0]["n"]
        u0._queries_enabled = False

    def prog(pid, calls, tag):
        mod = model.mod(pid)
        for i, c in enumerate(calls):
            k = c[0]
            if k == "c":
                r = fns[pid]["c"](TARGS.get(c[1], c[1]))
            elif k == "t" or k == "tn":
                r = fns[pid][k]()
            elif k == "ti":
                r = fns[pid]["t"]._invalidate_terminal_size_cache()
            elif k == "ci":
                r = fns[pid]["c"]._invalidate_cache()
            elif k == "f" or k == "fq":
                r = fns[pid]["f"](hex=True)
            elif k == "n":
                r = fns[pid]["n"]()
            elif k == "eq":
                r = L.ti.enable_queries()
            elif k == "ss":
                r = mod.get_cell_size()
                r = None if r is None else tuple(r)
            elif k == "swss":
                L.ti.enable_win_size_swap()
                r = mod.get_cell_size()
                r = None if r is None else tuple(r)
            elif k == "s":
                r = mod.get_cell_size()
                r = None if r is None else tuple(r)
            elif k == "start":
                r = model.children[1][0].start()
            else:
                raise world.HarnessError(f"call {c}")
            st.results.append((tag, i, k, c[1] if len(c) > 1 else None, r))

    for i, c in enumerate(spec["calls"]):
        s.spawn(prog, f"t{i}", args=(0, [c], f"t{i}"))
    if spec.get("child"):
        model.process(0, 1, lambda model, proc: prog(1, spec["child"], "child"), spec["method"])
    try:
        s.run()
        if spec.get("swap_race") and not s.deadlock and not any(t.exc is not None for t in s.tasks):
            r = u0.get_cell_size()
            st.final = (None if r is None else tuple(r), u0._swap_win_size)
        if spec.get("requery") and not s.deadlock and not any(t.exc is not None for t in s.tasks):
            # afterwards (no concurrency any more) a get must see the terminal, not the "queries disabled" answer
            st.final = (fns[0]["n"](), fns[0]["f"](hex=True), u0._queries_enabled)
    finally:
        u0.get_fg_bg_colors, u0.get_terminal_name_version = saved_getters
    return ch, s, model, tty, st


def t_judge(col, spec, ch, s, model, tty, st, case=None):
    bad = []
    case = case or dict(kind="schedule", spec=spec, choices=list(ch.choices))

    def viol(clause, what, **extra):
        bad.append(clause)
        sig = dict(clause=clause, harness=spec["name"], part="threads")
        if spec.get("method"):
            sig["method"] = spec["method"]
        sig.update(extra)
        col.violation(sig, f"[{spec['name']}] {what}; schedule={_short(ch.choices)}", case)

    if s.deadlock:
        viol("deadlock", f"deadlock: {s.deadlock}")
        return bad
    for t in s.tasks:
        if t.exc is not None:
            viol("exception", f"{t.name}: {type(t.exc).__name__}: {t.exc}\n{t.tb}", exc=type(t.exc).__name__)
    if bad:
        return bad
    inval = any(c[0] in ("ti", "ci") for c in spec["calls"])
    for key, n in sorted(st.runs.items(), key=repr):
        if n > 1 and not inval:
            viol("body-ran-twice", f"memoized body {key} ran {n} times for concurrent first calls",
                 decorator="cached" if key not in ("t", "tn") else "terminal_size_cached")
    vals = {}
    for tag, i, k, arg, r in st.results:
        if k in ("c", "t", "tn"):
            vals.setdefault((k, arg), set()).add(r)
    for key, v in vals.items():
        if len(v) > 1 and not inval:
            viol("different-values", f"concurrent first calls of {key} returned different values {sorted(v)}")
    for tag, i, k, arg, r in st.results:
        if k == "c" and r is not None and r[1] != TARGS.get(arg, arg):
            viol("cached-wrong-entry", f"{tag}: cached probe({TARGS.get(arg, arg)}) returned {r}, the value memoized "
                 f"for another argument tuple")
        if k == "f" and r != ("#ffffff", "#000000"):
            viol("fg-bg-value", f"{tag}: re-decorated get_fg_bg_colors returned {r}")
        if k == "s" and r != M.fresh_cell(M.ENVS[0], True, False):
            viol("cell-size-value", f"{tag}: get_cell_size() returned {r}, expected {M.fresh_cell(M.ENVS[0], True, False)}")
    if any(c[0] == "f" for c in spec["calls"]):
        n = bytes(tty.out).count(b"\x1b]11;?")
        if n != 1:
            viol("body-ran-twice", f"the terminal was asked for its colours {n} times by concurrent first calls",
                 decorator="cached", fn="get_fg_bg_colors")
    if spec.get("requery"):
        want = (M.FACTS["name"], M.fmt_colors(1), True)
        if st.final != want:
            viol("requery-after-enable", f"after a first call started while queries were disabled raced with "
                 f"enable_queries(), the getters return (name, colours, queries enabled) = {st.final}, a fresh "
                 f"computation gives {want}: a result obtained while queries were disabled survived re-enabling",
                 fn="name" if st.final[0] != want[0] else "colors" if st.final[1] != want[1] else "switch")
    if spec.get("swap_race"):
        want = (M.fresh_cell(M.ENVS[0], True, True), True)
        if st.final != want:
            viol("swap-toggle-race", f"after get_cell_size() raced with enable_win_size_swap(), a later get returns "
                 f"(cell size, swap enabled) = {st.final}; for the final settings a fresh computation gives {want}: "
                 f"a value computed under the old setting was memoized after the toggle's invalidation")
    if tty.inq or tty.pending:
        viol("unread", f"unread replies {bytes(tty.inq)!r} {tty.pending}")
    if len(st.results) != len(spec["calls"]) + len(spec.get("child", ())):
        viol("calls-finished", f"{len(st.results)} calls finished")
    if spec.get("child") and not s.never_started():
        a, b = model.mod(0)._cell_size_cache, model.mod(1)._cell_size_cache
        if a is not b:
            viol("shared-cell-size-cache", f"child uses {b!r}, parent {a!r}")
        elif tuple(a[:]) != (10, 5) + M.fresh_cell(M.ENVS[0], True, False):
            viol("shared-cell-size-cache", f"shared cache holds {a[:]}")
    return bad


def _short(choices):
    c = list(choices)
    while c and c[-1] == 0:
        c.pop()
    return c


_TSPECS = None


def _t_one(col, traces, spec, prefix):
    ch, s, model, tty, st = t_execute(spec, prefix)
    col.count()
    col.inc("schedules", 1)
    col.inc("scheduling_points", s.steps)
    bad = t_judge(col, spec, ch, s, model, tty, st)
    key = h64(repr((spec["name"], spec.get("method"), s.trace)))
    traces.add(key)
    if s.preemptions or any(lbl == "blocked" for _, lbl in s.trace):
        col.add_distinct(("schedule", key))
    return ch, s, bad


def _t_children(ch, pre, cost, bound):
    out = []
    for i in range(len(ch.choices) - 1, len(pre) - 1, -1):
        for alt in range(1, ch.arity[i]):
            c2 = cost + ch.cost_of(i, alt)
            if c2 <= bound:
                out.append((ch.choices[:i] + [alt], c2))
    return out


def _t_determinism(spec, choices, s):
    ch2, s2, *_ = t_execute(spec, choices)
    if s2.trace != s.trace:
        raise world.HarnessError(f"C15: schedule {_short(choices)} of {spec['name']} is not reproducible")


def _t_shard(items):
    col = _CTX.new_collector()
    traces = set()
    n = 0
    try:
        for hi, pre, cost in items:
            spec = _TSPECS[hi]
            stack = [(pre, cost)]
            while stack:
                p, c = stack.pop()
                ch, s, bad = _t_one(col, traces, spec, p)
                n += 1
                if bad or n % 499 == 0:
                    _t_determinism(spec, list(ch.choices), s)
                stack.extend(_t_children(ch, p, c, spec["bound"]))
    finally:
        sched.restore_instances()
    col.trace_set = traces
    return col


def thread_part(ctx):
    global _TSPECS
    specs = thread_harnesses(ctx.tier)
    if ctx.opts.get("bound"):
        for h in specs:
            h["bound"] = int(ctx.opts["bound"])
    _TSPECS = specs
    traces = set()
    items = []
    try:
        top = ctx.new_collector()
        for hi, spec in enumerate(specs):
            ch, s, bad = _t_one(top, traces, spec, [])
            _t_determinism(spec, list(ch.choices), s)
            _t_determinism(spec, list(ch.choices), s)
            items += [(hi, pre, cost) for pre, cost in _t_children(ch, [], 0, spec["bound"])]
        ctx.merge(top)
    finally:
        sched.restore_instances()
    for col in explore.pmap(_t_shard, explore.rotate(items), chunks_per_proc=8):
        traces |= col.trace_set
        ctx.merge(col)
    return dict(harnesses=[f"{h['name']}{'/' + h['method'] if h.get('method') else ''} preemptions<={h['bound']}"
                           for h in specs], distinct_traces=len(traces))


# ---------------------------------------------------------------------------------- entry points
def run(ctx):
    global _CTX
    _CTX = ctx
    part = ctx.opts.get("part")
    states = transitions = 0
    summaries = []
    if part in (None, "H"):
        for name, group, env_idx, depth, merged in searches(ctx.tier):
            if ctx.opts.get("search") and not name.startswith(ctx.opts["search"]):
                continue
            t0 = explore.Timer()
            r = bfs(ctx, name, group, env_idx, depth, merged)
            r["seconds"] = round(t0.elapsed(), 1)
            if ctx.opts.get("verbose"):
                import sys
                print({k: v for k, v in r.items() if k not in ("alphabet", "environments") and k[0] != "_"},
                      file=sys.stderr)
            summaries.append(r)
            if merged:
                states += r["states"]
                transitions += r["transitions"]
            if merged and depth is None and not r["fixpoint"]:
                ctx.cap(f"search {name} did not reach its fixpoint")
        world.uninstall()
        _seams_off()
        by = {r["search"]: r for r in summaries}
        for r in summaries:
            if not r["merged"]:
                base = by.get(r["search"].replace("-unmerged", ""))
                if base is not None:
                    if base["environments"] != r["environments"] or base["alphabet"] != r["alphabet"]:
                        raise world.HarnessError("C15: unmerged enumeration and merged search differ in space")
                    cross_check(base, r)
                    r["cross_checked"] = True
        for r in summaries:
            for k in ("_sigs", "_depth_of", "_allkeys"):
                r.pop(k, None)
    if part in (None, "T"):
        t = thread_part(ctx)
        ctx.coverage["thread_part"] = t
        states += t["distinct_traces"]
        transitions += ctx.extra.get("scheduling_points", 0)
    ctx.coverage["states"] = states
    ctx.coverage["transitions"] = transitions
    ctx.coverage["searches"] = summaries
    ctx.coverage["traces_validated_against_impl"] = ctx.evaluations
    for r in summaries[:2]:
        ctx.sample(dict(search=r["search"], alphabet=r["alphabet"], environments=r["environments"]))
    ctx.rule = ("history part: every operation of the alphabet applied in every reachable state (state = history, "
                "merged by implementation state + model state), to the fixpoint unless a depth bound is listed; "
                "evaluations = transitions executed on the real code + schedules; distinct = reachable merged states "
                "+ distinct thread interleavings with a preemption or contention; states/transitions = merged "
                "searches + thread part (traces / scheduling points)")
    ctx.assumptions += [
        "vlib/world.py VTty is the terminal (ioctl window size, XTWINOPS / OSC 10,11 / XTVERSION replies)",
        "reference model vlib/c15_model.py: memo validity = same terminal size in cells, same swap setting, not "
        "(computed while queries were disabled and queries enabled now); a pure pixel-size change may but need not be "
        "noticed; AutoCellRatio.is_supported is determined once, as documented",
        "thread part: vlib/sched.py scheduler, harness locks replace threading.RLock; atomicity = source line",
    ]


def replay(ctx, case):
    global _CTX
    _CTX = ctx
    if case.get("kind") == "schedule":
        try:
            spec = case["spec"]
            ch, s, model, tty, st = t_execute(spec, case["choices"])
            ch2, s2, *_ = t_execute(spec, case["choices"])
            if s.trace != s2.trace:
                raise world.HarnessError("C15 replay: schedule not reproducible")
            ctx.count()
            t_judge(ctx, spec, ch, s, model, tty, st, case)
        finally:
            sched.restore_instances()
        return
    envs = [M.Env(*[tuple(x) if isinstance(x, list) else x for x in e]) for e in case["envs"]]
    global _STDOUT, _KWARGS
    _STDOUT = tuple(case["stdout_size"]) if case.get("stdout_size") else None
    _KWARGS = bool(case.get("kwargs"))
    mach = Machine(envs)
    steps = [[o[0]] + [(x if not isinstance(x, list) else tuple(x)) for x in o[1:]] for o in case["steps"]]
    for i, op in enumerate(steps):
        v = mach.step(op)
        ctx.count()
        if v is not None:
            sig, what = v
            ctx.violation(sig, f"after {steps[:i]}: {what}", case)
            break
    world.uninstall()
    _seams_off()
