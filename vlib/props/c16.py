"""C16 Render-argument sets obey their precedence, compatibility and immutability laws.

Engine: programs x histories (DESIGN 3/C16).
  programs  = every rooted tree of render classes with 1..4 nodes below ``Renderable`` (up to tree
              isomorphism) x every subset of classes owning an ArgsNamespace (field ``a`` over
              {default, float(default), 1, True[, 2]} - i.e. with values that are EQUAL but distinguishable by
              type, so that an "equal" object is not necessarily "the same" object; second field ``b`` with a
              tuple default and fresh equal tuples; variants: one owner with a second field ``b``; one owner whose namespace
              class has a field-inheriting subclass) x seeding mode (eager: the shared default set of
              every class is created right after the class and its namespaces, i.e. before any subclass
              exists; lazy: no set exists at the start, defaults are interned by the explored operations
              themselves).  Classes are built dynamically with the real metaclasses, namespace classes are
              associated before the render class is subclassed or used.  In these programs the classes
              that do not own arguments own a DataNamespace.  Extra programs: one class of the tree lists a
              plain (non-render) mixin before / after its render base - the reference model ignores the mixin.
  histories = explicit-state breadth-first search over pools of real objects.  Alphabet: ``RenderArgs(cls,
              init?, *ns)`` for every class x init in {absent, None, every set in the pool} x every
              sequence of <= 2 pool namespaces; ``args.update(ns[, ns])``; ``args.update(cls, **fields)``
              for every class and field set (including none / unknown); malformed ``update`` forms;
              ``args.convert(cls)``; ``ns | ns``, ``ns | args``, ``args | ns``, ``ns.__ror__(ns)``; ``+ns``;
              ``ns.to_render_args([cls])``; ``ns.update(**fields)``; ``Args(*values, **fields)``.
              The result of an operation joins the pool.  A state is canonicalised by the VALUE of its
              objects (class, per-class field values, namespace-subclass bit, "is the interned default"
              bit) plus the set of classes whose default is interned: that is all the state the
              implementation has (``RenderArgs._interned`` is its only mutable global and objects are
              immutable - which is itself checked on every transition).  Branches share the real objects
              and the search rewinds ``_interned`` to the map of the state it executes in; identical calls
              (same real operand objects, same interned map) are executed once.
              Safeguards for the merging: every violation found is re-executed as a linear history on
              freshly created classes (no rewinding) before it is reported - a failure to reproduce is a
              harness error; both tiers also enumerate all short histories without any merging, each on
              fresh classes, and require the same reachable states and the same transition observations.
Oracle: ``c16_model.Model`` (dict-based reference written from the docstrings, DESIGN B.2) decides value /
        accepted / rejected-with-the-documented-error for every operation; every new object is read back
        through ``[]``, iteration, ``in``, ``==``, ``hash`` and compared with the model (equal <=> same
        class and values, equal => equal hash) against every object of the pool; after every operation
        every pre-existing object of the pool, every constituent namespace, every interned default and
        every class's ``Args`` / ``_ALL_DEFAULT_ARGS`` / ``_RENDER_DATA_MRO`` must be unchanged - compared by
        IDENTITY of the constituent namespaces of a set and by value AND TYPE of every field (a set re-initialised
        in place with equal namespaces, or 1 turned into True, is an alteration; ``==`` cannot see either) -,
        an interned default must never be replaced and must hold the declared default values (types included);
        expected and observed values of results are compared type-sensitively as well; a result may be an existing
        object only if that object has the expected value.
Part S (structure): full product args-owner subsets x data-owner subsets of every tree: class tables,
        ``RenderData`` contents and namespaces, and a menu of namespace class definitions (field without
        default, second association, re-association of a subclass, two bases, fields without association,
        association without fields, inherit + define fields, required constructor parameter, non-class
        ``render_cls``, unknown fields; well-formed ones) - malformed ones must be rejected with the
        documented error and leave every render class untouched.
"""
from __future__ import annotations

import gc
import itertools
import operator
import sys

from .. import explore, world
from ..harness import Collector, jsonable
from ..c16_model import ABSENT, NONE, Model, Prog, Spec, labelled_programs, real_value, typed, untyped

ID = "C16"
LEVEL = "model_checking"

_CTX = None


class Tainted(Exception):
    """An existing object was altered: the real objects shared by the branches of the merged search can no
    longer be trusted, the search of this program stops (the violation has been reported)."""


class Unmodelled(Exception):
    """The implementation did something legitimate that the canonical state cannot express."""


TAINTING = ("existing-object-altered", "class-defaults-altered", "shared-default-replaced",
            "shared-default-value", "namespace-attribute-writable")


class Obj:
    __slots__ = ("o", "d", "val", "uid", "snap", "h", "parts", "deep")

    def __repr__(self):
        return f"<{self.uid}:{self.d}>"


class State:
    __slots__ = ("objs", "descs", "dset", "imap", "ikey", "ikeys", "parent", "op", "depth", "iops", "ids",
                 "watch")

    def history(self):
        h, s = [], self
        while s.parent is not None:
            h.append(s.op)
            s = s.parent
        return h[::-1]


def _j(op):
    """op tuple -> json-able nested lists (and back through _t)."""
    return [(_j(x) if isinstance(x, tuple) else x) for x in op]


def _t(op):
    return tuple((_t(x) if isinstance(x, list) else x) for x in op)


class Engine:
    """One program: real classes + reference model + the search / linear execution of operations."""

    def __init__(self, col, spec, rewind=True, confirm=True, full=False, tag=""):
        L = world.load()
        self.L, self.col, self.spec, self.rewind, self.confirm, self.full = L, col, spec, rewind, confirm, full
        T = L._types
        self.T = T
        self.RA = T.RenderArgs
        self.interned = T.RenderArgs._interned
        self.saved_interned = dict(self.interned)
        self.interned.clear()
        self.interned[L.renderable.Renderable] = T.BASE_RENDER_ARGS
        k0 = L.renderable.Renderable
        self.base_tables = {n: getattr(k0, n) for n in ("Args", "_Data_", "_ALL_DEFAULT_ARGS", "_RENDER_DATA_MRO")}
        self.P = Prog(L, spec, early_intern=(spec.seed == "eager"), tag=tag)
        self.M = Model(spec)
        self.EXC = dict(
            IncompatibleRenderArgsError=T.IncompatibleRenderArgsError,
            IncompatibleArgsNamespaceError=T.IncompatibleArgsNamespaceError,
            NoArgsNamespaceError=T.NoArgsNamespaceError,
            UnknownArgsFieldError=T.UnknownArgsFieldError,
            ValueError=ValueError, TypeError=TypeError)
        self.by_value = {}
        self.nuid = 0
        self.ikeys = {}
        self.memo = {}
        self.confirmed = {}
        self.fsets = [self.M.field_sets(c, full) for c in self.M.classes]
        self.fsets_args = [self.M.field_sets(c, full, via_args=True) for c in self.M.classes]
        self.mkops = self.M.mk_ops(full)
        self.nstates = 0
        self.ntrans = 0
        self.seen = set()
        self.prefix = []
        self.in_prefix = True
        self.class_snap0 = self.class_snap()
        self.class_quick0 = [(k.Args, k._Data_, dict(k._ALL_DEFAULT_ARGS), dict(k._RENDER_DATA_MRO))
                             for k in self.P.cls]
        self.getters = {}
        for c in self.M.owners:
            for k in (self.P.args_cls[c], self.P.sub_cls[c]):
                if k is not None:
                    f = self.M.fields[c]
                    self.getters[k] = (operator.attrgetter(*f) if len(f) > 1
                                       else (lambda o, g=operator.attrgetter(f[0]): (g(o),)))
        self.observed = set()
        self.state0 = self.initial_state()
        self.in_prefix = False

    def close(self):
        self.interned.clear()
        self.interned.update(self.saved_interned)
        # Renderable is shared by every program: undo anything a (reported) misbehaviour did to it
        k = self.P.cls[0]
        for name, v in self.base_tables.items():
            if getattr(k, name) is not v:
                setattr(k, name, v)
        self.by_value.clear()
        self.memo.clear()
        self.state0 = None
        self.seen = set()

    # ------------------------------------------------------------------ reading real objects
    def class_snap(self):
        return [(k.Args, k._Data_, tuple(k._ALL_DEFAULT_ARGS), tuple(map(id, k._ALL_DEFAULT_ARGS.values())),
                 tuple(k._RENDER_DATA_MRO.items())) for k in self.P.cls]

    def class_tables_changed(self):
        """Cheap per-operation version of ``class_snap() != class_snap0`` (the default namespaces
        themselves are pool objects and watched for in-place changes)."""
        for k, (a, d, da, dm) in zip(self.P.cls, self.class_quick0):
            if k.Args is not a or k._Data_ is not d or k._ALL_DEFAULT_ARGS != da or k._RENDER_DATA_MRO != dm:
                return True
        return False

    def snap(self, o):
        """Shallow value of a real object (constituent namespaces are watched separately)."""
        if type(o) is self.RA:
            # identity of the constituents: a set must keep holding the very namespaces it was built with
            return (o.render_cls, tuple([(k, id(v)) for k, v in o._namespaces.items()]))
        g = self.getters.get(type(o))
        vals = g(o) if g is not None else tuple(o.as_dict().values())
        # type-sensitive: True in place of 1 is a change
        return (type(o), vals, tuple(map(type, vals)))

    def describe(self, o):
        """Descriptor of a real object, read through the public API only."""
        idx = self.P.idx
        if isinstance(o, self.RA):
            comps = sorted([(idx[ns.get_render_cls()], tuple(map(typed, ns.as_dict().values()))) for ns in o],
                           key=lambda x: x[0])
            return ("A", idx[o.render_cls], tuple(comps), self.interned.get(o.render_cls) is o)
        c = idx[o.get_render_cls()]
        return ("N", c, tuple(map(typed, o.as_dict().values())), type(o) is self.P.sub_cls[c])

    def wrap(self, o, ids=None, d=None):
        if ids is not None:
            ob = ids.get(id(o))
            if ob is not None:
                return ob
        ob = Obj()
        ob.o, ob.d, ob.uid, ob.snap = o, (d or self.describe(o)), self.nuid, self.snap(o)
        ob.h = hash(o)
        ob.val = untyped(ob.d)
        if ob.d[0] == "A":
            # constituent namespaces, watched for in-place changes
            ob.parts = [(ns, self.snap(ns)) for ns in o._namespaces.values()]
            # complete state of the object (value, order and types of the constituents)
            ob.deep = (ob.d, tuple([(k, type(v)) for k, v in o._namespaces.items()]))
        else:
            ob.parts = [(o, ob.snap)]
            ob.deep = ob.d
        self.nuid += 1
        return ob

    def ikey_of(self, imap):
        k = tuple(sorted([(c, ob.uid) for c, ob in imap.items()]))
        return self.ikeys.setdefault(k, len(self.ikeys))

    def read_imap(self):
        idx = self.P.idx
        out = {}
        for k, v in self.interned.items():
            if k not in idx:
                raise world.HarnessError(f"C16: foreign class {k!r} in RenderArgs._interned")
            out[idx[k]] = v
        return out

    def set_interned(self, imap):
        d = self.interned
        d.clear()
        cls = self.P.cls
        for c, ob in imap.items():
            d[cls[c]] = ob.o

    def make_state(self, parent, op, objs, imap):
        s = State()
        s.objs = objs
        s.descs = [ob.d for ob in objs]
        s.dset = frozenset(s.descs)
        s.imap = imap
        s.ikey = self.ikey_of(imap)
        s.ikeys = frozenset(imap)
        s.parent, s.op = parent, op
        s.depth = 0 if parent is None else parent.depth + 1
        s.iops = None
        s.ids = {id(ob.o): ob for ob in objs}
        for ob in imap.values():
            s.ids[id(ob.o)] = ob
        watch = {}
        for ob in s.ids.values():
            for ns, sn in ob.parts:
                watch[id(ns)] = [ns, sn]
        s.watch = list(watch.values())
        return s

    def initial_state(self):
        """Pool = each owner's shared default namespace; then the seeding prefix, executed and judged
        like any other operation (eager: ``RenderArgs(cls)`` for every class)."""
        P, M = self.P, self.M
        objs = [self.wrap(P.cls[c]._ALL_DEFAULT_ARGS[P.cls[c]]) for c in M.owners]
        imap = {c: self.wrap(o) for c, o in self.read_imap().items()}
        s = self.make_state(None, None, objs, imap)
        prefix = []
        for c in M.owners:
            if self.spec.sub[c]:
                prefix.append(("mk", c, (), (), True))
        if self.spec.seed == "eager":
            for c in M.classes:
                prefix.append(("ctor", c, ABSENT, ()))
        for op in prefix:
            s = self.advance(s, op, force=True)
        self.prefix = prefix
        return self.make_state(None, None, s.objs, s.imap)

    # ------------------------------------------------------------------ executing one operation
    def apply(self, op, pool):
        P = self.P
        k = op[0]
        if k == "ctor":
            _, c, init, nss = op
            ns = [pool[i].o for i in nss]
            if init == ABSENT:
                return self.RA(P.cls[c], *ns)
            if init == NONE:
                return self.RA(P.cls[c], None, *ns)
            return self.RA(P.cls[c], pool[init].o, *ns)
        if k == "upd_ns":
            return pool[op[1]].o.update(*[pool[i].o for i in op[2]])
        if k == "upd_f":
            return pool[op[1]].o.update(P.cls[op[2]], **{f: real_value(op[2], f, t) for f, t in op[3]})
        if k == "upd_bad_kw":
            return pool[op[1]].o.update(pool[op[2]].o, a=1)
        if k == "upd_bad_pos":
            return pool[op[1]].o.update(P.cls[op[2]], pool[op[3]].o)
        if k == "conv":
            return pool[op[1]].o.convert(P.cls[op[2]])
        if k == "or":
            return pool[op[1]].o | pool[op[2]].o
        if k == "ror":
            return pool[op[1]].o.__ror__(pool[op[2]].o)
        if k == "pos":
            return +pool[op[1]].o
        if k == "tra":
            if op[2] < 0:
                return pool[op[1]].o.to_render_args()
            return pool[op[1]].o.to_render_args(P.cls[op[2]])
        if k == "nsupd":
            c = pool[op[1]].d[1]
            return pool[op[1]].o.update(**{f: real_value(c, f, t) for f, t in op[2]})
        if k == "mk":
            _, c, pos, kw, sub = op
            names = self.M.fields[c]
            return (P.sub_cls[c] if sub else P.args_cls[c])(
                *[real_value(c, names[i] if i < len(names) else "a", t) for i, t in enumerate(pos)],
                **{f: real_value(c, f, t) for f, t in kw})
        raise world.HarnessError(f"C16: unknown op {op!r}")

    def rel(self, c1, c2):
        """What c2 is to c1."""
        M = self.M
        if c1 == c2:
            return "same"
        if M.issub(c1, c2):
            return "ancestor"
        if M.issub(c2, c1):
            return "descendant"
        return "unrelated"

    def kind_of(self, d):
        if d[0] == "N":
            return "ns-sub" if d[3] else "ns"
        if d[3]:
            return "interned-default"
        dflt = self.M.default_args(d[1])
        if d[:3] == dflt:
            return "default-valued"
        return "default-equal" if untyped(d) == untyped(dflt) else "non-default"

    def shape(self, S, op):
        """Coarse, value-free description of an operation for violation signatures."""
        k = op[0]
        D = S.descs
        if k == "ctor":
            _, c, init, nss = op
            if init < 0:
                i = "absent" if init == ABSENT else "None"
            else:
                i = f"{self.kind_of(D[init])}:{self.rel(c, D[init][1])}"
            return dict(op=k, init=i, ns=[self.rel(c, D[x][1]) for x in nss],
                        target_interned=(c in S.imap))
        if k == "upd_ns":
            return dict(op=k, init=self.kind_of(D[op[1]]), ns=[self.rel(D[op[1]][1], D[x][1]) for x in op[2]])
        if k == "upd_f":
            return dict(op=k, init=self.kind_of(D[op[1]]), target=self.rel(D[op[1]][1], op[2]),
                        owner=bool(self.M.nf[op[2]]), fields=[f"{f}={t}" for f, t in op[3]])
        if k == "conv":
            return dict(op=k, init=self.kind_of(D[op[1]]), target=self.rel(D[op[1]][1], op[2]),
                        target_interned=(op[2] in S.imap))
        if k in ("or", "ror"):
            return dict(op=k, left=self.kind_of(D[op[1]]), right=self.kind_of(D[op[2]]),
                        rel=self.rel(D[op[1]][1], D[op[2]][1]))
        if k == "tra":
            return dict(op=k, target=("none" if op[2] < 0 else self.rel(D[op[1]][1], op[2])))
        if k == "mk":
            return dict(op=k, pos=list(op[2]), kw=[f"{f}={t}" for f, t in op[3]], sub=op[4])
        if k == "nsupd":
            return dict(op=k, fields=[f"{f}={t}" for f, t in op[2]], sub=D[op[1]][3])
        return dict(op=k)

    def report(self, S, op, clause, what, **extra):
        sig = dict(part="ops", clause=clause, seed=self.spec.seed, **self.shape(S, op), **extra)
        hist = S.history() + [op]
        if not self.in_prefix:
            hist = self.prefix + hist
        case = dict(part="ops", spec=self.spec.to_json(), ops=[_j(o) for o in hist])
        what = f"{what} | op={op} pool={S.descs} interned={sorted(S.imap)} spec={self.spec.to_json()}"
        if self.rewind and self.confirm:
            key = repr(sorted(sig.items()))
            ok = self.confirmed.get(key)
            if ok is None:
                scratch = Collector()
                mine = dict(self.interned)
                linear_run(scratch, case)
                self.interned.clear()
                self.interned.update(mine)
                ok = any(v[1] == jsonable(sig) for v in scratch.violations.values())
                self.confirmed[key] = ok
                if not ok:
                    raise world.HarnessError(
                        f"C16: violation {sig} found in the merged search is not reproduced by the linear "
                        f"history {case['ops']} on fresh classes (got {list(scratch.violations)})")
        self.col.violation(sig, what, case)
        if self.rewind and clause in TAINTING:
            raise Tainted(clause)

    def execute(self, S, op):
        """Run *op* on the real objects of state S and judge it.
        Returns (result Obj | None, new imap | None when unchanged)."""
        col, M = self.col, self.M
        pool = S.objs
        if self.rewind:
            self.set_interned(S.imap)
        exc = res = None
        try:
            res = self.apply(op, pool)
        except world.HarnessError:
            raise
        except Exception as e:
            exc = e
        col.count()
        self.ntrans += 1
        # ---- hidden state after the call
        after = self.read_imap()
        new_imap = None
        imap = S.imap
        replaced = False
        for c, ob in imap.items():
            if after.get(c) is not ob.o:
                replaced = True
                self.report(S, op, "shared-default-replaced",
                            f"the shared default set of class {c} was replaced or dropped")
        if replaced:      # (linear executions go on: follow the implementation so that it is reported once)
            imap = {c: ob for c, ob in imap.items() if after.get(c) is ob.o}
        if len(after) != len(imap):
            new_imap = dict(imap)
            for c, o in after.items():
                if c not in imap:
                    known = S.ids.get(id(o))
                    if known is not None and not known.d[3]:
                        if known.d[:3] != M.default_args(c):
                            self.report(S, op, "shared-default-value",
                                        f"an existing set holding {known.d[:3]} became the shared default of "
                                        f"class {c}, expected {M.default_args(c)}", existing=True)
                        elif self.rewind:
                            # legitimate, but the canonical state treats "is the interned default" as a fixed
                            # attribute of an object: give up on this program (reported as a cap)
                            raise Unmodelled("an existing default-valued set became the interned default")
                        new_imap[c] = known      # (linear executions go on)
                        continue
                    nob = self.wrap(o, S.ids)
                    new_imap[c] = nob
                    if nob.d[:3] != M.default_args(c):
                        self.report(S, op, "shared-default-value",
                                    f"the set interned as the shared default of class {c} holds {nob.d[:3]}, "
                                    f"expected {M.default_args(c)}")
        # ---- immutability of everything that existed before (pool, interned defaults, class tables)
        snap = self.snap
        for ob in S.ids.values():
            if snap(ob.o) != ob.snap:
                old, ob.snap = ob.snap, snap(ob.o)     # (linear executions go on: report it once)
                self.report(S, op, "existing-object-altered",
                            f"object {ob.d} changed: {old} -> {ob.snap}; it now reads {ob.o!r}",
                            victim=self.kind_of(ob.d))
        for w in S.watch:
            if snap(w[0]) != w[1]:
                old, w[1] = w[1], snap(w[0])
                self.report(S, op, "existing-object-altered", f"namespace changed in place: {old} -> {w[1]}",
                            victim="constituent-namespace")
        if self.class_tables_changed():
            self.report(S, op, "class-defaults-altered", "_ALL_DEFAULT_ARGS / Args / _Data_ of a class changed")
        # ---- outcome against the reference model
        exp = M.expect(op, S.descs)
        if exp[0] == "err":
            if exc is None:
                self.report(S, op, "accepted-incompatible",
                            f"expected {sorted(exp[1])}, got {res!r}", expected=sorted(exp[1]))
            elif not any(isinstance(exc, self.EXC[n]) for n in exp[1]):
                self.report(S, op, "wrong-error", f"expected {sorted(exp[1])}, got {type(exc).__name__}: {exc}",
                            expected=sorted(exp[1]), exc=type(exc).__name__)
            elif type(exc).__module__.startswith("term_image") and not isinstance(exc, self.T.RenderArgsError):
                # the documented errors of render-argument sets all belong to the documented RenderArgsError
                # family (`except RenderArgsError` is how a caller handles a rejected set)
                self.report(S, op, "wrong-error-family", f"{type(exc).__name__} raised for a rejected set is not a "
                            f"RenderArgsError (bases: {[k.__name__ for k in type(exc).__mro__[1:4]]})",
                            exc=type(exc).__name__)
            return None, new_imap
        want = exp[1]
        if exc is not None:
            self.report(S, op, "rejected-valid", f"expected {want}, got {type(exc).__name__}: {exc}",
                        exc=type(exc).__name__)
            return None, new_imap
        ids = S.ids
        if new_imap is not None:
            ids = dict(ids)
            for ob in new_imap.values():
                ids[id(ob.o)] = ob
        return self.check_result(S, op, res, want, ids), new_imap

    def check_result(self, S, op, res, want, ids):
        P = self.P
        if want[0] == "A":
            if type(res) is not self.RA:
                self.report(S, op, "result-type", f"result is {type(res).__name__}, expected RenderArgs")
                return None
        else:
            k = P.sub_cls[want[1]] if want[3] else P.args_cls[want[1]]
            if type(res) is not k:
                self.report(S, op, "result-type", f"result is {type(res).__name__}, expected {k.__name__}")
                return None
        known = ids.get(id(res))
        try:
            d = self.describe(res)      # (also for an existing object: what it holds NOW, types included)
        except Exception as e:
            self.report(S, op, "result-unreadable", f"{type(e).__name__}: {e}")
            return None
        if d[:3] != want[:3]:
            self.report(S, op, "value", f"result {d[:3]}, expected {want[:3]} (last namespace given for a class, "
                        "else the initial set's, else the default)", aliased=(known is not None))
            return None
        if known is not None:
            # aliasing with an existing object: allowed, the value check above says it is an equal one
            self.col.inc("aliased_results")
            return known
        ob = self.wrap(res, None, d)
        self.observe(S, op, ob)
        return ob

    def observe(self, S, op, ob):
        """Read-only laws on a new object: __getitem__, __iter__, __contains__, ==, hash.  They are
        functions of the complete state of the object(s) involved, so each is evaluated once per distinct
        (object state) resp. (object state, partner object)."""
        M, P, col = self.M, self.P, self.col
        o, d = ob.o, ob.d
        n = 0
        observed = self.observed
        deep = ob.deep
        first = deep not in observed
        if first:
            observed.add(deep)
        if d[0] == "A":
            if first:
                if o.render_cls is not P.cls[d[1]]:
                    self.report(S, op, "render_cls", f"render_cls is {o.render_cls!r}")
                seen = sorted([P.idx.get(ns.get_render_cls(), -1) for ns in o])
                if seen != M.omro[d[1]]:
                    self.report(S, op, "constituents", f"namespaces for classes {seen}, expected {M.omro[d[1]]}")
                for c in M.classes:
                    g = M.getitem(d, c)
                    n += 1
                    try:
                        ns = o[P.cls[c]]
                    except Exception as e:
                        if g[0] == "ok" or not isinstance(e, self.EXC[next(iter(g[1]))]):
                            self.report(S, op, "getitem", f"args[{c}] raised {type(e).__name__}, expected {g}",
                                        item=self.rel(d[1], c))
                    else:
                        if g[0] == "err":
                            self.report(S, op, "getitem", f"args[{c}] returned {ns!r}, expected {sorted(g[1])}",
                                        item=self.rel(d[1], c))
                        elif not isinstance(ns, P.args_cls[c]) or tuple(map(typed, ns.as_dict().values())) != g[1][2]:
                            self.report(S, op, "getitem", f"args[{c}] returned {ns!r}, expected values {g[1][2]}",
                                        item=self.rel(d[1], c))
            comps = None
        elif first:
            if o.get_render_cls() is not P.cls[d[1]]:
                self.report(S, op, "render_cls", f"get_render_cls() is {o.get_render_cls()!r}")
            for thunk, name in ((lambda: setattr(o, "a", 7), "set"), (lambda: delattr(o, "a"), "del"),
                                (lambda: setattr(o, "zz", 7), "set-unknown")):
                n += 1
                try:
                    thunk()
                except AttributeError:
                    pass
                else:
                    self.report(S, op, "namespace-attribute-writable", f"{name} on a namespace did not raise")
            if self.snap(o) != ob.snap:
                self.report(S, op, "namespace-attribute-writable", "attribute assignment altered a namespace")
        # equality / hash / containment against the pool
        val = ob.val
        for p in S.objs:
            pk = (deep, p.uid)
            if pk in observed:
                continue
            observed.add(pk)
            n += 1
            same = p.val == val
            e1, e2 = (o == p.o), (p.o == o)
            if e1 != same or e2 != same or (o != p.o) == same:
                self.report(S, op, "equality", f"{d} == {p.d} is {e1}/{e2}, model says {same}")
            elif same and ob.h != p.h:
                self.report(S, op, "hash", f"equal objects {d} and {p.d} hash differently")
            if d[0] == "A" and p.d[0] == "N":
                if comps is None:
                    comps = dict(val[2])
                if (p.o in o) != (comps.get(p.d[1]) == p.val[2]):
                    self.report(S, op, "contains", f"({p.d} in {d}) is {p.o in o}")
        # ... and against the first object ever produced with the same value in this program
        # (linear executions only: there every earlier object belongs to the same history, so the case replays)
        rep = ob if self.rewind else self.by_value.setdefault(val, ob)
        if rep is not ob:
            if ob.h != rep.h:
                self.report(S, op, "hash", f"equal objects {d} and {rep.d} (earlier) hash differently")
            elif first and not (o == rep.o and rep.o == o):
                self.report(S, op, "equality", f"{d} != an earlier object with the same value {rep.d}")
        col.inc("observer_calls", n)

    # ------------------------------------------------------------------ linear execution
    def advance(self, S, op, force=False):
        """Execute op in S (judged); the result joins the pool if its descriptor is new."""
        ob, new_imap = self.execute(S, op)
        imap = new_imap if new_imap is not None else S.imap
        if ob is not None and ob.d not in S.dset:
            return self.make_state(S, op, S.objs + [ob], imap)
        if new_imap is not None or force:
            return self.make_state(S, op, S.objs, imap)
        return S

    # ------------------------------------------------------------------ alphabet
    def ops_of(self, S, only_new=False):
        """Yield (op in pool-index space, identity key) for every operation applicable in S.
        only_new: only the operations that involve the newest pool object."""
        M = self.M
        objs = S.objs
        last = len(objs) - 1
        NS = [(i, ob.uid) for i, ob in enumerate(objs) if ob.d[0] == "N"]
        RA = [(i, ob.uid) for i, ob in enumerate(objs) if ob.d[0] == "A"]
        C = M.classes
        combos = [((), ())] + [((i,), (u,)) for i, u in NS] + [((i, j), (u, v)) for i, u in NS for j, v in NS]
        inits = [(ABSENT, ABSENT), (NONE, NONE)] + RA
        for ii, iu in inits:
            for ci, cu in combos:
                if only_new and ii != last and last not in ci:
                    continue
                for c in C:
                    yield ("ctor", c, ii, ci), ("ctor", c, iu, cu)
        for ai, au in RA:
            a_new = (not only_new) or ai == last
            for ci, cu in combos[1:]:
                if a_new or last in ci:
                    yield ("upd_ns", ai, ci), ("upd_ns", au, cu)
            for xi, xu in NS:
                if a_new or xi == last:
                    yield ("upd_bad_kw", ai, xi), ("upd_bad_kw", au, xu)
                    yield ("or", ai, xi), ("or", au, xu)
            if NS:
                xi, xu = NS[0]
                if a_new:
                    for c in C:
                        yield ("upd_bad_pos", ai, c, xi), ("upd_bad_pos", au, c, xu)
            if a_new:
                for c in C:
                    yield ("conv", ai, c), ("conv", au, c)
                    for f in self.fsets_args[c]:
                        yield ("upd_f", ai, c, f), ("upd_f", au, c, f)
        for xi, xu in NS:
            x_new = (not only_new) or xi == last
            for yi, yu in NS:
                if x_new or yi == last:
                    yield ("or", xi, yi), ("or", xu, yu)
                    yield ("ror", xi, yi), ("ror", xu, yu)
            for yi, yu in RA:
                if x_new or yi == last:
                    yield ("or", xi, yi), ("or", xu, yu)
            if x_new:
                yield ("pos", xi), ("pos", xu)
                yield ("tra", xi, -1), ("tra", xu, -1)
                for c in C:
                    yield ("tra", xi, c), ("tra", xu, c)
                for f in self.fsets[objs[xi].d[1]]:
                    yield ("nsupd", xi, f), ("nsupd", xu, f)
        if not only_new:
            for op in self.mkops:
                yield op, op

    # ------------------------------------------------------------------ merged breadth-first search
    def search(self, depth, incremental=True, record=None):
        """Execute every operation in every state reachable by < depth operations from the seed state
        (i.e. every history of <= depth operations).  self.seen: canonical states at depth <= depth.
        record: optional set receiving value-space observations of the executed transitions."""
        s0 = self.state0
        seen = self.seen = {(s0.dset, s0.ikeys)}
        frontier = [s0]
        memo = self.memo
        for level in range(depth):
            nxt = []
            expand = level + 1 < depth
            for S in frontier:
                par = S.parent
                inc = incremental and par is not None and par.ikey == S.ikey and par.iops is not None
                if inc:
                    # operations not involving the newest object were executed in the parent state (same
                    # interned map): only those whose outcome can lead to a new state are looked at again
                    # (one representative per distinct outcome)
                    todo = itertools.chain(self.ops_of(S, only_new=True), list(par.iops.values()))
                else:
                    todo = self.ops_of(S)
                iops = {}
                ik, dset, ikeys = S.ikey, S.dset, S.ikeys
                for op, key in todo:
                    mk = (key, ik)
                    hit = memo.get(mk)
                    if hit is None:
                        ob, new_imap = self.execute(S, op)
                        rd = ob.d if ob is not None else None
                        added = (frozenset(new_imap) - ikeys) if new_imap is not None else None
                        memo[mk] = (rd, added)
                        executed = True
                        if record is not None:
                            record.add(self.observation(S, op, rd, added))
                    else:
                        rd, added = hit
                        executed = False
                    newobj = rd is not None and rd not in dset
                    if not newobj and not added:
                        continue
                    iops.setdefault((rd if newobj else None, added or None), (op, key))
                    k = ((dset | {rd}) if newobj else dset, (ikeys | added) if added else ikeys)
                    if k in seen:
                        continue
                    seen.add(k)
                    if not expand:
                        continue
                    if not executed:
                        # identical call seen before, but it leads to a new state here: run it again to
                        # obtain the real objects of this branch
                        ob, new_imap = self.execute(S, op)
                        rd2 = ob.d if ob is not None else None
                        added2 = (frozenset(new_imap) - ikeys) if new_imap is not None else None
                        if rd2 != rd or added2 != added:
                            raise world.HarnessError(f"C16: nondeterministic operation {op} in {S.descs}")
                    objs = S.objs + [ob] if newobj else S.objs
                    nxt.append(self.make_state(S, op, objs, new_imap if new_imap is not None else S.imap))
                S.iops = iops
            frontier = nxt
            if not nxt:
                break
        self.nstates = len(seen)
        return seen

    def observation(self, S, op, rd, added):
        """Value-space rendering of one transition (for the merged/unmerged comparison)."""
        D = S.descs
        k = op[0]
        if k == "ctor":
            vop = (k, op[1], D[op[2]] if op[2] >= 0 else op[2], tuple([D[i] for i in op[3]]))
        elif k == "upd_ns":
            vop = (k, D[op[1]], tuple([D[i] for i in op[2]]))
        elif k == "upd_bad_pos":
            vop = (k, D[op[1]], op[2], D[op[3]])
        elif k in ("upd_bad_kw", "or", "ror"):
            vop = (k, D[op[1]], D[op[2]])
        elif k == "mk":
            vop = op
        else:
            vop = (k, D[op[1]]) + op[2:]
        return (S.ikeys, vop, rd, added or None)


# ---------------------------------------------------------------------------------- linear histories
def linear_run(col, case):
    """Replay one recorded history on freshly created classes, without touching RenderArgs._interned."""
    spec = Spec.from_json(case["spec"])
    eng = Engine(col, spec, rewind=False, confirm=False, full=True, tag="r")
    try:
        ops = [_t(o) for o in case["ops"]]
        npre = len(eng.prefix)
        if ops[:npre] != eng.prefix[: len(ops)]:
            raise world.HarnessError("C16: replay case does not start with the seeding prefix")
        S = eng.state0
        for op in ops[npre:]:
            S = eng.advance(S, op)
    finally:
        eng.close()


def unmerged(col, spec, depth, full):
    """Every history of <= depth operations, each one replayed on freshly created classes, without
    merging states, memoising calls or rewinding the interned map.
    Returns (canonical states at depth <= depth, observations of the operations executed in states of
    depth < depth, number of operations)."""
    states, obs = set(), set()
    stack = [[]]
    n = 0

    def fresh(hist):
        eng = Engine(col, spec, rewind=False, confirm=False, full=full, tag="u")
        S = eng.state0
        for op in hist:
            S = eng.advance(S, op)
        return eng, S

    while stack:
        hist = stack.pop()
        eng, S = fresh(hist)
        try:
            states.add((S.dset, S.ikeys))
            if len(hist) >= depth:
                continue
            # An operation that leaves the interned map alone leaves the whole context as it was (objects
            # are immutable - checked), so the next one runs in the same context; after an operation that
            # interned a default the context is rebuilt from scratch.
            base = list(S.descs)
            for op in [op for op, _ in eng.ops_of(S)]:
                n += 1
                ob, new_imap = eng.execute(S, op)
                rd = ob.d if ob is not None else None
                added = (frozenset(new_imap) - S.ikeys) if new_imap is not None else None
                obs.add(eng.observation(S, op, rd, added))
                if (rd is not None and rd not in S.dset) or added:
                    stack.append(hist + [op])
                if new_imap is not None:
                    eng.close()
                    eng, S = fresh(hist)
                    if S.descs != base:
                        raise world.HarnessError("C16: nondeterministic replay in the unmerged enumeration")
        finally:
            eng.close()
    return states, obs, n


# ---------------------------------------------------------------------------------- part S: structure + menu
def structure_case(col, case):
    """args-owner subset x data-owner subset of one tree: class-level tables, RenderData, menu."""
    L = world.load()
    T = L._types
    R = L.renderable
    spec = Spec.from_json(case["spec"])
    eng = Engine(col, spec, rewind=False, confirm=False, tag="s")
    try:
        P, M = eng.P, eng.M
        col.count()

        def bad(clause, what, **extra):
            col.violation(dict(part="structure", clause=clause, **extra), f"{what} | spec={spec.to_json()}", case)

        # -- class-level tables
        for c in M.classes:
            k = P.cls[c]
            got = sorted(P.idx.get(x, -1) for x in k._ALL_DEFAULT_ARGS)
            if got != M.omro[c]:
                bad("default-args-table", f"class {c}: default namespaces for {got}, expected {M.omro[c]}")
            for x, ns in k._ALL_DEFAULT_ARGS.items():
                xi = P.idx.get(x, -1)
                if xi in M.default and (type(ns) is not P.args_cls[xi] or tuple(map(typed, ns.as_dict().values())) != M.default[xi]):
                    bad("default-args-table", f"class {c}: default namespace of {xi} is {ns!r}")
            if (k.Args is not P.args_cls[c]) or (c and k._Data_ is not P.data_cls[c]):
                bad("association", f"class {c}: Args={k.Args!r} _Data_={k._Data_!r}")
            got = sorted(P.idx.get(x, -1) for x in k._RENDER_DATA_MRO)
            if got != M.dmro[c]:
                bad("data-table", f"class {c}: data namespaces for {got}, expected {M.dmro[c]}")
        # -- RenderData
        for c in M.classes:
            rd1, rd2 = R.RenderData(P.cls[c]), R.RenderData(P.cls[c])
            col.count(2)
            for x in M.classes:
                try:
                    ns = rd1[P.cls[x]]
                except T.NoDataNamespaceError:
                    ok = x not in M.dmro[c] and M.issub(c, x)
                except ValueError:
                    ok = not M.issub(c, x)
                except Exception as e:
                    ok = False
                    ns = e
                else:
                    ok = x in M.dmro[c] and type(ns) is P.data_cls[x] and ns is not rd2[P.cls[x]]
                    if ok and x:
                        try:
                            ns.x
                        except T.UninitializedDataFieldError:
                            pass
                        else:
                            ok = False
                        ns.x = 5
                        ns.update(y=6)
                        ok = ok and ns.as_dict() == {"x": 5, "y": 6}
                        try:
                            rd2[P.cls[x]].y
                        except T.UninitializedDataFieldError:
                            pass
                        else:
                            ok = False
                        for thunk in (lambda: ns.zz, lambda: setattr(ns, "zz", 1), lambda: ns.update(zz=1)):
                            try:
                                thunk()
                            except T.UnknownDataFieldError:
                                pass
                            else:
                                bad("unknown-field", "unknown data field accepted", kind="data")
                if not ok:
                    bad("render-data", f"RenderData({c})[{x}] misbehaves: {ns!r}")
            rd1.finalize()
            rd2.finalize()
        # -- menu of namespace class definitions
        if case.get("menu", True):
            menu(col, eng, case, bad)
    finally:
        eng.close()


def menu(col, eng, case, bad):
    L = eng.L
    T = L._types
    R = L.renderable
    P, M, spec = eng.P, eng.M, eng.spec
    kinds = (("args", T.ArgsNamespaceMeta, R.ArgsNamespace, T.RenderArgsError, P.args_cls),
             ("data", T.DataNamespaceMeta, R.DataNamespace, T.RenderDataError, P.data_cls))
    leaves = [c for c in M.classes if c and c not in spec.parents]
    snap0 = eng.class_snap()
    saved = [(k.Args, k._Data_, k._ALL_DEFAULT_ARGS, k._RENDER_DATA_MRO) for k in P.cls]

    def attempt(label, kind, expected, thunk, **extra):
        """expected: exception class, or None when the definition is well-formed."""
        col.count()
        col.add_distinct(("menu", label, kind, spec.key, tuple(sorted(extra.items()))))
        try:
            k = thunk()
        except Exception as e:
            if expected is None:
                bad("menu-rejected-valid", f"{label}/{kind}: {type(e).__name__}: {e}", label=label, kind=kind)
            elif not isinstance(e, expected):
                bad("menu-wrong-error", f"{label}/{kind}: {type(e).__name__}: {e}, expected {expected.__name__}",
                    label=label, kind=kind, exc=type(e).__name__)
            k = None
        else:
            if expected is not None:
                bad("menu-accepted-malformed", f"{label}/{kind}: definition accepted, expected {expected.__name__}",
                    label=label, kind=kind)
        if expected is not None and eng.class_snap() != snap0:
            if k is None:
                bad("menu-reject-side-effect", f"{label}/{kind}: a rejected definition altered a render class",
                    label=label, kind=kind)
            # (a wrongly accepted definition has been reported above) undo, Renderable is shared by everything
            for kk, (a, d, da, dm) in zip(P.cls, saved):
                kk.Args, kk._Data_, kk._ALL_DEFAULT_ARGS, kk._RENDER_DATA_MRO = a, d, da, dm
        return k

    for kind, Meta, Base, AlreadyErr, owned in kinds:
        def body(*names, defaults=True, **more):
            b = {"__annotations__": {n: "int" for n in names}}
            if kind == "args" and defaults:
                b.update({n: 3 for n in names})
            b.update(more)
            return b

        b1 = attempt("no-fields-base", kind, None, lambda: Meta("B1", (Base,), {}))
        b2 = attempt("no-fields-base", kind, None, lambda: Meta("B2", (Base,), {}), second=True)
        if b1 is not None:
            attempt("instantiate-unassociated", kind, T.UnassociatedNamespaceError, lambda: b1())
            attempt("render-cls-of-unassociated", kind, T.UnassociatedNamespaceError, lambda: b1.get_render_cls())
        attempt("fields-without-association", kind, T.RenderArgsDataError, lambda: Meta("X", (Base,), body("a")))
        attempt("not-a-render-class", kind, TypeError, lambda: Meta("X", (Base,), body("a"), render_cls=int))
        for t in M.classes:
            k = P.cls[t]
            has = owned[t] is not None
            if kind == "args":
                attempt("field-without-default", kind, T.RenderArgsError,
                        lambda: Meta("X", (Base,), {"__annotations__": {"a": "int", "b": "int"}, "a": 1},
                                     render_cls=k), has=has)
            attempt("association-without-fields", kind, T.RenderArgsDataError,
                    lambda: Meta("X", (Base,), {}, render_cls=k), has=has)
            if b1 is not None and b2 is not None:
                attempt("two-bases", kind, T.RenderArgsDataError,
                        lambda: Meta("X", (b1, b2), body("a"), render_cls=k), has=has)
            if has:
                attempt("second-association", kind, AlreadyErr,
                        lambda: Meta("X", (Base,), body("q"), render_cls=k))
                N = owned[t]
                attempt("inherit-and-define", kind, T.RenderArgsDataError, lambda: Meta("X", (N,), body("q")))
                sub = attempt("inheriting-subclass", kind, None, lambda: Meta("S", (N,), {}))
                if sub is not None and (sub.get_render_cls() is not k or
                                        tuple(sub.get_fields()) != tuple(N.get_fields())):
                    bad("menu-inherit", f"{kind}: inheriting subclass has {sub.get_fields()!r}", kind=kind)
                for u in M.classes:
                    attempt("re-association", kind, T.RenderArgsDataError,
                            lambda: Meta("X", (N,), {}, render_cls=P.cls[u]), same=(u == t))
                if kind == "args":
                    for thunk, lab in ((lambda: N(zz=1), "ctor"), (lambda: N().zz, "get"),
                                       (lambda: N().update(zz=1), "update")):
                        attempt("unknown-field", kind, T.UnknownArgsFieldError, thunk, via=lab)
            elif t in leaves:
                def with_required():
                    def __init__(self, q):
                        pass
                    return Meta("X", (Base,), body("a", __init__=__init__), render_cls=k)

                attempt("required-ctor-parameter", kind, TypeError, with_required)
        # a well-formed late association on a fresh leaf class (created here, never used before)
        for t in M.classes:
            leaf = type(R.Renderable)("Leaf", (P.cls[t],), {})
            base = b1 if (b1 is not None and t % 2) else Base
            N = attempt("well-formed", kind, None, lambda: Meta("LeafNS", (base,), body("p", "q"), render_cls=leaf),
                        via_base=(base is not Base))
            if N is None:
                continue
            if kind == "args":
                ra = R.RenderArgs(leaf)
                col.count()
                want = sorted(M.omro[t])
                got = sorted(P.idx[x] for x in leaf._ALL_DEFAULT_ARGS if x in P.idx)
                if (leaf.Args is not N or got != want or leaf not in leaf._ALL_DEFAULT_ARGS
                        or ra[leaf].as_dict() != {"p": 3, "q": 3} or N.get_fields() != {"p": 3, "q": 3}):
                    bad("menu-well-formed", f"late leaf below {t}: Args={leaf.Args!r} table={leaf._ALL_DEFAULT_ARGS!r}")
                for x in M.omro[t]:
                    if ra[P.cls[x]] != P.cls[x]._ALL_DEFAULT_ARGS[P.cls[x]]:
                        bad("menu-well-formed", f"late leaf below {t}: default of {x} is {ra[P.cls[x]]!r}")
            else:
                rd = R.RenderData(leaf)
                col.count()
                if leaf._Data_ is not N or type(rd[leaf]) is not N or N.get_fields() != ("p", "q"):
                    bad("menu-well-formed", f"late data leaf below {t}: _Data_={leaf._Data_!r}")
                rd.finalize()


# ---------------------------------------------------------------------------------- programs / tiers
def ops_programs(tier, opts):
    """(spec, depth, full-alphabet) for the operator search."""
    quick = tier == "quick"
    progs = []
    maxn = int(opts.get("maxn", 4))
    for n in range(1, maxn + 1):
        base = labelled_programs(n, [0, 1])
        for pv, lab in base:
            nf = [0] + list(lab[1:])
            owners = [c for c in range(1, n + 1) if nf[c]]
            data = [False] + [not nf[c] for c in range(1, n + 1)]
            variants = [(nf, None)]
            if owners and not (quick and n == 4):
                few = quick or (n == 4 and len(owners) >= 3)      # variant on one owner only
                for two in (owners[:1] if few else owners):
                    nf2 = list(nf)
                    nf2[two] = 2
                    variants.append((nf2, None))
                for s in (owners[-1:] if few else owners):
                    sub = [False] * (n + 1)
                    sub[s] = True
                    variants.append((nf, sub))
            for vi, (nfv, sub) in enumerate(variants):
                for seed in ("eager", "lazy"):
                    spec = Spec(pv, nfv, data, sub, seed)
                    progs.append(spec)
    # programs in which one class has a plain (non-render) mixin before / after its render base
    for n in range(1, min(maxn, 3 if quick else 4) + 1):
        for pv, lab in labelled_programs(n, [0, 1]):
            nf = [0] + list(lab[1:])
            if not any(nf):
                continue
            data = [False] + [not nf[c] for c in range(1, n + 1)]
            for c in range(1, n + 1):
                for m in ((1, 2) if n <= 3 else (1,)):
                    mix = [0] * (n + 1)
                    mix[c] = m
                    for seed in ("eager", "lazy"):
                        progs.append(Spec(pv, nf, data, None, seed, mix))
    # de-duplicate variants that are isomorphic
    from ..c16_model import tree_canon
    seen, out = set(), []
    for s in progs:
        k = (tree_canon(s.parents, [repr((s.nf[c], s.sub[c], s.mix[c])) for c in range(len(s.parents))]), s.seed)
        if k not in seen:
            seen.add(k)
            out.append(s)
    return out


def depth_for(spec, tier, opts):
    if "depth" in opts:
        return int(opts["depth"])
    n = len(spec.parents) - 1
    owners = sum(1 for x in spec.nf if x)
    extra = sum(1 for x in spec.nf if x == 2) + sum(spec.sub)
    if any(spec.mix):
        return 2 if (tier == "quick" or n == 4) else 3
    if tier == "quick":
        return 2 if (n == 4 and owners >= 3) else 3
    return 4 if (owners + extra <= 1 or n <= 2) else 3


def cost_estimate(spec, depth):
    n = len(spec.parents) - 1
    owners = sum(1 for x in spec.nf if x) + sum(spec.sub) + sum(1 for x in spec.nf if x == 2)
    return (owners + 1) ** (depth + 1) * (n + 1) * (2 if spec.seed == "eager" else 1)


def structure_cases(tier):
    cases = []
    for n in range(1, 5):
        for pv, lab in labelled_programs(n, [(a, d) for a in (0, 1, 2) for d in (0, 1)]):
            nf = [0] + [x[0] for x in lab[1:]]
            if sum(1 for x in nf if x == 2) > 1:
                continue
            data = [False] + [bool(x[1]) for x in lab[1:]]
            owns = [bool(x) for x in nf]
            with_menu = data == owns or data[1:] == [not x for x in owns[1:]]
            cases.append(dict(part="structure", spec=Spec(pv, nf, data, None, "lazy").to_json(), menu=with_menu))
    # one class with a plain mixin first / last in its bases (class tables and RenderData only)
    from ..c16_model import tree_canon
    seen = set()
    for n in range(1, 5):
        for pv, lab in labelled_programs(n, [0, 1]):
            nf = [0] + list(lab[1:])
            data = [False] + [not x for x in nf[1:]]
            for c in range(1, n + 1):
                for m in (1, 2):
                    mix = [0] * (n + 1)
                    mix[c] = m
                    k = tree_canon(pv, [repr((nf[i], data[i], mix[i])) for i in range(n + 1)])
                    if k not in seen:
                        seen.add(k)
                        cases.append(dict(part="structure", menu=False,
                                          spec=Spec(pv, nf, data, None, "lazy", mix).to_json()))
    return cases


def _ops_shard(items):
    col = _CTX.new_collector()
    for spec, depth, full in items:
        run_program(col, spec, depth, full)
    return col


def run_program(col, spec, depth, full, incremental=True):
    eng = Engine(col, spec, rewind=True, confirm=True, full=full)
    try:
        try:
            eng.search(depth, incremental=incremental)
        except Tainted:
            col.inc("programs_stopped_after_alteration")
        except Unmodelled:
            col.inc("programs_stopped_unmodelled")
        col.inc("states", eng.nstates)
        col.inc("transitions", eng.ntrans)
        col.inc("programs")
        col.max("pool_size", max((len(k[0]) for k in eng.seen), default=0))
        col.max("states_per_program", eng.nstates)
        col.max("depth", depth)
        col.inc(f"programs_depth_{depth}")
        for k in eng.seen:
            col.add_distinct((spec.key, tuple(sorted(k[0])), tuple(sorted(k[1]))))
        if eng.nstates % 7 == 0:
            col.sample(dict(spec=spec.to_json(), depth=depth, states=eng.nstates, transitions=eng.ntrans))
    finally:
        eng.close()
        del eng
        gc.collect()


def _structure_shard(cases):
    col = _CTX.new_collector()
    for i, case in enumerate(cases):
        try:
            structure_case(col, case)
        except world.HarnessError:
            raise
        except Exception as e:
            col.violation(dict(part="structure", clause="exception", exc=type(e).__name__),
                          f"{type(e).__name__}: {e} | {case}", case)
        if i % 256 == 255:
            gc.collect()
    return col


def _unmerged_shard(items):
    col = _CTX.new_collector()
    for spec, depth in items:
        nv = sum(v[0] for v in col.violations.values())
        st_u, obs_u, n = unmerged(col, spec, depth, full=True)
        col.inc("unmerged_operations", n)
        col.inc("unmerged_programs")
        if sum(v[0] for v in col.violations.values()) != nv:
            # the property is violated in this program (reported): nothing to compare
            col.inc("unmerged_comparisons_skipped")
            continue
        scratch = _CTX.new_collector()
        eng = Engine(scratch, spec, rewind=True, confirm=False, full=True)
        try:
            rec = set()
            try:
                st_m = set(eng.search(depth, incremental=True, record=rec))
            except (Tainted, Unmodelled):
                col.inc("unmerged_comparisons_skipped")
                continue
        finally:
            eng.close()
        if st_u != st_m:
            raise world.HarnessError(
                f"C16: merged and unmerged searches reach different states for {spec}: "
                f"only unmerged {list(st_u - st_m)[:2]}, only merged {list(st_m - st_u)[:2]}")
        if obs_u != rec:
            raise world.HarnessError(
                f"C16: merged and unmerged searches observe different transitions for {spec}: "
                f"only unmerged {list(obs_u - rec)[:2]}, only merged {list(rec - obs_u)[:2]}")
        gc.collect()
    return col


def run(ctx):
    global _CTX
    _CTX = ctx
    opts = getattr(ctx, "opts", {}) or {}
    tier = ctx.tier
    # ---- part S
    scases = explore.rotate(structure_cases(tier))
    if opts.get("part", "S") == "S":
        for col in explore.pmap(_structure_shard, scases):
            ctx.merge(col)
    # ---- part O: operator search
    specs = ops_programs(tier, opts)
    items = [(s, depth_for(s, tier, opts), tier != "quick") for s in explore.rotate(specs)]
    items.sort(key=lambda it: -cost_estimate(it[0], it[1]))
    if opts.get("part", "O") == "O":
        # one program per shard, most expensive first; merged smallest first so that the replay kept for
        # a signature is a small one
        for col in reversed(explore.pmap(_ops_shard, items, chunks_per_proc=max(4, len(items)))):
            ctx.merge(col)
    # ---- soundness of merging / rewinding: unmerged enumeration of short histories on fresh classes
    small = []
    if opts.get("part", "U") == "U":
        for s in specs:
            if any(s.mix):
                continue
            n = len(s.parents) - 1
            weight = sum(1 for x in s.nf if x) + sum(1 for x in s.nf if x == 2) + sum(s.sub)
            if tier == "quick":
                if n == 1 or (n == 2 and weight <= 1):
                    small.append((s, 2))
            elif n == 1:
                small.append((s, 3))
            elif n == 2 or (n == 3 and weight <= 2):
                small.append((s, 2))
        small.sort(key=lambda it: -cost_estimate(it[0], it[1]))
        for col in explore.pmap(_unmerged_shard, small, chunks_per_proc=max(4, len(small))):
            ctx.merge(col)
    n_unm = len(small)
    stopped = ctx.extra.get("programs_stopped_after_alteration", 0)
    if stopped:
        ctx.cap(f"the search of {stopped} program(s) stopped at the first operation that altered an existing "
                "object (reported as a violation)")
    unmod = ctx.extra.get("programs_stopped_unmodelled", 0)
    if unmod:
        ctx.cap(f"the search of {unmod} program(s) stopped: an existing default-valued set became the interned "
                "default of its class, which the canonical state does not model")
    ctx.coverage["states"] = ctx.extra.pop("states", 0)
    ctx.coverage["transitions"] = ctx.extra.pop("transitions", 0)
    ctx.coverage.update(
        programs_ops=len(items), programs_structure=len(scases), programs_unmerged=n_unm,
        bounds=dict(tree_nodes_below_Renderable="1..4, every shape, up to isomorphism",
                    plain_mixin="one class of the tree with a non-render mixin first / last in its bases: structure "
                                "part every tree x args owner subset x position; operator search "
                                + ("<= 3 classes, depth 2" if tier == "quick"
                                   else "<= 3 classes depth 3; 4 classes, mixin first, depth 2"),
                    args_owner_subsets="all",
                    variants="one owner with 2 fields; one owner with a namespace subclass (thorough: every position "
                             "of that owner, except 4-class programs with >= 3 owners: first / last owner)",
                    seeding=["eager", "lazy"],
                    values={"quick": "a in {default, float(default), 1, True} (4-class programs: without the int 1); "
                                     "b in {default tuple (a fresh equal tuple), 1}",
                            "thorough": "a in {default, float(default), 1, True} (+ 2 in programs with <= 2 classes; "
                                        "without the int 1 in 4-class programs with >= 3 owners); "
                                        "b in {default tuple (a fresh equal tuple), 1}"}[tier],
                    constructor="every class x init in {absent, None, every set in the pool} x <=2 namespaces",
                    depth={"quick": "3 (2 for 4-class programs with >= 3 owners; no variants for 4-class programs)",
                           "thorough": "4 for programs with <= 2 classes or <= 1 owner (no variant), else 3"}[tier],
                    unmerged={"quick": "depth 2, programs with 1 class or 2 classes and <= 1 owner",
                              "thorough": "depth 3 for 1-class programs, depth 2 for 2-class programs and for 3-class "
                                          "programs with <= 2 owners/variant extras"}[tier]))
    ctx.rule = ("evaluations = operations executed on the real objects (identical calls - same operand objects, "
                "same interned map - executed once) + namespace class definitions attempted; distinct = distinct "
                "canonical pool states (set of object values + interned classes) per program, plus distinct menu "
                "definitions per class table; the initial state alone is not counted as non-trivial evidence")
    ctx.assumptions += [
        "RenderArgs._interned is the only mutable global state of the render-argument code; the search rewinds "
        "it between branches (validated: every violation is replayed linearly on fresh classes; thorough tier "
        "compares merged and unmerged enumerations of short histories)",
        "field values are hashable immutable ints, as the documentation requires of field values",
        "namespace classes are associated before their render class is subclassed or used (documented requirement)"]


def replay(ctx, case):
    if case.get("part") == "structure":
        structure_case(ctx, case)
    else:
        linear_run(ctx, case)
