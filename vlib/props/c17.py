"""C17 Trimming an image canvas equals cropping what the full canvas shows.

Engine: product grid, every tuple executed.  For every (source image x render style/terminal x
widget size (box and flow) x alignment 3x3 x upscale x transparency setting [x disguise state])
the real `UrwidImage.render(size)` produces a canvas the way urwid does (metaclass-wrapped
render -> CanvasCache -> `widget_info`), and `canv.content(trim_left, trim_top, cols, rows)` is
called for EVERY sub-rectangle of the canvas.

Oracle (terminal model, independent of the trimming arithmetic):
  * every returned row, executed alone on a `cols`-wide one-line VTerm, occupies exactly `cols`
    columns, does not wrap/scroll, leaves the parser in ground state and SGR at default;
  * text images: cell-for-cell the same glyph halves / colours as the crop of the untrimmed canvas
    executed the same way;
  * graphics images: a purely vertical trim returns the corresponding lines of the untrimmed
    canvas verbatim, any horizontal trim shows `cols` blank default cells and no placement;
  * exactly `rows` rows;
  * the untrimmed canvas itself shows what `format(image, "<h><W>.<v><H><alpha><style>")` shows
    (the library's ordinary, non-split render of the same image at the same size), so a wrong
    full canvas cannot make a wrong trim look right;
  * `widget.rows((c,))` == rows of `widget.render((c,))` == rows the canvas yields.
"""
from __future__ import annotations

import gc
import itertools

from .. import explore, vterm, world
from ..harness import h64

ID = "C17"
LEVEL = "exploration"

CELL = (2, 3)          # cell size in pixels announced by the virtual terminal
TERM = (40, 20)

# kind -> (style, identity, style spec)
KINDS = {
    "block@other": ("block", "other", ""),
    "block@kitty": ("block", "kitty", ""),
    "kitty-lines@kitty": ("kitty", "kitty", "+L"),
    "kitty-lines@konsole": ("kitty", "konsole", "+L"),
    "iterm2-lines@iterm2": ("iterm2", "iterm2", "+L"),
    "iterm2-lines@wezterm": ("iterm2", "wezterm", "+L"),
    "iterm2-lines@konsole": ("iterm2", "konsole", "+L"),
}

H_ALIGNS = ("<", "|", ">")
V_ALIGNS = ("^", "-", "_")
ALPHAS = ("", "#", "#.5", "#102030")      # default threshold, no transparency, threshold .5, bg colour


# ---------------------------------------------------------------------------------- images
def source_image(name, style):
    """name: '<cols>x<rows>' cells with all-distinct pixel colours (imgkit.pattern), or
    'runs<cols>x<rows>': every colour spans two columns and transparent runs span several cells
    (so that a cut can land in the middle of a colour run)."""
    from PIL import Image

    from ..imgkit import pattern

    if name.startswith("px"):      # exact pixel size, deliberately off the cell grid
        pw, ph = (int(v) for v in name[2:].split("x"))
        return pattern(pw, ph)
    runs = name.startswith("runs")
    cw, ch = (int(v) for v in name[4 if runs else 0:].split("x"))
    if style == "block":
        pw, ph = cw, ch * 2
    else:
        pw, ph = cw * CELL[0], ch * CELL[1]
    if not runs:
        return pattern(pw, ph)
    im = Image.new("RGBA", (pw, ph))
    px = im.load()
    step = 2 if style == "block" else 2 * CELL[0]
    for y in range(ph):
        for x in range(pw):
            i = (y * pw + x // step) * 3 + 1
            a = (255, 0, 255, 0, 0, 255, 128)[((y // 2 if style == "block" else y // CELL[1]) * 5 + x // step) % 7] \
                if style == "block" else (255, 0, 255, 128)[(y + x // step) % 4]
            px[x, y] = ((37 * i + 11) % 256, (91 * i + 5) % 256, (53 * i + 200) % 256, a)
    return im


def style_cls(L, style):
    return {"block": L.image.BlockImage, "kitty": L.image.KittyImage, "iterm2": L.image.ITerm2Image}[style]


# ---------------------------------------------------------------------------------- execution cache
class RowExec:
    """Result of executing one canvas row alone on a cols-wide one-line terminal."""
    __slots__ = ("ok_shape", "why", "halves", "tags", "placements", "blank")

    def __init__(self, data, cols, ident, text):
        t = vterm.VTerm(cols, 1, ident)
        try:
            s = data.decode("utf-8")
        except UnicodeDecodeError as e:
            self.ok_shape, self.why = False, f"row is not valid UTF-8 ({e.reason})"
            self.halves = self.tags = self.placements = ()
            self.blank = False
            return
        t.feed(s)
        why = []
        if t.errors:
            why.append(("sequences", f"malformed sequences {t.errors[:2]}"))
        if not t.in_ground():
            why.append(("final-parser-state", f"parser left in state {t.parser_state}"))
        if t.wraps or t.scrolls:
            why.append(("wrap", f"wraps={t.wraps} scrolls={t.scrolls} on a {cols}-column line"))
        row = t.grid[0]
        untouched = [c for c in range(cols) if row[c].tag not in ("T", "E", "G")]
        if untouched:
            why.append(("width-short", f"columns {untouched} of {cols} not occupied"))
        if text and not untouched and not (t.wraps or t.scrolls):
            # text rows are made of exactly `cols` width-1 glyphs: the cursor must sit just past the
            # last column (deferred wrap) - anything else means glyphs were over-written
            if t.cursor() != (0, cols - 1) or not t.wrap_pending:
                why.append(("width-cursor", f"cursor {t.cursor()} wrap_pending={t.wrap_pending} after the row, "
                            f"expected just past column {cols - 1}"))
        if not t.sgr_default():
            why.append(("sgr-not-default-at-end", f"SGR state at the end of the row: fg={t.fg} bg={t.bg} "
                        f"attrs={t.attrs} (colours would bleed past the right edge)"))
        self.ok_shape = not why
        self.why = why
        self.halves = tuple(c.halves() for c in row)
        self.tags = tuple(c.tag for c in row)
        self.placements = tuple(sorted((p.col, p.cols, p.rows, p.z, p.proto, p.digest) for p in t.placements))
        self.blank = (all(c.glyph == " " and c.fg is None and c.bg is None and c.attrs == () and c.tag == "T"
                          for c in row) and not t.placements and not t.kitty_chunks and not t.iterm_images)


def row_bytes(row):
    return b"".join(seg[2] for seg in row)


# ---------------------------------------------------------------------------------- region classes
def ref_pads(total, inner, align, axis):
    pad = total - inner
    if align == ("<" if axis == "h" else "^"):
        return 0, pad
    if align == (">" if axis == "h" else "_"):
        return pad, 0
    return pad // 2, pad - pad // 2


def cut_class(cut, pad1, inner, total):
    """Where a cut of *cut* cells from one side lands: none / in the near padding / exactly at the
    image edge / inside the image / exactly at the far image edge / in the far padding."""
    if cut == 0:
        return "none"
    if cut < pad1:
        return "pad"
    if cut == pad1:
        return "edge"
    if cut < pad1 + inner:
        return "image"
    if cut == pad1 + inner:
        return "far-edge"
    return "far-pad"


# ---------------------------------------------------------------------------------- one case
def run_case(col, case, only_rect=None):
    L = world.load_urwid()
    um = L.urwid_mod
    style, ident, style_spec = KINDS[case["kind"]]
    text = style == "block"
    world.setup(ident, *TERM, cell=tuple(case.get("cell", CELL)))
    if case.get("cell_ratio") is not None:
        L.ti.set_cell_ratio(case["cell_ratio"])     # public global setting; reset_world() puts 0.5 back
    L.urwid.CanvasCache.clear()
    img = style_cls(L, style)(source_image(case["img"], style))
    spec = f"{case['h']}.{case['v']}{case['alpha']}{style_spec}"
    widget = um.UrwidImage(img, spec, upscale=case["upscale"])
    dcanv, dwid = case.get("disguise", (0, 0))
    um.UrwidImageCanvas._ti_disguise_state = dcanv
    widget._ti_disguise_state = dwid
    size = tuple(case["size"])
    base_sig = dict(kind=case["kind"], family="text" if text else "graphics",
                    sizing="box" if len(size) == 2 else "flow")
    if case.get("rerender"):
        base_sig["history"] = "image-rendered-again-at-another-size:" + case["rerender"]["via"]
    if case.get("cell_ratio") is not None:
        base_sig["cell_ratio"] = "default" if case["cell_ratio"] == 0.5 else ">0.5" if case["cell_ratio"] > 0.5 else "<0.5"

    def bad(clause, what, rect=None, **extra):
        sig = dict(base_sig, clause=clause, **extra)
        col.violation(sig, what, dict(case, rect=rect))

    pre = case.get("pre")
    if pre:
        # history: the (shared, mutable) image was left with some size before this layout pass - set by hand through
        # the public set_size(height=...), or by an earlier render of the same widget at the same width
        base_sig["history"] = "image-left-with-a-size:" + ("set_size(height)" if "height" in pre else "earlier-render")
        if "height" in pre:
            img.set_size(height=pre["height"])
        if pre.get("render"):
            keep = widget.render(tuple(case["size"]), False)
            widget._invalidate()
    ac = case.get("after_create")
    if ac and pre:
        base_sig["history"] += "+environment-change"
    if ac:
        # history: the widget exists already when the environment changes
        if not pre:
            base_sig["history"] = "environment-changed-after-widget-creation:" + ("cell_ratio" if "cell_ratio" in ac else "cell_size")
        if "cell_ratio" in ac:
            L.ti.set_cell_ratio(ac["cell_ratio"])
        else:       # the terminal is resized by one column and now has another cell size (memos are keyed on the size)
            tty = world.W.tty
            tty.cols += 1
            tty.xpx, tty.ypx = tty.cols * ac["cell"][0], tty.rows * ac["cell"][1]
    col.count()
    if len(size) == 1:
        announced = widget.rows(size)
    canv = widget.render(size, False)
    if not isinstance(canv, um.UrwidImageCanvas):
        bad("canvas-type", f"render() returned {type(canv).__name__}")
        return
    if not canv.widget_info or canv.widget_info[0] is not widget:
        raise world.HarnessError("canvas obtained without widget_info")
    W, H = canv.cols(), canv.rows()
    if W != size[0] or (len(size) == 2 and H != size[1]):
        bad("canvas-size", f"canvas {W}x{H} for widget size {size}")
        return
    iw, ih = canv._ti_image_size
    if tuple(img.rendered_size) != (iw, ih):
        raise world.HarnessError("image size changed under the canvas")
    full_rows = [row_bytes(r) for r in canv.content()]
    if len(size) == 1:
        if not (announced == H == len(full_rows)):
            bad("flow-rows", f"rows(({size[0]},))={announced} but render(({size[0]},)) is {H} rows high and "
                f"yields {len(full_rows)} rows")
    if len(full_rows) != H:
        bad("row-count", f"untrimmed canvas yields {len(full_rows)} rows, rows()={H}", rect=[0, 0, W, H],
            trim="none")
        return

    if case.get("rows_only"):
        # announce/render agreement for extreme aspect ratios; the trims of such canvases add nothing new
        col.inc("flow_rows_cases")
        col.add_distinct(h64(repr((case["kind"], case["img"], W, H, case["upscale"])).encode() + b"".join(full_rows)))
        return

    cache = {}

    def ex(data, cols):
        key = (data, cols)
        r = cache.get(key)
        if r is None:
            r = cache[key] = RowExec(data, cols, ident, text)
            col.inc("rows_executed")
        return r

    pl, pr = ref_pads(W, iw, case["h"], "h")
    pt, pb = ref_pads(H, ih, case["v"], "v")

    # ---- the untrimmed canvas: shape of every row + equals the library's ordinary formatted render
    full = [ex(b, W) for b in full_rows]
    for y, r in enumerate(full):
        for clause, why in (r.why or ()):
            bad(clause, f"untrimmed canvas row {y}: {why}", rect=[0, 0, W, H], trim="none")
    zspec = f"z{widget._ti_z_index}" if style == "kitty" else ""
    ref_out = format(img, f"{case['h']}{W}.{case['v']}{H}{case['alpha']}{style_spec}{zspec}")
    ref = vterm.run(ref_out, W, H, ident)
    if ref.errors or ref.wraps or ref.scrolls:
        raise world.HarnessError(f"reference render does not fit its own box: {ref.errors[:2]} {ref.wraps} {ref.scrolls}")
    if text:
        for y in range(H):
            want = tuple(c.halves() for c in ref.grid[y])
            if full[y].halves != want:
                bad("full-canvas-differs-from-format", f"untrimmed canvas row {y} shows {full[y].halves} but "
                    f"format(image, spec) shows {want}", rect=[0, 0, W, H], trim="none")
                break
    else:
        got = sorted((y,) + p[:3] + p[4:] for y, r in enumerate(full) for p in r.placements)
        want = sorted((p.row, p.col, p.cols, p.rows, p.proto, p.digest) for p in ref.placements)
        if got != want:
            bad("full-canvas-differs-from-format", f"untrimmed canvas places {got} but format(image, spec) "
                f"places {want}", rect=[0, 0, W, H], trim="none")
        exp_img_rows = set(range(pt, pt + ih))
        for y, r in enumerate(full):
            n = len(r.placements)
            if (y in exp_img_rows) != (n == 1) or n > 1:
                bad("full-canvas-line-placement", f"row {y} of the untrimmed canvas carries {n} placements "
                    f"(image rows {sorted(exp_img_rows)})", rect=[0, 0, W, H], trim="none")
                break

    # ---- two-step history: the canvas outlives its render (urwid's canvas cache, parent composite canvases);
    # the same image is rendered again at another size BEFORE the canvas is trimmed.  Everything above (the
    # untrimmed rows, their execution, the reference) was computed before this second render.
    other = None
    if case.get("rerender"):
        rr = case["rerender"]
        if rr["via"] == "same-widget":
            other = widget.render(tuple(rr["size"]), False)
        elif rr["via"] == "second-widget":
            w2 = um.UrwidImage(img, spec, upscale=not case["upscale"])
            other = w2.render(tuple(rr["size"]), False)
        else:   # the application resizes the image by hand
            img.set_size(width=rr["size"][0]) if len(rr["size"]) == 1 else img.set_size(frame_size=tuple(rr["size"]))
        col.count()
        if other is not None and other is canv:
            raise world.HarnessError("second render returned the first canvas")
        again = [row_bytes(r) for r in canv.content()]
        if again != full_rows:
            bad("untrimmed-content-changed-after-rerender", "the untrimmed content of the canvas changed after the "
                f"image was rendered again at {rr['size']}", rect=[0, 0, W, H], trim="none")

    # ---- every sub-rectangle
    nontrivial = 0
    for tl in range(W):
        for cols in range(1, W - tl + 1):
            tr = W - tl - cols
            hcut = (cut_class(tl, pl, iw, W), cut_class(tr, pr, iw, W))
            for tt in range(H):
                for rows in range(1, H - tt + 1):
                    rect = [tl, tt, cols, rows]
                    if only_rect is not None and rect != list(only_rect):
                        continue
                    tb = H - tt - rows
                    col.count()
                    vcut = (cut_class(tt, pt, ih, H), cut_class(tb, pb, ih, H))
                    try:
                        out = [row_bytes(r) for r in canv.content(tl, tt, cols, rows)]
                    except Exception as e:  # noqa: BLE001 - any exception on a valid rectangle is a violation
                        bad("exception", f"content{tuple(rect)} of a {W}x{H} canvas (image {iw}x{ih}) raised "
                            f"{type(e).__name__}: {e}", rect=rect, exc=type(e).__name__, hcut=hcut, vcut=vcut)
                        continue
                    if tl or tr or tt or tb:
                        nontrivial += 1
                        col.add_distinct(h64(repr((case["kind"], W, H, rect)).encode() + b"".join(out)))
                    if len(out) != rows:
                        bad("row-count", f"content{tuple(rect)} of a {W}x{H} canvas (image {iw}x{ih}, pads "
                            f"l{pl} t{pt}) yields {len(out)} rows", rect=rect, vcut=vcut,
                            htrim=bool(tl or tr))
                        continue
                    for i, data in enumerate(out):
                        y = tt + i
                        if not text and not (tl or tr):
                            # vertical trim only: the corresponding lines verbatim
                            if data != full_rows[y]:
                                bad("graphics-vertical-not-verbatim", f"content{tuple(rect)} row {i} differs "
                                    f"from line {y} of the untrimmed canvas", rect=rect, vcut=vcut)
                                break
                            continue
                        r = ex(data, cols)
                        if r.why:
                            for clause, why in r.why:
                                bad(clause, f"content{tuple(rect)} of a {W}x{H} canvas (image {iw}x{ih} at "
                                    f"+{pl}+{pt}) row {i}: {why}; bytes={data[:200]!r}", rect=rect,
                                    hcut=hcut, row_in=cut_class(y, pt, ih, H) if y else "first")
                            break
                        if text:
                            want = full[y].halves[tl:tl + cols]
                            if r.halves != want:
                                j = next(k for k in range(cols) if r.halves[k] != want[k])
                                bad("cells-differ-from-crop", f"content{tuple(rect)} of a {W}x{H} canvas (image "
                                    f"{iw}x{ih} at +{pl}+{pt}) row {i} col {j} shows (upper,lower)={r.halves[j]}, "
                                    f"the untrimmed canvas shows {want[j]} at ({y},{tl + j}); bytes={data[:200]!r}",
                                    rect=rect, hcut=hcut,
                                    first_bad="first-col" if j == 0 else "last-col" if j == cols - 1 else "inner")
                                break
                        elif not r.blank:
                            bad("graphics-horizontal-not-blank", f"content{tuple(rect)} row {i} is not {cols} "
                                f"blank cells: {data[:80]!r}", rect=rect, hcut=hcut)
                            break
    # ---- interleaved iterators: content() is a generator and urwid (shard_body / shard_body_row) keeps several
    # of them open on the SAME canvas when something narrower than the image covers it: the part left of the
    # cover and the part right of it are advanced in lock step.  Each must yield what it yields alone.
    if text and only_rect is None and not case.get("rerender"):
        alone = {}

        def rows_alone(r):
            if r not in alone:
                alone[r] = [row_bytes(x) for x in canv.content(*r)]
            return alone[r]

        for a in range(1, W):
            for b in range(a, W):
                for tt, rows in {(0, H), (min(1, H - 1), max(H - 1 - min(1, H - 1), 1))}:
                    r1, r2 = (0, tt, a, rows), (b, tt, W - b, rows)
                    for first, second in ((r1, r2), (r2, r1)):
                        col.count()
                        col.inc("interleaved_pairs")
                        it1, it2 = canv.content(*first), canv.content(*second)
                        got1, got2 = [], []
                        try:
                            for x, y in zip(it1, it2):
                                got1.append(row_bytes(x))
                                got2.append(row_bytes(y))
                        except Exception as e:  # noqa: BLE001
                            bad("exception-interleaved", f"content{first} and content{second} advanced in lock step "
                                f"raised {type(e).__name__}: {e}", rect=None, exc=type(e).__name__)
                            continue
                        for r, got in ((first, got1), (second, got2)):
                            if got != rows_alone(r):
                                i = next((k for k, (p, q) in enumerate(zip(got, rows_alone(r))) if p != q), len(got))
                                bad("interleaved-iterators-differ", f"content{r} of a {W}x{H} canvas (image {iw}x{ih} "
                                    f"at +{pl}+{pt}) advanced in lock step with content{second if r is first else first}"
                                    f" yields a different row {i} than when iterated alone: "
                                    f"{got[i][:80] if i < len(got) else None!r} vs "
                                    f"{rows_alone(r)[i][:80] if i < len(rows_alone(r)) else None!r}",
                                    rect=None, other_first=r is second)   # replay = the whole canvas
    col.inc("canvases")
    col.inc("proper_trims", nontrivial)
    col.max("trims_per_canvas", nontrivial + 1)
    del canv, widget, other
    return


# ---------------------------------------------------------------------------------- the grid
def build_cases(tier):
    quick = tier == "quick"
    cases = []
    if quick:
        kinds = list(KINDS)
        images = {"block": ["3x2", "4x3", "runs4x3"], "g": ["3x2", "4x3"]}
        box = [(c, r) for c in range(3, 8) for r in range(2, 6)]
        flow = [(c,) for c in range(3, 8)]
        alphas = {"block": ALPHAS, "g": ("", "#")}
    else:
        kinds = list(KINDS)
        images = {"block": ["1x1", "3x2", "4x3", "5x2", "runs4x3", "runs6x2"], "g": ["1x1", "3x2", "4x3"]}
        box = [(c, r) for c in range(1, 11) for r in range(1, 8)]
        flow = [(c,) for c in range(1, 11)]
        alphas = {"block": ALPHAS, "g": ("", "#", "#102030")}
    for kind in kinds:
        style = KINDS[kind][0]
        fam = "block" if style == "block" else "g"
        for img in images[fam]:
            for size in box + flow:
                for h in H_ALIGNS:
                    for v in V_ALIGNS:
                        if len(size) == 1 and v != "^" and (quick or fam == "g"):
                            continue      # a flow canvas has no vertical padding: v_align is inert there
                        for upscale in (False, True):
                            for alpha in alphas[fam]:
                                if fam == "g" and quick and alpha == "#" and (h, v) != ("|", "-"):
                                    continue
                                cases.append(dict(kind=kind, img=img, size=list(size), h=h, v=v,
                                                  upscale=upscale, alpha=alpha))
        if fam == "block":
            # histories: canvas A rendered, the same image rendered again at size B, then A trimmed
            pairs = [((5, 4), (2, 1)), ((5, 4), (8, 6)), ((6, 3), (2,)), ((6, 3), (9,)), ((4,), (7, 5)),
                     ((7, 5), (3,)), ((3, 2), (7, 5)), ((7,), (2, 2))]
            if not quick:
                pairs += [((8, 6), (3, 3)), ((9,), (4, 2)), ((2, 2), (9, 7)), ((10, 3), (5,))]
            for img in (["3x2", "runs4x3"] if quick else ["3x2", "4x3", "runs4x3", "runs6x2"]):
                for a, b in pairs:
                    for via in ("same-widget", "second-widget", "set_size"):
                        for h in H_ALIGNS:
                            for v in V_ALIGNS:
                                if len(a) == 1 and v != "^":
                                    continue
                                for upscale in (False, True):
                                    cases.append(dict(kind=kind, img=img, size=list(a), h=h, v=v, upscale=upscale,
                                                      alpha="", rerender=dict(size=list(b), via=via)))
        # portrait / strongly landscape sources: rows((c,)) must announce what render((c,)) produces for every
        # flow width and both sizing modes (the two duplicated size conditions only disagree off the diagonal)
        for img in ("1x4", "2x6", "3x9", "6x1", "8x2", "1x1"):
            for c in range(1, 11):
                for upscale in (False, True):
                    cases.append(dict(kind=kind, img=img, size=[c], h="|", v="-", upscale=upscale, alpha="",
                                      rows_only=True))
        # pixel sizes that are not multiples of the cell size (the original size in cells is floored, so
        # fitting to exactly that many columns scales the image DOWN), at two cell sizes
        for cell, imgs in (((2, 3), ("px5x9", "px7x13", "px9x4", "px3x10", "px11x7")),
                           ((8, 16), ("px37x90", "px20x50", "px70x33", "px9x17"))):
            for img in imgs:
                for c in range(1, 11):
                    for upscale in (False, True):
                        cases.append(dict(kind=kind, img=img, size=[c], h="|", v="-", upscale=upscale, alpha="",
                                          rows_only=True, cell=list(cell)))
        if fam == "block":
            # tall narrow images (fewer columns than rows): a vertical cut of exactly as many image rows as the
            # image is wide must not be confused with the horizontal geometry - every sub-rectangle
            for img in (["2x4", "1x3"] if quick else ["2x4", "1x3", "3x5", "2x6"]):
                for size in ([(4, 6), (2, 4), (3, 5), (5, 7), (2,), (4,)] if quick else
                             [(4, 6), (2, 4), (3, 5), (5, 7), (6, 8), (3, 7), (2,), (4,), (5,)]):
                    for h in H_ALIGNS:
                        for v in V_ALIGNS:
                            if len(size) == 1 and v != "^":
                                continue
                            for upscale in (False, True):
                                cases.append(dict(kind=kind, img=img, size=list(size), h=h, v=v, upscale=upscale,
                                                  alpha=""))
            # the global cell ratio (term_image.set_cell_ratio): it changes the fitted size of text images (pixel
            # ratio = 2 x cell ratio); a box canvas must still be exactly as high as the box - wide and tall sources
            for ratio in ((1.0, 2.0, 0.25) if quick else (1.0, 2.0, 0.25, 0.75, 3.0)):
                for img in (["8x2", "6x1", "3x2", "2x4"] if quick else ["8x2", "6x1", "5x2", "3x2", "2x4", "1x3"]):
                    for size in [(c, r) for c in range(3, 9) for r in range(1, 5)] + [(4,), (7,)]:
                        for h, v in (("|", "-"), ("<", "_")):
                            for upscale in (False, True):
                                cases.append(dict(kind=kind, img=img, size=list(size), h=h, v=v, upscale=upscale,
                                                  alpha="", cell_ratio=ratio))
        # histories: the environment (cell ratio for text styles, the terminal's cell size for graphics styles)
        # changes AFTER the widget was created; rows() must still announce what render() then produces
        for img in ("3x2", "2x4", "6x1", "1x4"):
            for c in range(1, 11):
                for upscale in (False, True):
                    if fam == "block":
                        for ratio in (1.0, 0.25):
                            cases.append(dict(kind=kind, img=img, size=[c], h="|", v="-", upscale=upscale, alpha="",
                                              rows_only=True, after_create=dict(cell_ratio=ratio)))
                    else:
                        for cell in ((4, 3), (2, 6), (1, 1)):
                            cases.append(dict(kind=kind, img=img, size=[c], h="|", v="-", upscale=upscale, alpha="",
                                              rows_only=True, after_create=dict(cell=list(cell))))
        # histories: the image object already carries a size when the flow widget is laid out - (a) set by hand
        # with set_size(height=h) (its width may coincide with the container width while the height does not),
        # (b) left by an earlier render at the SAME width before the cell ratio / cell size changed
        for img in ("3x2", "2x4", "6x1", "1x4", "4x3"):
            for c in range(1, 11):
                for upscale in (True, False):
                    for hgt in range(1, 7):
                        cases.append(dict(kind=kind, img=img, size=[c], h="|", v="-", upscale=upscale, alpha="",
                                          rows_only=True, pre=dict(height=hgt)))
                    changes = ([dict(cell_ratio=1.0), dict(cell_ratio=0.25)] if fam == "block" else
                               [dict(cell=[4, 3]), dict(cell=[2, 6])])
                    for ch in changes:
                        cases.append(dict(kind=kind, img=img, size=[c], h="|", v="-", upscale=upscale, alpha="",
                                          rows_only=True, pre=dict(render=True), after_create=ch))
        if style == "kitty" or kind == "iterm2-lines@konsole":
            # images that carry a disguise (kitty; iterm2 on konsole): every disguise state
            for dis in ((1, 0), (2, 0), (0, 1), (2, 2)):
                for size in ([(5, 4), (4,)] if quick else [(5, 4), (3, 2), (7, 3), (4,), (7,)]):
                    for h in H_ALIGNS:
                        cases.append(dict(kind=kind, img="3x2", size=list(size), h=h, v="-", upscale=False,
                                          alpha="", disguise=list(dis)))
    return cases


_CTX = None


def _shard(cases):
    col = _CTX.new_collector()
    for n, case in enumerate(cases):
        try:
            run_case(col, case)
        except world.HarnessError:
            raise
        except Exception as e:  # noqa: BLE001
            col.violation(dict(kind=case["kind"], clause="exception-render", exc=type(e).__name__),
                          f"{type(e).__name__}: {e}", dict(case, rect=None))
        if n % 197 == 0:
            col.sample(case)
            gc.collect()
    return col


def run(ctx):
    global _CTX
    _CTX = ctx
    world.load_urwid()
    cases = explore.rotate(build_cases(ctx.tier))
    for col in explore.pmap(_shard, cases):
        ctx.merge(col)
    for c in cases[:2]:
        ctx.sample(c)
    ctx.rule = ("full product of source image x style/terminal x widget size (box, flow) x 3x3 alignment x upscale x "
                "alpha setting (+ every disguise state for kitty/konsole images); per canvas EVERY sub-rectangle "
                "(trim_left, trim_top, cols, rows); evaluations = canvases + content() calls; distinct = distinct "
                "(canvas geometry, rectangle, returned bytes) of proper trims (at least one side cut)")
    ctx.coverage.update(canvases_in_grid=len(cases), kinds=sorted({c["kind"] for c in cases}),
                        images=sorted({c["img"] for c in cases}),
                        widget_sizes=sorted({tuple(c["size"]) for c in cases}),
                        alphas=sorted({c["alpha"] for c in cases}), cell_px=[list(CELL), [8, 16]])
    ctx.assumptions += [
        "vterm (vlib/vterm.py) is the terminal; a canvas row is executed alone on a one-line screen exactly as wide "
        "as the requested rectangle (urwid positions the cursor before every row)",
        "'same colours and glyph halves' is judged on (upper-half colour, lower-half colour) of every cell, so a stale "
        "foreground under a blank cell is not a difference",
        "graphics styles are exercised with the LINES render method (the one the widget documentation prescribes "
        "whenever a canvas may be trimmed vertically)", "PIL",
    ]


def replay(ctx, case):
    case = dict(case)
    rect = case.pop("rect", None)
    run_case(ctx, case, only_rect=rect)
