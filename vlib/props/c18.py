"""C18 The urwid screen never leaves a ghost image behind.

Engine: explicit-state breadth-first search over scene-transition histories, executed on the real
objects: real urwid container widgets (Pile / ListBox / Columns / Overlay / Filler / SolidFill) around
real `UrwidImage` widgets (kitty, iterm2, block), drawn by a real `UrwidImageScreen` whose output
file feeds a persistent terminal model.  A state is the history that reaches it (`Stage` replays it on
fresh objects); states are merged on (scene, per-widget z-index / disguise, class disguise state,
z-index allocator state) - everything the next redraw can depend on, because the canvases alive in
urwid's CanvasCache are exactly those of the last drawn scene.

Oracle (differential - no hand-written expectation): after every redraw the (placements, text cells)
on the persistent terminal must equal those of a FRESH screen object drawing only the final canvas
on a fresh terminal; everything a redraw writes lies between exactly one synchronized-update
begin/end pair and is flushed; after start / stop / clear no placement remains; all live kitty
widgets hold pairwise distinct z-indexes within [-(2**31-1), 2**31-1]; nothing raises.

Part F: fault dimension - for the root scenes and every transition out of them, the k-th write of the
redraw fails once (EAGAIN) for EVERY k; the application survives and redraws / changes the scene.  The
failed redraw must still be bracketed by one begin/end pair; the following redraws are judged in full.

Part Z: the z-index allocator alone - BFS over create / delete+gc orders of widgets of UrwidImage AND of a
subclass of it (one allocator for all), also from states seeded next to the 2**31 limit.
"""
from __future__ import annotations

import gc
import json

from .. import explore, vterm, world
from ..c18_stage import Dead, Stage, Z_MAX, freeze_once, reset_sub, sub_class
from ..harness import h64

ID = "C18"
LEVEL = "model_checking"


# ---------------------------------------------------------------------------------- alphabets
def alphabet(tier, ident):
    quick = tier == "quick"
    ops = [("ov", 1, 0), ("ov", -1, 0), ("ov", 0, 1), ("ov", 0, -1), ("ov", 3, 0), ("ov", 0, 3)]
    if not quick:
        ops += [("ov", -3, 0), ("ov", 0, -3)]
    ops += [("ovt",), ("ovk",), ("scroll", 1), ("scroll", -1)]
    ops += [("layout", name) for name in ("pile", "list", "tlist", "cols", "bcols", "bare", "solid")]
    ops += [("txt", 0), ("txt", 1), ("txt", 2), ("del", 0), ("del", 1), ("del", 2)]
    ops += [("new", k) for k in ("K", "I", "B")]
    ops += [("clear",), ("restart",), ("redraw",), ("tick",)]
    ops += [("cimg", "now"), ("cimg", "later"), ("cimgw", 0, "now")]
    if not quick:
        ops += [("cimgw", 2, "later")]
    return ops


def roots(tier):
    """Root scenes: dict(identity, size, scene, depth)."""
    quick = tier == "quick"
    ov_on = dict(on=True, x=2, y=2, img=False)
    ov_off = dict(on=False, x=2, y=2, img=False)
    ov_img = dict(on=True, x=1, y=1, img=True)
    slots = {"kitty": ["K", "B", "K"], "konsole": ["K", "I", "B"], "other": ["B", "t", "B"],
             "kitty-0.25": ["K", "B", "K"], "other+forced": ["K", "K", "B"]}
    out = []

    def add(ident, size, layout, ov, depth, udepth=0, faults=False, detached=False, **kw):
        out.append(dict(identity=ident, size=list(size), depth=depth, udepth=udepth, faults=faults,
                        detached=detached,
                        scene=dict(layout=layout, slots=kw.pop("slots", slots[ident]), ov=ov, **kw)))

    s = (12, 8)
    if quick:
        add("kitty", s, "pile", ov_on, 3, faults=True)
        add("kitty", s, "list", ov_off, 2, scroll=1, faults=True)
        add("kitty", s, "tlist", ov_off, 2, udepth=2)
        add("kitty", s, "cols", ov_img, 2, faults=True)
        add("kitty", s, "bare", ov_off, 2)
        add("kitty", s, "solid", ov_off, 2)
        add("konsole", s, "pile", ov_on, 3, faults=True)
        add("konsole", s, "list", ov_off, 2, scroll=1)
        add("konsole", s, "tlist", ov_off, 2, slots=["I", "K", "B"], faults=True)
        add("konsole", s, "cols", ov_img, 2)
        add("konsole", s, "bare", ov_off, 2)
        add("other", s, "pile", ov_on, 2, faults=True)
        # the screen has its own streams on a terminal that is not the active one (write_tty goes elsewhere)
        add("kitty", s, "pile", ov_on, 2, detached=True)
        add("konsole", s, "list", ov_off, 1, scroll=1, detached=True)
        add("kitty-0.25", s, "bcols", ov_off, 2)
        add("kitty-0.25", s, "pile", ov_on, 2)
        add("other+forced", s, "cols", ov_off, 2)
        add("other+forced", s, "list", ov_off, 2, scroll=1)
        add("other", s, "list", ov_off, 2, scroll=1)
        return out
    for ident in ("kitty", "konsole"):
        add(ident, s, "pile", ov_on, 4, udepth=3, faults=True)
        add(ident, s, "list", ov_off, 3, scroll=1, udepth=3 if ident == "konsole" else 0)
        add(ident, s, "tlist", ov_off, 3, faults=True)
        add(ident, s, "tlist", ov_off, 3, slots=slots[ident][1:] + slots[ident][:1])
        add(ident, s, "cols", ov_img, 3, faults=True)
        add(ident, s, "bcols", ov_on, 3, slots=slots[ident][::-1], faults=True)
        add(ident, s, "bare", ov_off, 3)
        add(ident, s, "solid", ov_off, 3)
        add(ident, (20, 10), "pile", ov_on, 3)
        add(ident, (20, 10), "list", ov_off, 3, scroll=2, faults=True)
        add(ident, (20, 10), "bcols", ov_img, 3)
    for ident in ("kitty", "konsole"):
        add(ident, s, "pile", ov_on, 3, detached=True)
        add(ident, s, "bcols", ov_off, 2, detached=True)
    for ident in ("kitty-0.25", "other+forced"):
        add(ident, s, "bcols", ov_off, 3, faults=True)
        add(ident, s, "cols", ov_img, 3)
        add(ident, s, "pile", ov_on, 3)
        add(ident, s, "list", ov_off, 3, scroll=1)
    add("other", s, "pile", ov_on, 3, faults=True)
    add("other", s, "list", ov_off, 3, scroll=1)
    add("other", (20, 10), "cols", ov_on, 2)
    return out


# ---------------------------------------------------------------------------------- executing histories
class Reporter:
    def __init__(self, col, cfg):
        self.col, self.cfg = col, cfg
        self.muted = False
        self.history = []
        self.hits = 0

    def __call__(self, sig, what):
        if self.muted:
            return
        self.hits += 1
        self.col.violation(dict(part="S", **sig), what,
                           dict(part="S", cfg=self.cfg, history=[list(op) for op in self.history]))


def execute(col, cfg, history, judge_from=0):
    """Replay *history* on fresh real objects.  Steps before index *judge_from* are replayed silently
    (they were judged when first reached).  Returns (stage | None if dead, reporter)."""
    rep = Reporter(col, cfg)
    rep.muted = judge_from > 0
    stage = None
    try:
        stage = Stage(col, cfg, rep)
        for i, op in enumerate(history):
            rep.muted = i < judge_from
            rep.history = history[:i + 1]
            if tuple(op) not in [tuple(o) for o in stage.enabled_ops([op])]:
                raise world.HarnessError(f"replay: op {op} not enabled after {history[:i]}")
            col.inc("redraws_including_replays")
            stage.apply(tuple(op))
        return stage, rep
    except Dead:
        if rep.muted:
            raise world.HarnessError(f"replay diverged: prefix of {history} died silently")
        return None, rep


def bfs(col, cfg, tier, start_hist, depth, keys):
    """BFS below *start_hist* (already judged by the caller unless empty)."""
    alpha = alphabet(tier, cfg["identity"])
    seen = set()
    frontier = []
    transitions = 0
    if not start_hist:
        stage, rep = execute(col, cfg, [], 0)
        col.count()
        if stage is None:
            return 0
        k = stage.canon()
        ops0 = stage.enabled_ops(alpha)
        stage.close()
        seen.add(k)
        keys.add(k)
        col.add_distinct(k)
        frontier.append(([], ops0))
    else:
        stage, rep = execute(col, cfg, start_hist, len(start_hist) - 1)
        col.count()
        transitions += 1
        if stage is None:
            return transitions
        if rep.hits:
            col.inc("violating_states")
            stage.close()
            return transitions
        k = stage.canon()
        ops0 = stage.enabled_ops(alpha)
        stage.close()
        seen.add(k)
        keys.add(k)
        col.add_distinct(k)
        frontier.append((list(start_hist), ops0))
    while frontier:
        hist, ops = frontier.pop(0)
        if len(hist) >= depth:
            continue
        for op in ops:
            if not start_hist and not hist:
                continue   # first-level successors of the root are separate work items
            nh = hist + [list(op)]
            stage, rep = execute(col, cfg, nh, len(nh) - 1)
            col.count()
            transitions += 1
            col.max("depth", len(nh))
            if stage is None:
                col.inc("dead_ends")
                continue
            if rep.hits:
                # a violating state is reported, not expanded (its successors would repeat the report)
                col.inc("violating_states")
                stage.close()
                continue
            k = stage.canon()
            if k not in seen:
                seen.add(k)
                keys.add(k)
                col.add_distinct(k)
                if len(nh) < depth:
                    frontier.append((nh, stage.enabled_ops(alpha)))
            stage.close()
            if transitions % 50 == 0:
                col.sample(dict(cfg=dict(identity=cfg["identity"], size=cfg["size"], scene=cfg["scene"]),
                                history=nh))
    return transitions


FAULT_K_CAP = 400


def faults(col, cfg, tier, op):
    """Part F: the transition *op* out of the root scene, with the k-th write of its redraw failing once
    (EAGAIN), for EVERY k up to the number of writes of that redraw; the application survives and goes on:
    (a) redraws the identical canvas, then changes the scene; (b) changes the scene straight away.  The
    failed redraw is judged on the bracket clause, the following redraws on everything."""
    n = 0
    for k in range(1, FAULT_K_CAP + 1):
        fop = ["F", k] + list(op)
        stage, rep = execute(col, cfg, [fop, ["redraw"], ["ovt"]], 0)
        fired = True if stage is None else getattr(stage, "faults_fired", 0) > 0
        if stage is not None:
            stage.close()
        if not fired:
            break          # the redraw has fewer than k writes: every write of it has been failed once
        n += 1
        col.count()
        col.inc("fault_executions")
        col.max("fault_k", k)
        col.add_distinct(h64(repr(("F", cfg["identity"], cfg["size"], cfg["scene"], fop))))
        if stage is None or rep.hits:
            continue
        stage, rep = execute(col, cfg, [fop, ["ovt"], ["redraw"]], 1)
        n += 1
        col.count()
        col.inc("fault_executions")
        if stage is not None:
            stage.close()
    else:
        col.notes.add(f"fault position cap {FAULT_K_CAP} reached")
    return n


def unmerged(col, cfg, tier, start_hist, depth, table):
    """Soundness guard for the state merging: enumerate EVERY history below *start_hist* up to
    *depth* without merging and record, per canonical key, what each transition out of it did.
    Two histories with the same key must agree on every transition (checked by the parent)."""
    alpha = alphabet(tier, cfg["identity"])
    n = 0

    def obs_of(stage, rep, before):
        if stage is None:
            return "dead"
        if rep.hits:
            return "violation"
        return stage.canon()

    stack = [list(start_hist)]
    while stack:
        hist = stack.pop()
        scratch = col.__class__()
        stage, rep = execute(scratch, cfg, hist, max(len(hist) - 1, 0))
        if stage is None or rep.hits:
            continue
        key = stage.canon()
        ops = stage.enabled_ops(alpha)
        stage.close()
        for op in ops:
            nh = hist + [list(op)]
            scratch = col.__class__()
            stage, rep = execute(scratch, cfg, nh, len(nh) - 1)
            n += 1
            col.inc("unmerged_transitions")
            o = obs_of(stage, rep, None)
            table.setdefault((cfg["identity"], tuple(cfg["size"]), key), {}).setdefault(tuple(op), {}).setdefault(o, nh)
            if stage is not None:
                stage.close()
                if not rep.hits and len(nh) < depth:
                    stack.append(nh)
    return n


# ---------------------------------------------------------------------------------- part Z: allocator
Z_SEEDS = [1, 3, -3, 2**31 - 2, -(2**31 - 2), 2**31 - 1, -(2**31 - 1), 2**31]
_Z_TTY = None


def z_execute(col, seed, history, judge_last=True):
    """history: list of ["new"] (UrwidImage) / ["new", "sub"] (a subclass of it) / ["del", j].
    Returns canonical key or None (dead)."""
    L = world.load_urwid()
    um = L.urwid_mod
    from ..imgkit import pattern

    freeze_once()
    L.urwid.CanvasCache.clear()
    gc.collect()
    global _Z_TTY
    if _Z_TTY is None or world.W.tty is not _Z_TTY:
        _Z_TTY = world.setup("kitty", 20, 10, cell=(2, 3))
        L.image.KittyImage.is_supported()
    else:   # same terminal: only the allocator / disguise class state is reset
        um.UrwidImage._ti_disguise_state = 0
        um.UrwidImage._ti_free_z_indexes = set()
        um.UrwidImageCanvas._ti_disguise_state = 0
    um.UrwidImage._ti_next_z_index = seed
    reset_sub(um)
    sub = sub_class(um)
    live = []
    case = dict(part="Z", seed=seed, history=history)

    def judge(step, op):
        zs = [w._ti_z_index for w in live]
        for z in zs:
            if not isinstance(z, int) or not -Z_MAX <= z <= Z_MAX:
                col.violation(dict(part="Z", clause="z-range", op=op), f"z-index {z} handed out (seed {seed}, "
                              f"history {history[:step + 1]})", case)
        if len(set(zs)) != len(zs):
            col.violation(dict(part="Z", clause="z-duplicate", op=op),
                          f"live widgets hold z-indexes {zs} (seed {seed}, history {history[:step + 1]})", case)

    for i, op in enumerate(history):
        last = i == len(history) - 1
        if op[0] == "new":
            exhausted = not um.UrwidImage._ti_free_z_indexes and um.UrwidImage._ti_next_z_index >= 2**31
            try:
                wcls = sub if len(op) > 1 and op[1] == "sub" else um.UrwidImage
                w = wcls(L.image.KittyImage(pattern(6, 6)), "+Lz5" if len(live) % 2 == 0 else "+L")
            except um.UrwidImageError as e:
                if not exhausted and (last or not judge_last):
                    col.violation(dict(part="Z", clause="spurious-too-many"),
                                  f"UrwidImageError although z-indexes are free: {e} (seed {seed}, {history})", case)
                return None
            except Exception as e:  # noqa: BLE001
                col.violation(dict(part="Z", clause="exception", exc=type(e).__name__),
                              f"{type(e).__name__}: {e} (seed {seed}, {history})", case)
                return None
            if exhausted and last:
                col.violation(dict(part="Z", clause="no-error-when-exhausted"),
                              f"widget created with z={w._ti_z_index} from an exhausted allocator", case)
            live.append(w)
            if last:
                # the z-index the widget holds is the one its render carries, and a terminal accepts it
                canv = w.render((4, 3))
                t = vterm.VTerm(4, 3, "kitty")
                for r, row in enumerate(canv.content()):
                    t.r, t.c = r, 0
                    t.feed(b"".join(s[2] for s in row).decode())
                zs = {p.z for p in t.placements}
                if t.errors or zs != {w._ti_z_index}:
                    col.violation(dict(part="Z", clause="z-render"),
                                  f"render of a widget holding z={w._ti_z_index} places z={sorted(zs)} "
                                  f"errors={t.errors[:1]}", case)
                del canv
        else:
            w = live.pop(op[1])
            w._invalidate()
            del w
            gc.collect()
        if last or not judge_last:
            judge(i, op[0])
    key = (um.UrwidImage._ti_next_z_index, tuple(sorted(um.UrwidImage._ti_free_z_indexes)),
           sub.__dict__.get("_ti_next_z_index"), tuple(sorted(sub.__dict__.get("_ti_free_z_indexes", ()))),
           tuple((type(w) is sub, w._ti_z_index) for w in live))
    live.clear()
    gc.collect()
    return key


def z_bfs(col, tier, seeds=None):
    depth = 8 if tier == "quick" else 11
    max_live = 4 if tier == "quick" else 5
    states = set()
    transitions = 0
    for seed in (Z_SEEDS if seeds is None else seeds):
        seen = {}
        k0 = z_execute(col, seed, [])
        seen[k0] = []
        frontier = [[]]
        while frontier:
            h = frontier.pop(0)
            if len(h) >= depth:
                continue
            nlive = sum(1 if op[0] == "new" else -1 for op in h)
            ops = ([["new"], ["new", "sub"]] if nlive < max_live else []) + [["del", j] for j in range(nlive)]
            for op in ops:
                nh = h + [op]
                k = z_execute(col, seed, nh)
                col.count()
                transitions += 1
                if k is None:
                    continue
                if k not in seen:
                    seen[k] = nh
                    frontier.append(nh)
        states |= {(seed, k) for k in seen}
    for s in states:
        col.add_distinct(h64(repr(s)))
    col.inc("z_states", len(states))
    col.inc("z_transitions", transitions)
    return len(states), transitions


# ---------------------------------------------------------------------------------- driver
_CTX = None
_TIER = None


def _shard(items):
    col = _CTX.new_collector()
    col.keys = set()
    col.transitions = 0
    col.table = {}
    for item in items:
        if item[0] == "F":
            _, cfg, op = item
            col.transitions += faults(col, cfg, _TIER, op)
            continue
        if item[0] == "U":
            _, cfg, start = item
            unmerged(col, cfg, _TIER, start, cfg["udepth"], col.table)
            continue
        if item[0] == "Z":
            s, t = z_bfs(col, _TIER, [item[1]])
            col.transitions += t
            col.zstates = getattr(col, "zstates", 0) + s
            continue
        _, cfg, start = item
        col.transitions += bfs(col, cfg, _TIER, start, cfg["depth"], col.keys)
    Stage._fresh_cache.clear()
    return col


def run(ctx):
    global _CTX, _TIER
    _CTX, _TIER = ctx, ctx.tier
    world.load_urwid()
    items = [("Z", seed, None) for seed in Z_SEEDS]
    rts = roots(ctx.tier)
    probe = ctx.new_collector()
    for cfg in rts:
        items.append(("S", cfg, []))
        # the enabled first-level ops of every root: one work item each (sub-tree below it)
        try:
            st = Stage(probe, cfg, lambda sig, what: None)
            ops = st.enabled_ops(alphabet(ctx.tier, cfg["identity"]))
            st.close()
        except Dead:
            ops = []
        for op in ops:
            items.append(("S", cfg, [list(op)]))
        if cfg.get("udepth"):
            for op in ops:
                items.append(("U", cfg, [list(op)]))
        if cfg.get("faults"):
            for op in ops:
                items.append(("F", cfg, list(op)))
    items = explore.rotate(items)
    keys = set()
    transitions = 0
    zstates = 0
    table = {}
    for col in explore.pmap(_shard, items, chunks_per_proc=8):
        ctx.merge(col)
        for k, m in col.table.items():
            for op, obs in m.items():
                d = table.setdefault(k, {}).setdefault(op, {})
                for o, h in obs.items():
                    d.setdefault(o, h)
        keys |= col.keys
        transitions += col.transitions
        zstates += getattr(col, "zstates", 0)
    for s in getattr(ctx, "samples", [])[:0]:
        pass
    conflicts = [(k, op, sorted((str(o), h) for o, h in obs.items())) for k, m in table.items()
                 for op, obs in m.items() if len(obs) > 1]
    if conflicts:
        raise world.HarnessError(f"state merging is unsound: {len(conflicts)} (state, transition) pairs with "
                                 f"different outcomes for different histories, e.g. {conflicts[0]}")
    ctx.coverage["merge_guard_states"] = len(table)
    ctx.coverage["states"] = len(keys) + zstates
    ctx.coverage["transitions"] = transitions
    ctx.coverage["traces_validated_against_impl"] = transitions
    ctx.coverage.update(roots=len(rts), root_scenes=[dict(identity=c["identity"], size=c["size"], detached=c.get("detached", False),
                                                          layout=c["scene"]["layout"], depth=c["depth"]) for c in rts],
                        alphabet=[list(o) for o in alphabet(ctx.tier, "konsole")],
                        z_seeds=Z_SEEDS)
    ctx.rule = ("explicit-state BFS over scene-transition histories from every root scene to the stated depth "
                "(every enabled transition of every reached state executed on the real widgets and screen, then a "
                "judged redraw); evaluations = judged transitions (scene part) + allocator transitions (part Z); "
                "distinct = canonical states reached (scene, widget z-indexes and disguise states, allocator state)")
    ctx.assumptions += [
        "vterm (vlib/vterm.py) is the terminal: kitty identity keeps equal (cell, z) placements side by side, "
        "konsole replaces them; `a=d` deletes by z-index / cursor cell / all; CSI 2J/K never remove placements",
        "graphics widgets are only put on terminals that support them (kitty: kitty; konsole: kitty + iterm2; "
        "other: block images only; kitty-0.25: kitty 0.25.0; other+forced: an unrecognised terminal that implements "
        "the kitty protocol, KittyImage.forced_support set, placements behave as on kitty)",
        "after the public clear_images() ops the application draws a NEW top-level canvas around the cached image "
        "canvases (with the identical canvas object urwid's own quick return paints nothing at all)",
        "the screen output file is buffered and delivered to the terminal on flush(); 'cleared on clear()' is "
        "judged once that buffer is flushed",
        "states are merged on (scene, widget z/disguise, class disguise state, allocator state); the canvases "
        "alive in urwid's CanvasCache are those of the last drawn scene, so merged states have equal futures",
        "text cells hidden under a placement are not compared",
        "two devices: the screen's output stream and the active terminal device (write_tty) feed the same terminal "
        "model, except in 'detached' roots where the screen lives on another terminal than the active one (bytes "
        "written to the active terminal do not reach it; now=True ops are not issued there)",
        "faults (part F): one write of a redraw raises BlockingIOError(EAGAIN) and takes no bytes; the bracket clause "
        "is not judged when the refused bytes are the bracket's own BEGIN or END; after a lost write text cells are "
        "not compared until the next full repaint (urwid's own line cache is stale then)",
    ]


def replay(ctx, case):
    world.load_urwid()
    if case.get("part") == "Z":
        z_execute(ctx, case["seed"], case["history"], judge_last=False)
        ctx.count()
        return
    execute(ctx, case["cfg"], case["history"], 0)
    ctx.count()
