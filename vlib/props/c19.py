"""C19 Format specifiers are accepted and interpreted exactly as documented.

Engine: product enumeration, every string executed on the real `_check_format_spec` of BlockImage, KittyImage and
ITerm2Image:
  (a) ALL strings of length <= N over the specifier alphabet (24 characters, see ALPHABET);
  (b) the full product of the field menus and every single-character edit (insert / delete / substitute over
      the alphabet) of product sentences;
  (c) ALL strings "#" + up to 7 characters over a 7-character alphabet (the hex-colour field is 7 characters long
      and out of reach of (a));
  (d) for accepted sentences: `format(image, spec)` against the explicit composition
      `_format_render(render(alpha, **style), h_align, width, v_align, height)` with the *reference* interpretation,
      against what `draw()` with the equivalent explicit parameters writes, and the same specifier given to
      `ImageIterator` and `UrwidImage`; cached ImageIterators (kitty, iterm2) with +style specs: every frame of the
      first loop and of the second loop after a size change == format(twin at that frame, spec).
  (e) history: every accepted sentence that leaves a padding dimension to the terminal (absent or zero width /
      height) is evaluated again in the same process after the terminal was resized and after it was resized back -
      through `_check_format_spec` for all of (a)-(c), through format() == explicit composition for (d) - and must
      denote the padding size for the *current* terminal each time.
Oracle: `ref_parse` below - a hand-written recursive-descent recognizer/interpreter of the documented grammar
(docs/source/guide/formatting.rst + the Format Specification sections of the class docstrings); no regular
expressions, nothing shared with the implementation.

  spec      := [h_align] [width] [ "." [v_align] [height] ] [ "#" [threshold | bgcolor] ] [ "+" style ]
               with at least one of v_align / height after a ".", and a non-empty style after a "+"
  h_align   := "<" | "|" | ">"           width, height := ASCII digit+        v_align := "^" | "-" | "_"
  threshold := "." digit+                bgcolor := "#" | 6 hex digits
  style     := block: (nothing)   kitty: [L|W] [z ["-"] digit+] [m (0|1)] [c digit]   iterm2: [L|W|A] [m (0|1)] [c digit]
               (in that order, at least one field); kitty z-index must lie in (-2**31, 2**31)
  meaning   := absent/0 width -> terminal width; absent height -> terminal height - 2 (at least 1); height 0 ->
               terminal height (a non-positive padding dimension is terminal-relative, see draw()); absent
               alignment = centre / middle; no "#" -> default alpha threshold 40/255; "#" alone -> None.
"""
from __future__ import annotations

import io
import itertools
import os
import sys

from .. import explore, imgkit, world

ID = "C19"
LEVEL = "exploration"

ALPHABET = "<|>.^-_#+0159afFLWAzmcx "
ALPHA_FAMILY = "#.5fF+L"
COLOR_FAMILY = "5fF_G^"              # hex digits and near-misses of the hex class (between 'F' and 'a' in ASCII)
DIGITS = "0123456789"
HEX = "0123456789abcdefABCDEF"
STYLES = ("block", "kitty", "iterm2")
TERM = (12, 6)
CELL = (2, 4)
TERM_B = (9, 8)        # the terminal after a resize (history dimension of the relative padding sizes)
_MASK = (1 << 63) - 1
DEFAULT_ALPHA = 40 / 255
SHADE_ALPHABET = "+st-0159.#<L"     # the exhaustive pass of the harness style "shade" (s, t are its field letters)
STYLE_DEFAULTS = dict(
    shade=dict(shade=0, tint=0),
    block={},
    kitty=dict(method=None, z_index=0, mix=False, compress=4),
    iterm2=dict(method=None, mix=False, compress=4),
)


# ------------------------------------------------------------------------------------------ reference
def _digits(s, i):
    j = i
    n = len(s)
    while j < n and s[j] in DIGITS:
        j += 1
    return j


def ref_base(spec):
    """Parse everything up to the style part.  Returns (fields | None, style_spec | None).
    fields = (h_align, width, v_align, height, alpha); width/height None when absent."""
    n = len(spec)
    i = 0
    h_align = None
    if i < n and spec[i] in "<|>":
        h_align = spec[i]
        i += 1
    j = _digits(spec, i)
    width = int(spec[i:j]) if j > i else None
    i = j
    v_align = height = None
    if i < n and spec[i] == ".":
        i += 1
        if i < n and spec[i] in "^-_":
            v_align = spec[i]
            i += 1
        j = _digits(spec, i)
        if j > i:
            height = int(spec[i:j])
            i = j
        if v_align is None and height is None:
            return None, None            # a "." needs a v_align or a height
    alpha = DEFAULT_ALPHA
    if i < n and spec[i] == "#":
        i += 1
        alpha = None
        if i < n and spec[i] == ".":
            j = _digits(spec, i + 1)
            if j == i + 1:
                return None, None        # "." without digits is no threshold and nothing else may follow "#"
            digs = spec[i + 1:j]
            alpha = int(digs) / 10 ** len(digs)      # correctly rounded decimal fraction
            i = j
        elif i < n and spec[i] == "#":
            alpha = "#"
            i += 1
        else:
            j = i
            while j < n and j - i < 6 and spec[j] in HEX:
                j += 1
            if j - i == 6:
                alpha = "#" + spec[i:j]
                i = j
    style_spec = None
    if i < n and spec[i] == "+":
        style_spec = spec[i + 1:]
        if not style_spec:
            return None, None            # "+" must introduce a style
        i = n
    if i != n:
        return None, None
    return (h_align, width, v_align, height, alpha), style_spec


def ref_style(style, s):
    """Returns ("ok", args) | ("syntax", None) | ("value", None).  args holds only the given fields."""
    if style == "block":
        return ("syntax", None)          # BlockImage defines no style-specific fields
    if style == "shade":                 # harness style:  [ s <digit> ] [ t ["-"] digit+ ],  -1000 < tint < 1000
        n, i, args = len(s), 0, {}
        if i < n and s[i] == "s":
            if i + 1 < n and s[i + 1] in DIGITS:
                args["shade"] = int(s[i + 1])
                i += 2
            else:
                return ("syntax", None)
        if i < n and s[i] == "t":
            j = i + 1
            neg = j < n and s[j] == "-"
            if neg:
                j += 1
            k = _digits(s, j)
            if k == j:
                return ("syntax", None)
            args["tint"] = -int(s[j:k]) if neg else int(s[j:k])
            i = k
        if i != n or not args:
            return ("syntax", None)
        if "tint" in args and not -1000 < args["tint"] < 1000:
            return ("value", None)
        return ("ok", args)
    n = len(s)
    i = 0
    args = {}
    methods = dict(L="lines", W="whole") if style == "kitty" else dict(L="lines", W="whole", A="anim")
    if i < n and s[i] in methods:
        args["method"] = methods[s[i]]
        i += 1
    if style == "kitty" and i < n and s[i] == "z":
        j = i + 1
        neg = j < n and s[j] == "-"
        if neg:
            j += 1
        k = _digits(s, j)
        if k == j:
            return ("syntax", None)
        args["z_index"] = -int(s[j:k]) if neg else int(s[j:k])
        i = k
    if i < n and s[i] == "m":
        if i + 1 < n and s[i + 1] in "01":
            args["mix"] = s[i + 1] == "1"
            i += 2
        else:
            return ("syntax", None)
    if i < n and s[i] == "c":
        if i + 1 < n and s[i + 1] in DIGITS:
            args["compress"] = int(s[i + 1])
            i += 2
        else:
            return ("syntax", None)
    if i != n or not args:
        return ("syntax", None)
    if "z_index" in args and not -(2 ** 31) < args["z_index"] < 2 ** 31:
        return ("value", None)
    return ("ok", args)


def ref_parse(spec, style):
    """("ok", fields, args) | ("base",) | ("syntax",) | ("value",)"""
    fields, style_spec = ref_base(spec)
    if fields is None:
        return ("base",)
    if style_spec is None:
        return ("ok", fields, {})
    st, args = ref_style(style, style_spec)
    if st != "ok":
        return (st,)
    return ("ok", fields, args)


def resolve(fields, term):
    """(h_align, abs width, v_align, abs height, alpha) with the defaults applied."""
    h, w, v, ht, alpha = fields
    cols, rows = term
    aw = w if w else cols
    if ht is None:
        ah = max(rows - 2, 1)
    elif ht == 0:
        ah = rows
    else:
        ah = ht
    return (h or "|", aw, v or "-", ah, alpha)


def norm_alpha(a):
    return a.lower() if isinstance(a, str) else a


# ------------------------------------------------------------------------------------------ implementation side
_SHADE = []


def shade_class(L):
    """A user-defined render style written against the documented subclass hooks (_FORMAT_SPEC with GROUPED
    field patterns, _get_style_format_spec, _check_style_format_spec, _style_args): block + two cosmetic
    parameters, style sub-grammar  [ s <shade> ] [ t [-] <tint> ]."""
    if _SHADE:
        return _SHADE[0]
    import re

    class ShadeImage(L.image.BlockImage):
        _FORMAT_SPEC = (re.compile(r"s(\d)", re.ASCII), re.compile(r"t(-?)(\d+)", re.ASCII))
        _style_args = {
            "shade": (0, (lambda x: isinstance(x, int), "shade must be an integer"),
                      (lambda x: 0 <= x <= 9, "shade must be between 0 and 9")),
            "tint": (0, (lambda x: isinstance(x, int), "tint must be an integer"),
                     (lambda x: -1000 < x < 1000, "tint must be between -999 and 999")),
        }

        @classmethod
        def _check_style_format_spec(cls, spec, original):
            parent, ((shade_m, shade), (tint_m, sign, tint)) = cls._get_style_format_spec(spec, original)
            args = {}
            if parent:
                args.update(super()._check_style_format_spec(parent, original))
            if shade_m:
                args["shade"] = int(shade)
            if tint_m:
                args["tint"] = int(sign + tint)
            return cls._check_style_args(args)

        def _render_image(self, img, alpha, *, frame=False, split_cells=False, shade=0, tint=0):
            return super()._render_image(img, alpha, frame=frame, split_cells=split_cells)

    _SHADE.append(ShadeImage)
    return ShadeImage


def classes(L):
    return dict(block=L.image.BlockImage, kitty=L.image.KittyImage, iterm2=L.image.ITerm2Image,
                shade=shade_class(L))


def class_state(L):
    out = []
    for c in (L.common.BaseImage, L.common.TextImage, L.common.GraphicsImage, L.image.BlockImage,
              L.image.KittyImage, L.image.ITerm2Image):
        out.append(dict(vars(c)))
    out.append((L.ti._cell_ratio, L.utils._queries_enabled, L.utils._query_timeout, L.utils._swap_win_size,
                type(L.image.ITerm2Image)._native_anim_max_bytes))
    return out


def impl_check(L, cls, spec):
    """Returns ("ok", result) | ("ValueError" | "StyleError" | other exception name, message)."""
    try:
        return ("ok", cls._check_format_spec(spec))
    except L.common.StyleError as e:
        return ("StyleError", str(e))
    except ValueError as e:
        return ("ValueError", str(e))
    except world.HarnessError:
        raise
    except Exception as e:  # anything else is never documented
        return (type(e).__name__, str(e))


EXPECT_EXC = dict(base=("ValueError",), syntax=("StyleError",), value=("ValueError", "StyleError"))
WS_CHARS = "\n\t\r"      # control whitespace: never part of a sentence (a space is a symbol of ALPHABET already)


def expected_exc(ref_kind, spec):
    """Documented error classes for a rejected specifier.  With a control-whitespace character the specifier is
    no sentence whichever part it lands in; either documented class is accepted for those."""
    for ch in WS_CHARS:
        if ch in spec:
            return ("ValueError", "StyleError")
    return EXPECT_EXC[ref_kind]


def ws_variants(spec):
    """*spec* with one control-whitespace character as prefix, at every infix position, and as suffix."""
    for ch in WS_CHARS:
        for i in range(len(spec) + 1):
            yield spec[:i] + ch + spec[i:]


def shape_of(spec):
    """Coarse shape of a specifier for violation signatures.  `bare_dot` is False, or - when the part before the
    alpha field ends in a "." that has neither v_align nor height - the class of what follows that dot."""
    bd = _bare_dot(spec)
    if bd:
        return dict(bare_dot=bd)
    base = spec.split("+", 1)[0]
    return dict(bare_dot=False, hash="#" in base, plus="+" in spec)


def _bare_dot(spec):
    head = spec.split("+", 1)[0].split("#", 1)[0]
    if not head.endswith("."):
        return False
    rest = spec[len(head):]
    kind = ""
    if rest.startswith("#"):
        rest = rest[1:]
        if rest.startswith("#"):
            kind, rest = "##", rest[1:]
        elif rest.startswith(".") and _digits(rest, 1) > 1:
            kind, rest = "#threshold", rest[_digits(rest, 1):]
        elif len(rest) >= 6 and all(c in HEX for c in rest[:6]):
            kind, rest = "#color", rest[6:]
        else:
            kind = "#"
    if rest == "":
        return kind or "end"
    if rest.startswith("+") and len(rest) > 1:
        return kind + "+style"
    return "other"


NA_DIGITS = "\u0663\uff12"          # ARABIC-INDIC DIGIT THREE, FULLWIDTH DIGIT TWO: str.isdigit() but not ASCII
NA_ALPHABET = "<.^#+015LWzmc-"       # the structural context of the non-ASCII-digit pass (+ the digit symbols)


def non_ascii_digit(spec):
    """False, or where the first non-ASCII decimal digit of *spec* sits ("base" / "style")."""
    for i, ch in enumerate(spec):
        if ch.isdigit() and not ch.isascii():
            return "style" if "+" in spec[:i] else "base"
    return False


def _sig(spec, **kw):
    na = non_ascii_digit(spec)
    if na:
        kw["non_ascii_digit"] = na
    sh = shape_of(spec)
    if sh["bare_dot"]:
        for k in ("style", "exc", "why"):
            kw.pop(k, None)
    kw.update(sh)
    return kw


def set_term(term):
    """Resize the virtual terminal in place: same process, no reload, no reset."""
    tty = world.W.tty
    tty.cols, tty.rows = term
    tty.xpx, tty.ypx = term[0] * CELL[0], term[1] * CELL[1]      # the cell size stays what it was


def is_relative(fields):
    """Does the sentence leave a padding dimension to the terminal (absent or zero width / height)?"""
    return not fields[1] or not fields[3]


def compare(col, L, style, cls, spec, ref, part, got=None, term=TERM, phase="first"):
    """Judge one (style, spec) evaluated in a *term* terminal: acceptance, error class, interpretation.
    A sentence with a terminal-relative dimension is then evaluated again, in the same process, after the
    terminal was resized (TERM_B) and after it was resized back (TERM): each time it must denote the padding
    size for the CURRENT terminal.  Returns the impl verdict of the first evaluation."""
    if got is None:
        col.count()
        got = impl_check(L, cls, spec)
    case = dict(kind="spec", style=style, spec=spec)
    hist = {} if phase == "first" else dict(history=phase)
    if ref[0] == "ok":
        if got[0] != "ok":
            col.violation(_sig(spec, clause="rejects-documented-sentence", style=style, exc=got[0], **hist),
                          f"{style}: {spec!r} is a sentence of the documented grammar but raised {got[0]}: {got[1]}"
                          + (f" ({phase})" if hist else ""), case)
            return got
        want_f = resolve(ref[1], term)
        r = got[1]
        ok_shape = isinstance(r, tuple) and len(r) == 6 and isinstance(r[5], dict)
        if ok_shape:
            got_f = (r[0] or "|", r[1], r[2] or "-", r[3], norm_alpha(r[4]))
            want_n = want_f[:4] + (norm_alpha(want_f[4]),)
            same_types = type(r[1]) is int and type(r[3]) is int and type(r[4]) is type(want_f[4])
            want_args = dict(STYLE_DEFAULTS[style], **ref[2])
            got_args = dict(STYLE_DEFAULTS[style], **r[5])
        if not ok_shape or got_f != want_n or not same_types:
            col.violation(_sig(spec, clause="interpretation", style=style, field="base", **hist),
                          f"{style}: {spec!r} -> {r!r}, documented meaning {want_f!r} in a {term} terminal"
                          + (f" (terminal sizes so far: {TERM} -> {TERM_B}" +
                             (f" -> {TERM}" if phase == "resized-back" else "") + ", same process)" if hist else ""),
                          case)
        elif got_args != want_args or any(type(got_args[k]) is not type(want_args[k]) for k in want_args):
            col.violation(dict(clause="interpretation", style=style, field="style", **hist),
                          f"{style}: {spec!r} -> style args {r[5]!r}, documented meaning {ref[2]!r}", case)
        if phase == "first":
            col.inc("accepted")
            col.add_distinct(hash((style, want_f, tuple(sorted(ref[2].items())))) & _MASK)
            if is_relative(ref[1]):
                try:
                    for t2, ph in ((TERM_B, "resized"), (TERM, "resized-back")):
                        set_term(t2)
                        col.count()
                        col.inc("resize_evaluations")
                        compare(col, L, style, cls, spec, ref, part, impl_check(L, cls, spec), t2, ph)
                finally:
                    set_term(TERM)
    else:
        if got[0] == "ok":
            col.violation(_sig(spec, clause="accepts-non-sentence", style=style, why=ref[0]),
                          f"{style}: {spec!r} is not a sentence of the documented grammar ({ref[0]} part) but "
                          f"was accepted as {got[1]!r}", case)
        elif got[0] not in expected_exc(ref[0], spec):
            col.violation(_sig(spec, clause="error-class", style=style, why=ref[0], exc=got[0]),
                          f"{style}: {spec!r} ({ref[0]} part invalid) raised {got[0]}: {got[1]}; documented: "
                          f"{' or '.join(EXPECT_EXC[ref[0]])}", case)
    return got


def with_ws(specs, counter, styles=STYLES):
    """*specs*, each sentence (for at least one style) followed by its control-whitespace variants."""
    for spec in specs:
        yield spec
        fields, style_spec = ref_base(spec)
        if fields is not None and (style_spec is None or
                                   any(ref_style(st, style_spec)[0] == "ok" for st in styles)):
            for v in ws_variants(spec):
                counter[0] += 1
                yield v


def check_strings(col, L, specs, part, state_every=20000, ws=True, styles=STYLES):
    """Acceptance / interpretation for an iterable of strings x the three styles; the class state must
    be the same after every batch.  With *ws*, every string whose base part is a sentence is followed by the
    same string with one control-whitespace character (newline, tab, CR) at every position."""
    cl = [(style, classes(L)[style]) for style in styles]
    StyleError = L.common.StyleError
    before = class_state(L)
    n = 0
    if ws:
        nws = [0]
        specs = with_ws(specs, nws, styles)
    for spec in specs:
        fields, style_spec = ref_base(spec)
        for style, cls in cl:
            # one execution of the real code
            try:
                got = ("ok", cls._check_format_spec(spec))
            except StyleError as e:
                got = ("StyleError", e)
            except ValueError as e:
                if fields is None:
                    # fast path: non-sentence (base part), documented ValueError("Invalid format specifier ...")
                    if "Invalid format specifier" not in str(e):
                        col.violation(_sig(spec, clause="error-message", style=style),
                                      f"{style}: {spec!r} (no sentence) raised ValueError({str(e)!r}); documented: "
                                      f"'Invalid format specifier'", dict(kind="spec", style=style, spec=spec))
                    continue
                got = ("ValueError", e)
            except world.HarnessError:
                raise
            except Exception as e:
                got = (type(e).__name__, e)
            if fields is None:
                ref = ("base",)
            elif style_spec is None:
                ref = ("ok", fields, {})
            else:
                st, args = ref_style(style, style_spec)
                ref = ("ok", fields, args) if st == "ok" else (st,)
            compare(col, L, style, cls, spec, ref, part, (got[0], got[1] if got[0] == "ok" else str(got[1])))
        n += 1
        if n % state_every == 0:
            after = class_state(L)
            if after != before:
                col.violation(dict(clause="side-effect", part=part), "class / global state changed by "
                              f"_check_format_spec within the batch ending at {spec!r}",
                              dict(kind="spec", style=None, spec=spec))
                before = after
    col.count(len(cl) * n)
    if ws:
        col.inc("strings_with_control_whitespace", nws[0])
    if class_state(L) != before:
        col.violation(dict(clause="side-effect", part=part), "class / global state changed by _check_format_spec",
                      dict(kind="spec", style=None, spec=""))


# ------------------------------------------------------------------------------------------ (d) format == explicit
IDENT = dict(block="kitty", kitty="kitty", iterm2="wezterm", shade="kitty")
_IMGS = {}


def style_image(L, style):
    """A small fixed-size image with transparent and opaque pixels (alpha settings matter)."""
    cls = classes(L)[style]
    return cls(imgkit.pattern(2, 2), width=2, height=1)


def inst_state(img):
    return dict(vars(img))


def format_case(col, L, style, spec, deep=True):
    """format(image, spec) vs the explicit composition with the reference interpretation, vs draw()."""
    ref = ref_parse(spec, style)
    case = dict(kind="format", style=style, spec=spec)
    out = world.VStdout(None, isatty=False)
    world.setup(IDENT[style], TERM[0], TERM[1], cell=CELL, stdout=out)
    img = style_image(L, style)
    st0, cs0 = inst_state(img), class_state(L)
    col.count()
    try:
        got = ("ok", format(img, spec))
    except L.common.StyleError as e:
        got = ("StyleError", str(e))
    except ValueError as e:
        got = ("ValueError", str(e))
    except world.HarnessError:
        raise
    except Exception as e:
        got = (type(e).__name__, str(e))
    if inst_state(img) != st0 or class_state(L) != cs0:
        col.violation(dict(clause="side-effect", part="format", accepted=got[0] == "ok"),
                      f"{style}: format(image, {spec!r}) changed image or class state", case)
    if ref[0] != "ok":
        if got[0] == "ok":
            col.violation(_sig(spec, clause="accepts-non-sentence", style=style, why=ref[0], via="format"),
                          f"{style}: format(image, {spec!r}) succeeded for a non-sentence", case)
        elif got[0] not in expected_exc(ref[0], spec):
            col.violation(_sig(spec, clause="error-class", style=style, why=ref[0], exc=got[0], via="format"),
                          f"{style}: format(image, {spec!r}) raised {got[0]}: {got[1]}", case)
        if out.getvalue():
            col.violation(dict(clause="side-effect", part="format-output"), f"rejected {spec!r} wrote output", case)
        return
    if got[0] != "ok":
        col.violation(_sig(spec, clause="rejects-documented-sentence", style=style, exc=got[0], via="format"), f"{style}: format(image, {spec!r}) raised {got[0]}: {got[1]}", case)
        return
    h, w, v, ht, alpha = resolve(ref[1], TERM)
    explicit = img._format_render(img._renderer(img._render_image, alpha, **ref[2]), h, w, v, ht)
    if got[1] != explicit:
        col.violation(dict(clause="format-equals-explicit", style=style),
                      f"{style}: format(image, {spec!r}) differs from _format_render(render(alpha={alpha!r}, "
                      f"**{ref[2]!r}), {h!r}, {w}, {v!r}, {ht})", case)
    col.inc("format_equalities")
    if is_relative(ref[1]):
        # history: the same specifier after a resize and after resizing back, same process, same image
        try:
            for t2, ph in ((TERM_B, "resized"), (TERM, "resized-back")):
                set_term(t2)
                col.count()
                col.inc("format_resize_equalities")
                h2, w2, v2, ht2, _ = resolve(ref[1], t2)
                got2 = format(img, spec)
                explicit2 = img._format_render(img._renderer(img._render_image, alpha, **ref[2]), h2, w2, v2, ht2)
                if got2 != explicit2:
                    col.violation(dict(clause="format-equals-explicit", style=style, history=ph),
                                  f"{style}: terminal {TERM} -> {TERM_B}" + (f" -> {TERM}" if ph == "resized-back" else "")
                                  + f": format(image, {spec!r}) differs from the explicit composition with padding "
                                  f"{w2}x{ht2} for the current {t2} terminal"
                                  + (" (it equals the one for the first terminal)" if got2 == explicit else ""), case)
        finally:
            set_term(TERM)
    if not deep:
        return
    # draw() with the equivalent explicit parameters (raw fields; draw() resolves them itself)
    rh, rw, rv, rht, ralpha = ref[1]
    if (rw or 0) <= TERM[0]:
        del out.data[:]
        try:
            img.draw(rh, rw or 0, rv, -2 if rht is None else rht, ralpha, **ref[2])
            drawn = out.getvalue()
        except world.HarnessError:
            raise
        except Exception as e:
            col.violation(dict(clause="draw-equivalent", style=style, exc=type(e).__name__),
                          f"{style}: draw() with the parameters of {spec!r} raised {type(e).__name__}: {e}", case)
            return
        if drawn not in (got[1] + "\x1b[m\n", got[1] + "\x1b[0m\n"):
            col.violation(dict(clause="draw-equivalent", style=style),
                          f"{style}: draw({rh!r}, {rw or 0}, {rv!r}, {-2 if rht is None else rht}, {ralpha!r}, "
                          f"**{ref[2]!r}) wrote something else than format(image, {spec!r}) + SGR reset + newline",
                          case)
        col.inc("draw_equalities")


def other_entry_points(col, L, spec):
    """The same specifier through ImageIterator (BlockImage, animated) and UrwidImage."""
    style = "block"
    ref = ref_parse(spec, style)
    case = dict(kind="entry", spec=spec)
    world.setup("kitty", TERM[0], TERM[1], cell=CELL)
    from PIL import Image

    pil = Image.open(_GIF)
    try:
        img = L.image.BlockImage(pil, width=2, height=1)
        col.count()
        try:
            it = L.common.ImageIterator(img, 1, spec)
            res = ("ok", next(it))
            it.close()
        except L.common.StyleError as e:
            res = ("StyleError", str(e))
        except ValueError as e:
            res = ("ValueError", str(e))
        if (res[0] == "ok") != (ref[0] == "ok"):
            col.violation(_sig(spec, clause="entry-point-acceptance", via="ImageIterator"),
                          f"ImageIterator(image, 1, {spec!r}) -> {res[0]} but the reference says {ref[0]}", case)
        elif ref[0] == "ok" and res[1] != format(img, spec):
            col.violation(dict(clause="entry-point-format", via="ImageIterator"),
                          f"first frame of ImageIterator(image, 1, {spec!r}) != format(image, {spec!r})", case)
        elif ref[0] != "ok" and res[0] not in expected_exc(ref[0], spec):
            col.violation(_sig(spec, clause="error-class", via="ImageIterator", exc=res[0], style=style, why=ref[0]),
                          f"ImageIterator(image, 1, {spec!r}) raised {res[0]}", case)
        col.count()
        try:
            w = L.urwid_mod.UrwidImage(img, spec)
            res = ("ok", (w._ti_h_align or "|", w._ti_v_align or "-", norm_alpha(w._ti_alpha)))
        except L.common.StyleError as e:
            res = ("StyleError", str(e))
        except ValueError as e:
            res = ("ValueError", str(e))
        if (res[0] == "ok") != (ref[0] == "ok"):
            col.violation(_sig(spec, clause="entry-point-acceptance", via="UrwidImage"),
                          f"UrwidImage(image, {spec!r}) -> {res[0]} but the reference says {ref[0]}", case)
        elif ref[0] == "ok":
            h, _, v, _, alpha = resolve(ref[1], TERM)
            if res[1] != (h, v, norm_alpha(alpha)):
                col.violation(dict(clause="entry-point-format", via="UrwidImage"),
                              f"UrwidImage(image, {spec!r}) stored {res[1]}, documented {(h, v, alpha)}", case)
    finally:
        pil.close()


ITER_SPECS = dict(
    kitty=["+Wz7m1c0", "+L", "+Wm1", "+W", "+z5", "+Lz-3c9", "<5.^3#+Wz1", "##+Lm1"],
    iterm2=["+Wm1c0", "+L", "+Wm1", "+W", "+Lc9", "+m1", ">4.2#+Wc0", "##+Lm1"],
)


def iterator_style_case(col, L, style, spec):
    """A cached ImageIterator with a style part in its format spec: every frame it yields - in the first loop and,
    after the image size changed (all cached frames stale), in the second loop - equals format(twin, spec) of a
    twin image seeked to that frame."""
    from PIL import Image

    case = dict(kind="iterator", style=style, spec=spec)
    world.setup(IDENT[style], TERM[0], TERM[1], cell=CELL)
    cls = classes(L)[style]
    p1, p2 = Image.open(_GIF), Image.open(_GIF)
    try:
        img = cls(p1, width=2, height=1)
        twin = cls(p2, width=2, height=1)
        it = L.common.ImageIterator(img, 2, spec, True)
        try:
            for loop, size in ((1, None), (2, (3, 2))):
                if size:
                    img.set_size(*size)
                    twin.set_size(*size)
                for k in range(2):
                    frame = next(it)
                    twin.seek(k)
                    want = format(twin, spec)
                    col.count()
                    col.inc("iterator_frames")
                    if frame != want:
                        col.violation(dict(clause="entry-point-format", via="ImageIterator", style=style,
                                           cached_loop=loop, resized=bool(size)),
                                      f"{style}: frame {k} of loop {loop} of a cached ImageIterator(image, 2, {spec!r})"
                                      + (f" after the image size changed to {size}" if size else "") +
                                      f" differs from format(image at frame {k}, {spec!r}): {frame[:70]!r}... vs "
                                      f"{want[:70]!r}...", case)
        finally:
            it.close()
    finally:
        p1.close()
        p2.close()


_STATE_FILES = {}


def state_file(tag):
    key = (os.getpid(), tag)
    p = _STATE_FILES.get(key)
    if p is None:
        p = _STATE_FILES[key] = imgkit.png(2, 2, path=os.path.join(imgkit.tmpdir(), f"c19-{key[0]}-{tag}.png"))
    return p


def image_state_cases(col, L, style, specs):
    """Rejected specifiers through format() on an image that is live (file-sourced), finalized, or whose source
    file has vanished: whether a specifier is a sentence does not depend on the image - the documented error
    class wins and the source is not opened."""
    import PIL.Image

    world.setup(IDENT[style], TERM[0], TERM[1], cell=CELL)
    cls = classes(L)[style]
    images = dict(live=cls.from_file(state_file("live"), width=2, height=1),
                  closed=cls.from_file(state_file("live"), width=2, height=1),
                  missing=cls.from_file(state_file("gone"), width=2, height=1))
    images["closed"].close()
    gone = state_file("gone")
    opens = []
    real_open = PIL.Image.open

    def counting_open(*a, **k):
        opens.append(a[:1])
        return real_open(*a, **k)

    os.rename(gone, gone + ".away")
    PIL.Image.open = counting_open
    try:
        for spec in specs:
            ref = ref_parse(spec, style)
            if ref[0] == "ok":
                continue
            allowed = expected_exc(ref[0], spec)
            for state, img in images.items():
                case = dict(kind="image-state", style=style, spec=spec, state=state)
                del opens[:]
                col.count()
                col.inc("image_state_cases")
                try:
                    format(img, spec)
                    got = "ok"
                except world.HarnessError:
                    raise
                except Exception as e:
                    got = "StyleError" if isinstance(e, L.common.StyleError) else type(e).__name__
                    if isinstance(e, ValueError) and got not in ("StyleError",):
                        got = "ValueError" if type(e) is ValueError else got
                if got not in allowed:
                    col.violation(_sig(spec, clause="error-class", style=style, why=ref[0], exc=got, via="format",
                                       image_state=state),
                                  f"{style}: format(<{state} image>, {spec!r}) -> {got}; the specifier is not a "
                                  f"sentence ({ref[0]} part), documented: {' or '.join(allowed)}", case)
                elif opens:
                    col.violation(dict(clause="side-effect", part="format-opens-source", image_state=state),
                                  f"{style}: format(<{state} image>, {spec!r}) was rejected with {got} but opened "
                                  f"the source {len(opens)} time(s)", case)
    finally:
        PIL.Image.open = real_open
        os.rename(gone + ".away", gone)


def file_alpha_case(col, L, spec):
    """iterm2, WHOLE, an RGBA PNG *file* source small enough to be sent as is (read_from_file on): what the
    specifier says about transparency is what the terminal receives - with `#` (alpha ignored) or a bgcolor
    (transparent pixels overlaid on a colour) no transmitted pixel is transparent."""
    import io as _io

    from PIL import Image

    from .. import vterm

    style = "iterm2"
    case = dict(kind="file-alpha", spec=spec)
    ref = ref_parse(spec, style)
    if ref[0] != "ok":
        raise world.HarnessError(f"file_alpha_case needs a sentence, got {spec!r}")
    world.setup(IDENT[style], TERM[0], TERM[1], cell=CELL)
    cls = classes(L)[style]
    img = cls.from_file(state_file("rgba"), width=2, height=1)
    col.count()
    col.inc("file_alpha_cases")
    out = format(img, spec)
    t = vterm.run(out, TERM[0] + 2, TERM[1] + 2, IDENT[style])
    alpha = ref[1][4]
    if not t.iterm_images:
        col.violation(dict(clause="file-alpha", what="no-image"), f"iterm2: format(file image, {spec!r}) transmits "
                      f"no image", case)
        return
    for rec in t.iterm_images:
        raw = rec.get("raw")
        with Image.open(_io.BytesIO(raw)) as im:
            amin = min(im.convert("RGBA").getdata(3))
        if (alpha is None or isinstance(alpha, str)) and amin < 255:
            col.violation(dict(clause="interpretation", style=style, field="alpha", via="decoded-payload",
                               source="rgba-file"),
                          f"iterm2: format(RGBA file image, {spec!r}): the specifier "
                          + ("disables transparency" if alpha is None else f"asks for the background {alpha!r}") +
                          f" but the transmitted image still has transparent pixels (min alpha {amin})", case)


def urwid_first_case(col, L, style, spec):
    """Entry-point ordering within one execution: UrwidImage(image, spec) first, then format(image, spec), then
    ImageIterator(image, 1, spec) - the same specifier string each time.  What the widget does with its own copy
    of the parsed values must not reach the later uses: each still denotes exactly the documented arguments."""
    from PIL import Image

    case = dict(kind="urwid-first", style=style, spec=spec)
    world.setup(IDENT[style], TERM[0], TERM[1], cell=CELL)
    cls = classes(L)[style]
    ref = ref_parse(spec, style)
    if ref[0] != "ok":
        raise world.HarnessError(f"urwid_first_case needs a sentence, got {spec!r}")
    pil = Image.open(_GIF)
    try:
        img = cls(pil, width=2, height=1)
        h, w, v, ht, alpha = resolve(ref[1], TERM)
        explicit = img._format_render(img._renderer(img._render_image, alpha, **ref[2]), h, w, v, ht)
        widget = L.urwid_mod.UrwidImage(img, spec)
        col.count(3)
        col.inc("urwid_first_cases")
        compare(col, L, style, cls, spec, ref, "urwid-first", impl_check(L, cls, spec))
        got = format(img, spec)
        if got != explicit:
            col.violation(dict(clause="format-equals-explicit", style=style, after="UrwidImage"),
                          f"{style}: after UrwidImage(image, {spec!r}), format(image, {spec!r}) differs from the "
                          f"explicit composition with the documented arguments {ref[2]!r}: {got[:80]!r}... vs "
                          f"{explicit[:80]!r}...", case)
        it = L.common.ImageIterator(img, 1, spec)
        try:
            frame = next(it)
        finally:
            it.close()
        img.seek(0)
        if frame != explicit:
            col.violation(dict(clause="entry-point-format", via="ImageIterator", style=style, after="UrwidImage"),
                          f"{style}: after UrwidImage(image, {spec!r}), the first frame of ImageIterator(image, 1, "
                          f"{spec!r}) differs from the explicit composition with the documented arguments", case)
        del widget
    finally:
        pil.close()


# ------------------------------------------------------------------------------------------ spaces
H_MENU = ["", "<", "|", ">"]
W_MENU = ["", "0", "1", "10", "007"]
V_MENU = ["", ".", ".^", ".5", ".-0", ".^12"]
A_MENU = ["", "#", "##", "#.5", "#.", "#ffffff", "#FFFFF", "#1.5", "#.5.5"]
S_MENU = ["", "+", "+L", "+W", "+A", "+z1", "+z-5", "+m1", "+c9", "+Lz0m1c4", "+c4L", "+x",
          "+z2147483647", "+z2147483648", "+z-2147483647", "+z-2147483648", "+Wm0c0", "+Am1",
          # long digit strings: leading zeros are digits like any other, the range is judged on the value
          "+z00000000005", "+z-000000000007", "+z99999999999", "+z-999999999999", "+Lz000000000000m1"]
H_EDIT = ["", "<"]
W_EDIT = ["", "10"]
V_EDIT = ["", ".", ".^12"]
A_EDIT = ["", "#", "##", "#.5", "#ffffff"]
S_EDIT = ["", "+L", "+Lz0m1c4", "+z-5", "+x"]


def menu_product(menus):
    return ["".join(p) for p in itertools.product(*menus)]


# inserted / substituted characters of the single-edit pass: the alphabet plus the metacharacters of str.format and
# %-formatting (a rejected specifier is quoted in the error message - building it must not interpret the text)
EDIT_CHARS = ALPHABET + "{}%"


def single_edits(s):
    out = set()
    n = len(s)
    for i in range(n + 1):
        for ch in EDIT_CHARS:
            out.add(s[:i] + ch + s[i:])
    for i in range(n):
        out.add(s[:i] + s[i + 1:])
        for ch in EDIT_CHARS:
            if ch != s[i]:
                out.add(s[:i] + ch + s[i + 1:])
    return out


def gen_non_ascii(prefix, maxlen, symbols):
    """All strings over NA_ALPHABET + *symbols* starting with *prefix*, of length <= maxlen, that contain at
    least one of the non-ASCII digit *symbols* (the others belong to part (a))."""
    for s in gen_prefix(prefix, maxlen, NA_ALPHABET + symbols):
        for ch in symbols:
            if ch in s:
                yield s
                break


def digit_substitutions(sentences, symbols):
    """Every sentence with one of its ASCII digits replaced by a non-ASCII digit (each position, each symbol)."""
    out = set()
    for s in sentences:
        for i, ch in enumerate(s):
            if ch in DIGITS:
                for sym in symbols:
                    out.add(s[:i] + sym + s[i + 1:])
    return sorted(out)


def gen_prefix(prefix, maxlen, alphabet=ALPHABET):
    """All strings starting with *prefix* of length len(prefix)..maxlen."""
    yield prefix
    for k in range(1, maxlen - len(prefix) + 1):
        for t in itertools.product(alphabet, repeat=k):
            yield prefix + "".join(t)


_CTX = None
_OPTS = {}
_GIF = None


def _shard(items):
    L = world.load_urwid()
    col = _CTX.new_collector()
    world.setup("kitty", TERM[0], TERM[1], cell=CELL)
    for kind, arg in items:
        if kind == "prefix":
            prefix, maxlen = arg
            check_strings(col, L, gen_prefix(prefix, maxlen), "all-strings")
            col.inc("strings_all", sum(len(ALPHABET) ** k for k in range(0, maxlen - len(prefix) + 1)))
        elif kind == "short":
            specs = [""] + list(ALPHABET)
            check_strings(col, L, specs, "all-strings")
            col.inc("strings_all", len(specs))
        elif kind == "nonascii":
            prefix, maxlen, symbols = arg
            n0 = col.evaluations
            check_strings(col, L, gen_non_ascii(prefix, maxlen, symbols), "non-ascii-digit")
            col.inc("strings_non_ascii_digit", (col.evaluations - n0) // 3)
        elif kind == "shade":
            prefix, maxlen = arg
            n0 = col.evaluations
            check_strings(col, L, gen_prefix(prefix, maxlen, SHADE_ALPHABET), "shade-style", styles=("shade",))
            col.inc("strings_shade_style", col.evaluations - n0)
        elif kind == "color":
            prefix, maxlen = arg
            n0 = col.evaluations
            check_strings(col, L, gen_prefix(prefix, maxlen, COLOR_FAMILY), "color-family")
            col.inc("strings_color_family", (col.evaluations - n0) // 3)
        elif kind == "alpha":
            prefix, maxlen = arg
            check_strings(col, L, gen_prefix(prefix, maxlen, ALPHA_FAMILY), "alpha-family")
            col.inc("strings_alpha_family", sum(len(ALPHA_FAMILY) ** k for k in range(0, maxlen - len(prefix) + 1)))
        elif kind == "list":
            part, specs = arg
            check_strings(col, L, specs, part)
            col.inc("strings_" + part, len(specs))
            world.setup("kitty", TERM[0], TERM[1], cell=CELL)
        elif kind == "edits":
            specs = set()
            for base in arg:
                specs |= single_edits(base)
            check_strings(col, L, sorted(specs), "single-edits")
            col.inc("strings_single-edits", len(specs))
        elif kind == "format":
            style, specs, deep = arg
            for spec in specs:
                try:
                    format_case(col, L, style, spec, deep)
                except world.HarnessError:
                    raise
                except Exception as e:
                    col.violation(dict(clause="exception", style=style, exc=type(e).__name__, via="format"),
                                  f"{style}: {spec!r}: {type(e).__name__}: {e}", dict(kind="format", style=style, spec=spec))
            world.uninstall()
            world.setup("kitty", TERM[0], TERM[1], cell=CELL)
        elif kind == "file-alpha":
            for spec in arg:
                try:
                    file_alpha_case(col, L, spec)
                except world.HarnessError:
                    raise
                except Exception as e:
                    col.violation(dict(clause="exception", exc=type(e).__name__, via="file-alpha"),
                                  f"{spec!r}: {type(e).__name__}: {e}", dict(kind="file-alpha", spec=spec))
            world.setup("kitty", TERM[0], TERM[1], cell=CELL)
        elif kind == "image-state":
            style, specs = arg
            try:
                image_state_cases(col, L, style, specs)
            except world.HarnessError:
                raise
            except Exception as e:
                col.violation(dict(clause="exception", exc=type(e).__name__, via="image-state", style=style),
                              f"{style}: {type(e).__name__}: {e}", dict(kind="image-state", style=style, spec=specs[0],
                                                                         state="live"))
            world.setup("kitty", TERM[0], TERM[1], cell=CELL)
        elif kind == "iterator":
            style, specs = arg
            for spec in specs:
                try:
                    urwid_first_case(col, L, style, spec)
                    iterator_style_case(col, L, style, spec)
                except world.HarnessError:
                    raise
                except Exception as e:
                    col.violation(dict(clause="exception", exc=type(e).__name__, via="iterator", style=style),
                                  f"{style}: {spec!r}: {type(e).__name__}: {e}",
                                  dict(kind="iterator", style=style, spec=spec))
            world.setup("kitty", TERM[0], TERM[1], cell=CELL)
        elif kind == "entry":
            for spec in arg:
                try:
                    other_entry_points(col, L, spec)
                except world.HarnessError:
                    raise
                except Exception as e:
                    col.violation(dict(clause="exception", exc=type(e).__name__, via="entry"),
                                  f"{spec!r}: {type(e).__name__}: {e}", dict(kind="entry", spec=spec))
            world.setup("kitty", TERM[0], TERM[1], cell=CELL)
    return col


def accepted_strings(maxlen):
    """Sentences (for at least one style) among all strings of length <= maxlen, found with the reference
    only - used to choose what to *render*; acceptance itself is judged on every string in part (a)."""
    out = []
    for k in range(0, maxlen + 1):
        for t in itertools.product(ALPHABET, repeat=k):
            s = "".join(t)
            fields, style_spec = ref_base(s)
            if fields is None:
                continue
            out.append(s)
    return out


def chunks(seq, n):
    seq = list(seq)
    return [seq[i:i + n] for i in range(0, len(seq), n)]


def run(ctx):
    global _CTX, _GIF
    _CTX = ctx
    quick = ctx.tier == "quick"
    opts = getattr(ctx, "opts", {}) or {}
    maxlen = int(opts.get("maxlen", 5 if quick else 6))
    alpha_len = int(opts.get("alphalen", 8 if quick else 9))
    fmt_len = int(opts.get("fmtlen", 3 if quick else 4))
    world.load_urwid()
    _GIF = imgkit.gif(2, 2, 2)
    items = [("short", None)]
    plen = 2 if maxlen <= 5 else 3
    for t in itertools.product(ALPHABET, repeat=plen):
        items.append(("prefix", ("".join(t), maxlen)))
    for k in range(2, plen):
        items.append(("list", ("all-strings-short", ["".join(t) for t in itertools.product(ALPHABET, repeat=k)])))
    for t in itertools.product(ALPHA_FAMILY, repeat=2):
        items.append(("alpha", ("#" + "".join(t), alpha_len)))
    items.append(("list", ("alpha-family-short", ["#"] + ["#" + c for c in ALPHA_FAMILY])))
    for t in itertools.product(COLOR_FAMILY, repeat=2):            # "#" + 2..7 characters of the colour family
        items.append(("color", ("#" + "".join(t), 8)))
    items.append(("list", ("color-family-short", ["#" + c for c in COLOR_FAMILY])))
    product = menu_product([H_MENU, W_MENU, V_MENU, A_MENU, S_MENU])
    for c in chunks(product, 2000):
        items.append(("list", ("menu-product", c)))
    # a user-defined style with grouped field patterns (documented subclass hooks), its own exhaustive pass
    shade_len = int(opts.get("shadelen", 5 if quick else 6))
    for t in itertools.product(SHADE_ALPHABET, repeat=2):
        items.append(("shade", ("".join(t), shade_len)))
    items.append(("shade", ("", 1)))
    items.append(("format", ("shade", ["+s3", "+t-12", "+s3t7", "<5.2#+s1", "##+t0", "+s0"], True)))
    # non-ASCII decimal digits: never part of a sentence, wherever a digit may stand
    na_symbols = NA_DIGITS[:1] if quick else NA_DIGITS
    na_len = int(opts.get("nalen", 5 if quick else 6))
    na_alpha = NA_ALPHABET + na_symbols
    for t in itertools.product(na_alpha, repeat=2):
        items.append(("nonascii", ("".join(t), na_len, na_symbols)))
    items.append(("list", ("non-ascii-digit-short", list(na_symbols))))
    for c in chunks(digit_substitutions(product, na_symbols), 4000):
        items.append(("list", ("non-ascii-digit-menu", c)))
    edit_base = menu_product([H_EDIT, W_EDIT, V_EDIT, A_EDIT, S_EDIT]) if quick else product
    for c in chunks(edit_base, 40):
        items.append(("edits", c))        # the edits are generated (and deduplicated per chunk) in the worker
    # (d) renders: every product sentence and every short sentence, per style
    short = accepted_strings(fmt_len)
    render_specs = sorted(set(product) | set(short))
    for style in STYLES:
        for c in chunks(render_specs, 400):
            items.append(("format", (style, c, True)))
    for c in chunks(product, 1500):
        items.append(("entry", c))
    for style in ("kitty", "iterm2"):
        items.append(("iterator", (style, ITER_SPECS[style])))
    items.append(("file-alpha", ["+W", "#+W", "##+W", "#ffffff+W", "#0a5FC9+W", "#.5+W", "<5.2##+Wm1", "#+Wc9",
                                 "##+L", "#123456+L", "#+L"]))
    # rejected specifiers x image state {live, closed, source file missing}
    state_specs = ["".join(t) for k in (1, 2) for t in itertools.product(ALPHABET, repeat=k)] + \
        product[::5 if quick else 1]
    for style in STYLES:
        for c in chunks(state_specs, 600):
            items.append(("image-state", (style, c)))
    for col in explore.pmap(_shard, explore.rotate(items), chunks_per_proc=16):
        ctx.merge(col)
    if quick is False and maxlen < 6:
        ctx.cap(f"all-strings bound is {maxlen}, DESIGN asks for 6 in the thorough tier")
    ctx.coverage.update(shade_style_pass=dict(alphabet=SHADE_ALPHABET, max_length=shade_len,
                                              grammar="[s digit][t [-] digit+], harness subclass of BlockImage "
                                              "with grouped _FORMAT_SPEC patterns"))
    ctx.coverage.update(non_ascii_digit_pass=dict(symbols=[f"U+{ord(c):04X}" for c in na_symbols],
                                                  context_alphabet=NA_ALPHABET, max_length=na_len,
                                                  note="all strings over the context alphabet + the symbols up to "
                                                  "max_length that contain a symbol, plus every menu-product "
                                                  "sentence with one ASCII digit replaced by a symbol"))
    ctx.coverage.update(alphabet=ALPHABET, alphabet_size=len(ALPHABET), max_length_all_strings=maxlen,
                        color_family=dict(alphabet=COLOR_FAMILY, max_length=8), alpha_family_alphabet=ALPHA_FAMILY, alpha_family_max_length=alpha_len,
                        menus=dict(h_align=H_MENU, width=W_MENU, vertical=V_MENU, alpha=A_MENU, style=S_MENU),
                        single_edit_bases=len(edit_base),
                        rendered_specs_per_style=len(render_specs), styles=list(STYLES), terminal=list(TERM),
                        terminal_history=[list(TERM), list(TERM_B), list(TERM)])
    ctx.rule = ("every string over the alphabet up to the length bound, every '#'-string of the alpha family, the "
                "full menu product and all single-character edits, each x 3 styles, through the real "
                "_check_format_spec, judged by the recursive-descent reference; accepted sentences of the product and "
                "of length <= fmtlen additionally through format() == explicit composition == draw(), ImageIterator "
                "and UrwidImage; every accepted sentence with a terminal-relative dimension again after a resize and "
                "after resizing back (same process); distinct = distinct (style, documented interpretation) of "
                "accepted sentences")
    ctx.assumptions += ["the reference grammar is the one of docs/source/guide/formatting.rst and the class "
                        "docstrings; '+' must be followed by a non-empty style; a height of 0 is terminal-relative "
                        "(full terminal height), absent height is terminal height - 2",
                        "virtual tty for get_terminal_size(); PIL for the renders of part (d)"]
    for s in ("<10.^5#.5+Lz1m1c9", ".##", "#ffffff"):
        ctx.sample(dict(kind="spec", style="kitty", spec=s))


def replay(ctx, case):
    global _GIF
    L = world.load_urwid()
    kind = case.get("kind")
    if kind == "spec":
        world.setup("kitty", TERM[0], TERM[1], cell=CELL)
        spec = case["spec"]
        before = class_state(L)
        for style in ([case["style"]] if case.get("style") else STYLES):
            compare(ctx, L, style, classes(L)[style], spec, ref_parse(spec, style), "replay")
        if class_state(L) != before:
            ctx.violation(dict(clause="side-effect", part="replay"), "class / global state changed", case)
    elif kind == "format":
        format_case(ctx, L, case["style"], case["spec"], True)
        world.uninstall()
    elif kind == "entry":
        _GIF = imgkit.gif(2, 2, 2)
        other_entry_points(ctx, L, case["spec"])
    elif kind == "iterator":
        _GIF = imgkit.gif(2, 2, 2)
        iterator_style_case(ctx, L, case["style"], case["spec"])
    elif kind == "file-alpha":
        file_alpha_case(ctx, L, case["spec"])
    elif kind == "image-state":
        image_state_cases(ctx, L, case["style"], [case["spec"]])
    elif kind == "urwid-first":
        _GIF = imgkit.gif(2, 2, 2)
        urwid_first_case(ctx, L, case["style"], case["spec"])
    else:
        raise world.HarnessError(f"unknown replay case {case!r}")
    print("replayed", kind, file=sys.stderr)
