"""C20 Style settings resolve instance -> nearest class -> default, and unset restores.

Engine: programs x explicit-state search.  A program = (root style class KittyImage | ITerm2Image | BlockImage,
tree shape of user subclasses built with type(), one instance per class, a setting group, a background).  A state is
the history that reaches it; every transition replays the history on freshly reset library classes, freshly
created subclasses and fresh instances, applies one more operation and compares the *complete* observable
snapshot (every setting at every class and instance, through the public getters; the class-wide render method
through the attribute lookup the renderer itself performs) with the reference model; rejected operations must
raise the documented exception class and leave the snapshot unchanged.  BFS to the fixpoint per group, dedup by
the implementation's raw override attributes (class / instance __dict__ entries + the metaclass global).  When a
state is first reached it is additionally *rendered*: the framing actually produced by every instance and by a
fresh instance of every class (LINES strips vs. one WHOLE image, PNG / JPEG / file bytes of the iterm2 payload,
decoded by the terminal model) must be the one the reference model's effective values dictate, and a per-call
override (`+L` / `+W`, `draw(method=...)`, the format spec of a cached ImageIterator incl. the frames it
re-renders after a size change) must win.  A violating transition is reported and not expanded.

Reference (DESIGN B.3): override[setting][node] partial map; effective = own override, else the parent's
(instance -> its class -> base classes), else the documented default (render method: the style's default,
forced support False, jpeg_quality -1, read_from_file True); native_anim_max_bytes is one global (default 2 MiB).
"""
from __future__ import annotations

import itertools
import os
import sys

from .. import explore, imgkit, vterm, world

ID = "C20"
LEVEL = "model_checking"

# class name -> bases, in creation order.  "R" is the library style class; "*M" is a plain (non-style) mixin class.
# A shape may restrict which classes get an instance node (default: all).
SHAPES = {
    "R": {},
    "RA": {"A": ("R",)},
    "RAB": {"A": ("R",), "B": ("A",)},
    "RA+RB": {"A": ("R",), "B": ("R",)},
    "M+RA": {"A": ("*M", "R")},                       # class A(Mixin, Root): mixin first
    "RA+M": {"A": ("R", "*M")},                       # class A(Root, Mixin): mixin last
    "RA,M+AB": {"A": ("R",), "B": ("*M", "A")},       # class B(Mixin, A): mixin first, two levels below the root
    "diamond": {"A": ("R",), "B": ("R",), "D": ("A", "B")},
    # the library's real ancestry above the root: X = BaseImage, G = GraphicsImage (TextImage for block); only the
    # settings that exist at the abstract levels (forced support) are operated and observed there
    "XG>R": {"X": (), "G": ("X",), "R": ("G",)},
    "XG>RA": {"X": (), "G": ("X",), "R": ("G",), "A": ("R",)},
    # class A(Root, metaclass=<a metaclass derived from the root's metaclass>)
    "RAm": {"A": ("R",)},
}
SHAPE_INSTANCES = {"diamond": ("D",), "RA,M+AB": ("A", "B"), "XG>R": ("R",), "XG>RA": ("R", "A")}
SHAPE_DERIVED_META = {"RAm": ("A",)}
ABSTRACT = ("X", "G")
FAMILY = dict(kitty="graphics", iterm2="graphics", block="text")
IDENT = dict(kitty="kitty", iterm2="wezterm", block="kitty")
METHODS = dict(kitty=("lines", "whole"), iterm2=("lines", "whole", "anim"), block=())
RM_DEFAULT = dict(kitty="lines", iterm2="lines", block=None)
NAB_DEFAULT = 2 * 2 ** 20
TERM = (12, 6)
CELL = (2, 2)
MISSING = "<unset>"
RAW_ATTRS = ("_render_method", "_forced_support", "_jpeg_quality", "_read_from_file")


# ------------------------------------------------------------------------------------------ reference model
class Model:
    def __init__(self, root, shape):
        self.root = root
        bases = dict(SHAPES[shape])
        if "R" not in bases:
            bases = dict({"R": ()}, **bases)
        self.classes = list(bases)
        self.concrete = [c for c in self.classes if c not in ABSTRACT]
        self.instances = ["i" + c for c in SHAPE_INSTANCES.get(shape, self.classes)]
        # resolution order = Python's MRO of a shadow hierarchy of plain classes (nothing of the library in it)
        shadow = {"*M": type("M", (), {})}
        for c, bs in bases.items():
            shadow[c] = type(c, tuple(shadow[b] for b in bs), {})
        names = {v: k for k, v in shadow.items()}
        self.mro = {c: [names[k] for k in shadow[c].__mro__ if k in names and names[k] != "*M"]
                    for c in self.classes}
        self.parent = {c: (self.mro[c][1] if len(self.mro[c]) > 1 else None) for c in self.classes}
        for i in self.instances:
            self.parent[i] = i[1:]
        self.ov = dict(rm={}, fs={}, jq={}, rff={})
        self.nab = NAB_DEFAULT
        self.settings = ["rm", "fs"] + (["jq", "rff", "nab"] if root == "iterm2" else [])

    def chain(self, n):
        """The nodes whose override *n* follows, nearest first: the instance, then its class' MRO."""
        if n.startswith("i"):
            return [n] + self.mro[n[1:]]
        return list(self.mro[n])

    def default(self, s):
        return dict(rm=RM_DEFAULT[self.root], fs=False, jq=-1, rff=True)[s]

    def eff(self, s, n):
        if s == "nab":
            return self.nab
        if s == "fs" and n.startswith("i"):
            n = self.parent[n]
        for x in self.chain(n):
            if x in self.ov[s]:
                v = self.ov[s][x]
                return v.lower() if s == "rm" else v
        return self.default(s)

    def holder(self, s, n):
        """The node whose override *n* follows (None = the default)."""
        for x in self.chain(n):
            if x in self.ov[s]:
                return x
        return None

    def node_settings(self, n):
        return ["fs"] if n in ABSTRACT else self.settings

    def snapshot(self):
        snap = {(n, s): self.eff(s, n) for n in self.classes + self.instances for s in self.node_settings(n)}
        # the library's other style classes (siblings of the root) and the common base: they never change, except
        # that they follow the abstract levels when those are nodes of the tree
        for name in ("kitty", "iterm2", "block", "base"):
            if name != self.root:
                snap[("lib:" + name, "rm")] = RM_DEFAULT.get(name)
                fs = False
                if "X" in self.classes and name != "base":
                    follows = ["G", "X"] if FAMILY[name] == FAMILY[self.root] else ["X"]
                    for x in follows:
                        if x in self.ov["fs"]:
                            fs = self.ov["fs"][x]
                            break
                if "X" in self.classes and name == "base":
                    fs = self.ov["fs"].get("X", False)
                snap[("lib:" + name, "fs")] = fs
        return snap

    def apply(self, op):
        """Returns the name of the exception the documentation prescribes, or None (accepted; model updated)."""
        kind, n = op[0], op[1]
        inst = n.startswith("i")
        if kind == "rm_set":
            v = op[2]
            if not isinstance(v, str):
                return "TypeError"
            if v.lower() not in METHODS[self.root]:
                return "ValueError"
            self.ov["rm"][n] = v
        elif kind == "rm_unset":
            self.ov["rm"].pop(n, None)
        elif kind == "fs_set":
            if inst:
                return "AttributeError"
            if not isinstance(op[2], bool):
                return "TypeError"
            self.ov["fs"][n] = op[2]
        elif kind == "jq_set":
            v = op[2]
            if not isinstance(v, int):
                return "TypeError"
            if v > 95:
                return "ValueError"
            self.ov["jq"][n] = v
        elif kind == "jq_del":
            self.ov["jq"].pop(n, None)
        elif kind == "rff_set":
            if not isinstance(op[2], bool):
                return "TypeError"
            self.ov["rff"][n] = op[2]
        elif kind == "rff_del":
            self.ov["rff"].pop(n, None)
        elif kind == "nab_set":
            if inst:
                return "AttributeError"
            v = op[2]
            if not isinstance(v, int):
                return "TypeError"
            if v <= 0:
                return "ValueError"
            self.nab = v
        elif kind == "nab_del":
            if inst:
                return "AttributeError"
            self.nab = NAB_DEFAULT
        else:
            raise world.HarnessError(f"op {op!r}")
        return None


OP_SETTING = dict(rm_set="rm", rm_unset="rm", fs_set="fs", jq_set="jq", jq_del="jq", rff_set="rff", rff_del="rff",
                  nab_set="nab", nab_del="nab")


# ------------------------------------------------------------------------------------------ the real objects
_FILES = {}


def source_file():
    """An RGB PNG whose bytes a re-encode cannot reproduce (text chunk, max compression)."""
    p = _FILES.get("png")
    if p is None:
        from PIL import Image, PngImagePlugin

        p = os.path.join(imgkit.tmpdir(), "c20-src.png")
        meta = PngImagePlugin.PngInfo()
        meta.add_text("verif", "c20")
        Image.new("RGB", (2, 4), (10, 200, 30)).save(p, pnginfo=meta, compress_level=9)
        _FILES["png"] = p
        with open(p, "rb") as f:
            _FILES["bytes"] = f.read()
        _FILES["gif"] = imgkit.gif(2, 4, 2, path=os.path.join(imgkit.tmpdir(), "c20-anim.gif"))
    return p


_PIL = {}


def source_pil():
    im = _PIL.get(0)
    if im is None:
        from PIL import Image

        im = _PIL[0] = Image.new("RGB", (2, 4), (10, 200, 30))
    return im


class Tree:
    pass


def build(L, prog, file_backed=False, unsupported=False):
    """Fresh world (library classes reset), fresh subclasses, one fresh instance per class."""
    root = prog["root"]
    world.setup(IDENT[root], TERM[0], TERM[1], cell=CELL)
    # reset_world() deletes _forced_support / _jpeg_quality / ... from the library style classes *after* restoring
    # the import-time state; a class that declares one of them in its body must keep its declaration
    world.restore_library_state()
    Root = dict(kitty=L.image.KittyImage, iterm2=L.image.ITerm2Image, block=L.image.BlockImage)[root]
    if "_native_anim_max_bytes" in vars(Root):      # never legitimately stored on a class; reset_world leaves it
        delattr(Root, "_native_anim_max_bytes")
    T = Tree()
    T.root = root
    T.model = Model(root, prog["shape"])
    T.nodes = {"R": Root, "X": L.common.BaseImage,
               "G": L.common.GraphicsImage if FAMILY[root] == "graphics" else L.common.TextImage}
    mixin = type("Tagged", (), {})                  # a user mixin that is not a style class
    for name, bases in SHAPES[prog["shape"]].items():
        if name in ("R",) + ABSTRACT:
            continue                                # library classes
        meta = type(Root)
        if name in SHAPE_DERIVED_META.get(prog["shape"], ()):
            meta = type("DerivedMeta", (type(Root),), {})      # a user metaclass deriving from the library's
        T.nodes[name] = meta(name, tuple(mixin if b == "*M" else T.nodes[b] for b in bases), {})
    T.nodes = {n: o for n, o in T.nodes.items() if n in T.model.classes}
    T.file_backed = file_backed
    for i in T.model.instances:
        T.nodes[i] = new_instance(T, i[1:])
    if unsupported:
        # the terminal turns out not to support the style: same tty, other answers, memos dropped
        cfg = dict(world.IDENTITIES["other"], fg=b"rgb:ffff/ffff/ffff", bg=b"rgb:0000/0000/0000")
        world.W.tty.responder = world.Responder(**cfg)
        L.utils.get_terminal_name_version._invalidate_cache()
        for c in T.model.concrete:
            if "_supported" in vars(T.nodes[c]):
                delattr(T.nodes[c], "_supported")
    T.unsupported = unsupported
    return T


def new_instance(T, c):
    cls = T.nodes[c]
    if T.file_backed:
        return cls.from_file(source_file(), width=1, height=2)
    return cls(source_pil(), width=1, height=2)


def impl_apply(L, T, op):
    """Execute *op* on the real objects.  Returns the exception class name or None."""
    kind, n = op[0], op[1]
    obj = T.nodes[n]
    try:
        if kind == "rm_set":
            obj.set_render_method(op[2])
        elif kind == "rm_unset":
            if len(op) > 2 and op[2] == "noarg":
                obj.set_render_method()
            else:
                obj.set_render_method(None)
        elif kind == "fs_set":
            obj.forced_support = op[2]
        elif kind == "jq_set":
            obj.jpeg_quality = op[2]
        elif kind == "jq_del":
            del obj.jpeg_quality
        elif kind == "rff_set":
            obj.read_from_file = op[2]
        elif kind == "rff_del":
            del obj.read_from_file
        elif kind == "nab_set":
            obj.native_anim_max_bytes = op[2]
        elif kind == "nab_del":
            del obj.native_anim_max_bytes
        else:
            raise world.HarnessError(f"op {op!r}")
    except world.HarnessError:
        raise
    except Exception as e:
        return type(e).__name__
    return None


def impl_snapshot(L, T):
    snap = {}
    m = T.model
    for n in m.classes + m.instances:
        obj = T.nodes[n]
        snap[(n, "fs")] = obj.forced_support
        if n in ABSTRACT:
            continue
        rm = getattr(obj, "_render_method", None)      # the lookup `self._render_method` of the renderers
        snap[(n, "rm")] = rm.lower() if isinstance(rm, str) else rm
        if T.root == "iterm2":
            snap[(n, "jq")] = obj.jpeg_quality
            snap[(n, "rff")] = obj.read_from_file
            snap[(n, "nab")] = obj.native_anim_max_bytes
    lib = dict(kitty=L.image.KittyImage, iterm2=L.image.ITerm2Image, block=L.image.BlockImage, base=L.common.BaseImage)
    for name, c in lib.items():
        if name != T.root:
            rm = getattr(c, "_render_method", None)
            snap[("lib:" + name, "rm")] = rm.lower() if isinstance(rm, str) else rm
            snap[("lib:" + name, "fs")] = c.forced_support
    return snap


def impl_canon(L, T):
    out = []
    for n in T.model.classes + T.model.instances:
        d = vars(T.nodes[n])
        out.append(tuple(repr(d.get(a, MISSING)) for a in RAW_ATTRS))
    out.append(getattr(type(T.nodes["R"]), "_native_anim_max_bytes", None))
    return tuple(out)


# ------------------------------------------------------------------------------------------ judging
def relation(m, target, wrong):
    if wrong.startswith("lib:"):
        return "library-sibling"
    if wrong == target:
        return "self"
    if target in m.chain(wrong):
        return "descendant"
    if wrong in m.chain(target):
        return "ancestor"
    return "sibling-or-unrelated"


def node_kind(n):
    if n.startswith("lib:"):
        return n
    if n in ABSTRACT:
        return "library-ancestor"
    return "instance" if n.startswith("i") else ("root" if n == "R" else "subclass")


def class_unset_cause(m, history, wrong):
    """True when *wrong* (a render-method observation) follows - in the model - through a user subclass whose
    most recent render-method operation was a class-level unset."""
    last = {}
    for op in history:
        if OP_SETTING.get(op[0]) == "rm":
            ok = Model.apply(_Scratch(m.root), op) is None
            if ok:
                last[op[1]] = op[0]
    stop = m.holder("rm", wrong)
    for n in m.chain(wrong):
        if n == stop:
            break
        if not n.startswith("i") and n != "R" and last.get(n) == "rm_unset":
            return True
    return False


class _Scratch(Model):
    def __init__(self, root):
        self.root = root
        self.ov = dict(rm={}, fs={}, jq={}, rff={})
        self.nab = NAB_DEFAULT


def judge_transition(col, L, prog, T, history, op, case):
    """Apply *op* (the last element of *history*) to model and implementation, compare.  Returns True if ok."""
    m = T.model
    before = impl_snapshot(L, T)
    want_exc = m.apply(op)
    got_exc = impl_apply(L, T, op)
    setting = OP_SETTING[op[0]]
    base = dict(setting=setting, op=op[0], target=node_kind(op[1]))
    ok = True
    if want_exc is None and got_exc is not None:
        col.violation(dict(clause="rejects-valid", exc=got_exc, **base),
                      f"{prog['root']}/{prog['shape']}: after {history[:-1]}, {op} raised {got_exc}", case)
        return False
    if want_exc is not None and got_exc is None:
        col.violation(dict(clause="accepts-invalid", want=want_exc, **base),
                      f"{prog['root']}/{prog['shape']}: after {history[:-1]}, {op} was accepted; documented: "
                      f"{want_exc}", case)
        ok = False
    elif want_exc is not None and got_exc != want_exc:
        col.violation(dict(clause="error-class", want=want_exc, exc=got_exc, **base),
                      f"{prog['root']}/{prog['shape']}: {op} raised {got_exc}; documented: {want_exc}", case)
        ok = False
    after = impl_snapshot(L, T)
    want = m.snapshot()
    wrong = sorted(k for k in want if after.get(k) != want[k])
    if wrong:
        ok = False
        seen = set()
        for (n, s) in wrong:
            if want_exc is not None:
                sig = dict(clause="rejected-op-changed-state", changed=s, **base)
            elif s == "rm" and not n.startswith("lib:") and class_unset_cause(m, history, n):
                sig = dict(clause="effective", setting="rm", cause="class-level-unset-does-not-follow-parent")
            elif s != setting:
                sig = dict(clause="other-setting-changed", changed=s, **base)
            else:
                sig = dict(clause="effective", wrong=relation(m, op[1], n), wrong_kind=node_kind(n), **base)
            key = tuple(sorted(sig.items()))
            if key in seen:
                continue
            seen.add(key)
            col.violation(sig, f"{prog['root']}/{prog['shape']}: after {history}: {s} seen by {n} is "
                          f"{after.get((n, s))!r}, reference {want[(n, s)]!r} (before the operation: "
                          f"{before.get((n, s))!r}); all mismatches: "
                          f"{[(k, after.get(k), want[k]) for k in wrong][:6]}", case)
    if T.unsupported and T.root == "kitty":
        # ... and whether KittyImage.clear() does anything there: delete sequences are written iff the effective
        # forced support of the class it is called on is enabled (stdout, or the tty for now=True)
        for c in m.concrete:
            for kw in ({}, dict(now=True), dict(cursor=True), dict(z_index=5), dict(cursor=True, now=True)):
                out = world.VStdout(None, isatty=False)
                tty = world.W.tty
                n0 = len(tty.out)
                world.install(tty, out)
                try:
                    T.nodes[c].clear(**kw)
                finally:
                    sys.stdout = L.orig["stdout"]
                    L.kitty._stdout_write = L.orig["kitty_w"]
                    L.iterm2._stdout_write = L.orig["iterm2_w"]
                    world.W.stdout = None
                sink = bytes(tty.out[n0:]).decode("latin-1") if kw.get("now") else out.getvalue()
                wrote = "_Ga=d" in sink
                col.count()
                col.inc("clear_observations")
                if wrote != m.eff("fs", c):
                    ok = False
                    col.violation(dict(clause="forced-support-clear", now=bool(kw.get("now")), **base),
                                  f"{prog['root']}/{prog['shape']}: after {history}: {c}.clear({kw}) on an unsupporting "
                                  f"terminal {'wrote' if wrote else 'did not write'} delete sequences, effective "
                                  f"forced support of {c} is {m.eff('fs', c)}", case)
    if T.unsupported:
        # forced support decides whether the style can be instantiated on a terminal without support
        for c in (m.concrete if FAMILY[T.root] == "graphics" else ()):
            try:
                T.nodes[c](source_pil())
                got = True
            except L.common.StyleError:
                got = False
            if got != m.eff("fs", c):
                ok = False
                col.violation(dict(clause="forced-support-instantiation", **base),
                              f"{prog['root']}/{prog['shape']}: after {history}: instantiating {c} on an unsupporting "
                              f"terminal {'succeeded' if got else 'failed'}, effective forced support is "
                              f"{m.eff('fs', c)}", case)
    return ok


def framing(out, root):
    t = vterm.run(out, TERM[0], TERM[1], IDENT[root], strict=True)
    ps = t.placements
    if t.errors:
        return ("errors", tuple(t.errors[:2]))
    if len(ps) == 1 and ps[0].rows == 2:
        kind = "whole"
    elif len(ps) == 2 and all(p.rows == 1 for p in ps):
        kind = "lines"
    else:
        kind = f"{len(ps)} placements"
    imgs = t.iterm_images
    payload = None
    if imgs:
        raw = imgs[0].get("raw")
        payload = "file" if raw == _FILES.get("bytes") else imgs[0].get("format")
    return (kind, payload)


def drawn(L, inst, method):
    """What draw(method=...) writes (no padding), captured from a virtual non-tty stdout."""
    out = world.VStdout(None, isatty=False)
    tty = world.W.tty
    world.install(tty, out)
    try:
        inst.draw("<", 1, "^", 1, method=method)
    finally:
        sys.stdout = L.orig["stdout"]
        L.kitty._stdout_write = L.orig["kitty_w"]
        L.iterm2._stdout_write = L.orig["iterm2_w"]
        world.W.stdout = None
    return out.getvalue()


def render_observations(col, L, prog, history, case, quick=False):
    """First visit of a state: what is actually rendered must be what the effective values dictate."""
    root = prog["root"]
    if root == "block":
        return
    T = build(L, prog, file_backed=(root == "iterm2"))
    for op in history:
        T.model.apply(op)
        impl_apply(L, T, op)
    m = T.model
    if prog["group"] in ("rm", "mixed"):
        iterator_observations(col, L, prog, T, history, case)
        override_equals_effective(col, L, prog, T, history, case)
    nodes = m.concrete + m.instances
    if quick:                              # quick tier: a fresh instance of the most derived class only
        nodes = m.classes[-1:] + m.instances
    for n in nodes:
        inst = T.nodes[n] if n.startswith("i") else new_instance(T, n)
        eff_rm = m.eff("rm", n)
        want_kind = "whole" if eff_rm == "anim" else eff_rm       # ANIM on a still image renders as WHOLE
        obs = [("str", str(inst), want_kind)]
        if root == "iterm2":
            obs.append(("+W", format(inst, "1.1#+W"), "whole"))
        if n == m.instances[-1] or (root == "kitty" and n == m.classes[-1]):
            obs.append(("+L", format(inst, "1.1+L"), "lines"))
            if root == "kitty":
                obs.append(("+W", format(inst, "1.1#+W"), "whole"))
            # per-call override through draw(method=...), which is case-insensitive too
            for spelled, kind in (("LINES", "lines"), ("Whole", "whole")):
                obs.append((f"draw(method={spelled!r})", drawn(L, inst, spelled), kind))
        for how, out, kind in obs:
            col.count()
            col.inc("renders")
            got = framing(out, root)
            if got[0] != kind:
                col.violation(dict(clause="render-uses-effective-method" if how == "str" else "per-call-override",
                                   root=root, node=node_kind(n)),
                              f"{root}/{prog['shape']}: after {history}: {n} rendered via {how} is framed as {got}, "
                              f"effective render method {eff_rm!r}" + ("" if how == "str" else f", override {how}"),
                              case)
            if root == "iterm2" and how == "+W":
                rff, jq = m.eff("rff", n), m.eff("jq", n)
                want_payload = "file" if rff else ("JPEG" if jq >= 0 else "PNG")
                if got[1] != want_payload:
                    col.violation(dict(clause="render-uses-effective-" + ("rff" if "file" in (got[1], want_payload)
                                                                         else "jq"), node=node_kind(n)),
                                  f"iterm2/{prog['shape']}: after {history}: WHOLE render of {n} carries {got[1]} "
                                  f"data, effective read_from_file={rff} jpeg_quality={jq} dictate {want_payload}",
                                  case)


_PATTERNS = {}


def pattern_pil(w, h):
    im = _PATTERNS.get((w, h))
    if im is None:
        im = _PATTERNS[(w, h)] = imgkit.pattern(w, h, "RGB", alpha="opaque")
    return im


def override_equals_effective(col, L, prog, T, history, case):
    """Differential: a render with a per-call override M2 on an instance whose effective method is M1 is the SAME
    STRING as the render, without override, of a fresh instance of the same class (same source, size, alpha, other
    settings) whose effective method is M2 - layout and pixel geometry alike.  Sources both smaller (upscaled
    render) and larger than the render size."""
    root = prog["root"]
    m = T.model
    c = m.classes[-1]
    i = m.instances[-1]
    cls = T.nodes[c]
    icls = T.nodes[m.parent[i]]
    pairs = []       # (label, instance under test, reference factory)
    for label, src, size in (("upscaled 2x3 px source at 2x3 cells", pattern_pil(2, 3), (2, 3)),
                             ("6x12 px source at 1x2 cells", pattern_pil(6, 12), (1, 2)),
                             ("2x4 px source at 2x4 cells", None, (2, 4))):
        def fresh(klass=cls, src=src, size=size, name=c):
            o = klass(src, width=size[0], height=size[1]) if src is not None else new_instance(T, name)
            o.set_size(*size)
            return o
        pairs.append((f"fresh {c} instance, {label}", c, fresh(), fresh))
    inst = T.nodes[i]

    def iref():
        o = new_instance(T, m.parent[i])
        o.set_size(2, 4)
        for s_, attr in (("jq", "jpeg_quality"), ("rff", "read_from_file")):
            if root == "iterm2" and i in m.ov[s_]:
                setattr(o, attr, m.ov[s_][i])
        return o
    inst.set_size(2, 4)
    pairs.append((f"{i}, 2x4 px source at 2x4 cells", i, inst, iref))
    try:
        for label, n, obj, make_ref in pairs:
            eff = m.eff("rm", n)
            for m2, plus in (("lines", "+L"), ("whole", "+W")):
                if m2 == eff:
                    continue
                ref = make_ref()
                ref.set_render_method(m2)
                a = format(obj, "1.1" + plus)
                b = format(ref, "1.1")
                col.count(2)
                col.inc("renders", 2)
                col.inc("override_differentials")
                if a != b:
                    col.violation(dict(clause="override-equals-effective", root=root, override=m2,
                                       node=node_kind(n)),
                                  f"{root}/{prog['shape']}: after {history}: {label}: the render with per-call "
                                  f"override {plus} (effective method {eff!r}) differs from the render of a fresh "
                                  f"instance whose effective method is {m2!r}: {a[:90]!r}... vs {b[:90]!r}...", case)
    finally:
        inst.set_size(1, 2)


def iterator_observations(col, L, prog, T, history, case):
    """A cached ImageIterator whose format spec overrides the render method: the override holds for every frame
    it yields - those of the first loop and those re-rendered in a later loop because the image size changed in
    between (stale cache entries)."""
    root = prog["root"]
    m = T.model
    n = m.classes[-1]
    eff = m.eff("rm", n)
    over, want = ("+W", "whole") if eff == "lines" else ("+L", "lines")
    anim = T.nodes[n].from_file(_FILES["gif"], width=1, height=2)
    it = L.common.ImageIterator(anim, 2, "1.1" + over, True)
    try:
        for loop, size in ((1, None), (2, (2, 2))):
            if size:
                anim.size = size            # every cached frame is stale now
            for k in range(2):
                frame = next(it)
                col.count()
                col.inc("renders")
                col.inc("iterator_frames")
                got = framing(frame, root)
                if got[0] != want:
                    col.violation(dict(clause="iterator-per-call-override", root=root, loop=loop,
                                       resized=bool(size)),
                                  f"{root}/{prog['shape']}: after {history}: frame {k} of loop {loop} of a cached "
                                  f"ImageIterator(image of {n}, 2, '1.1{over}')" +
                                  (f" after image.size = {size}" if size else "") +
                                  f" is framed as {got}; effective method {eff!r}, override {over}", case)
    finally:
        it.close()
        anim.close()
    # an iterator whose spec names no method follows the method that is effective when each frame is rendered:
    # set / unset on the instance, then set / unset on its class, between construction and the later next() calls
    kind_of = lambda v: "whole" if v == "anim" else v           # noqa: E731  (still frames: ANIM renders as WHOLE)
    other = "whole" if kind_of(eff) == "lines" else "lines"
    anim = T.nodes[n].from_file(_FILES["gif"], width=1, height=2)
    it = L.common.ImageIterator(anim, -1, "1.1", False)
    steps = [("nothing yet", None, kind_of(eff)),
             (f"instance.set_render_method({other!r})", lambda: anim.set_render_method(other), other),
             ("instance.set_render_method(None)", lambda: anim.set_render_method(None), kind_of(eff)),
             (f"class {n}.set_render_method({other!r})", lambda: T.nodes[n].set_render_method(other), other),
             (f"class {n}.set_render_method(None)", lambda: T.nodes[n].set_render_method(None), None)]
    had_own = n in m.ov["rm"]
    own = m.ov["rm"].get(n)
    try:
        for what, act, want in steps:
            if act:
                act()
            if want is None:                   # after the class-level unset the class follows its ancestors again
                if had_own:
                    m.ov["rm"].pop(n)
                want = kind_of(m.eff("rm", n))
            frame = next(it)
            col.count()
            col.inc("renders")
            col.inc("iterator_frames")
            got = framing(frame, root)
            if got[0] != want:
                col.violation(dict(clause="iterator-follows-effective-method", root=root, step=what.split("(")[0]),
                              f"{root}/{prog['shape']}: after {history}: ImageIterator(image of {n}, -1, '1.1') "
                              f"constructed, then {what}: the next frame is framed as {got}, the effective method is "
                              f"{want!r} now", case)
                break
    finally:
        it.close()
        anim.close()
        # put the class back into the state under observation
        T.nodes[n].set_render_method(own if had_own else None)
        if had_own:
            m.ov["rm"][n] = own


# ------------------------------------------------------------------------------------------ alphabets
def group_ops(prog, tier):
    quick = tier == "quick"
    root, g = prog["root"], prog["group"]
    m = Model(root, prog["shape"])
    C, I = m.classes, m.instances
    ops = []
    if g in ("rm", "mixed"):
        if root == "kitty":
            # set_render_method() is case-insensitive and stores the spelling given: non-lowercase spellings of
            # LINES in particular (a mis-normalised "WHOLE" would still render whole and hide the fault)
            vals = ["whole", "lines"] if (quick or g == "mixed") else ["whole", "lines", "LINES"]
        elif root == "iterm2":
            vals = ["whole", "lines"] if (quick or g == "mixed") else ["whole", "lines", "anim"]
        else:
            vals = []
        for n in C + I:
            for v in vals[: 1 if g == "mixed" else None]:
                ops.append(("rm_set", n, v))
            ops.append(("rm_unset", n))
            if g != "mixed" and (not quick or n in (C[-1], I[0])):
                ops.append(("rm_set", n, "bogus"))
                ops.append(("rm_set", n, 7))
        if g != "mixed":
            ops.append(("rm_unset", C[-1], "noarg"))
            ops.append(("rm_set", C[0], ""))
            if root == "kitty":
                ops.append(("rm_set", C[-1], "anim"))
                ops.append(("rm_set", I[-1], "Lines"))
                ops.append(("rm_set", C[-1], "LINES" if quick else "Lines"))
                if not quick:
                    ops.append(("rm_set", I[0], "Whole"))
            if root == "iterm2":
                ops.append(("rm_set", C[-1], "ANIM"))
                ops.append(("rm_set", I[0], "Anim"))
                ops.append(("rm_set", I[-1], "LINES"))
                if not quick:
                    ops.append(("rm_set", C[0], "Lines"))
                    ops.append(("rm_set", I[-1], "Whole"))
            if root == "block":
                ops.append(("rm_set", C[-1], "lines"))
                ops.append(("rm_set", I[-1], "lines"))
    if g in ("fs", "mixed"):
        for n in C:
            ops.append(("fs_set", n, True))
            ops.append(("fs_set", n, False))
        if g != "mixed":
            for n in C:
                ops.append(("fs_set", n, 1))
            ops.append(("fs_set", C[-1], None))
            for n in I:
                ops.append(("fs_set", n, True))
    if root == "iterm2":
        if g in ("jq", "mixed"):
            # a negative quality is a *value* ("JPEG encoding disabled"), not an unset: every node gets one
            vals = [0, -1] if g != "mixed" else [50, -1]
            if not quick and g != "mixed":
                vals = [0, 95, -1]
            for n in C + I:
                for v in vals:
                    ops.append(("jq_set", n, v))
                ops.append(("jq_del", n))
                if g != "mixed" and (not quick or n in (C[-1], I[0])):
                    ops.append(("jq_set", n, 96))
                    ops.append(("jq_set", n, "50"))
            if g != "mixed":
                ops.append(("jq_set", C[-1], 1.5))
                ops.append(("jq_set", I[-1], 1000))
                ops.append(("jq_set", I[-1], -7))
                if quick:
                    ops.append(("jq_set", C[-1], 95))
                else:
                    ops.append(("jq_set", C[-1], -7))
        if g in ("rff", "mixed"):
            for n in C + I:
                for v in ([True, False] if g != "mixed" else [False]):
                    ops.append(("rff_set", n, v))
                ops.append(("rff_del", n))
                if g != "mixed" and (not quick or n in (C[-1], I[0])):
                    ops.append(("rff_set", n, 1))
            if g != "mixed":
                ops.append(("rff_set", C[-1], "False"))
                ops.append(("rff_set", I[-1], None))
        if g in ("nab", "mixed"):
            for n in C:
                for v in ([1, 5000] if g != "mixed" else [5000]):
                    ops.append(("nab_set", n, v))
                ops.append(("nab_del", n))
                if g != "mixed":
                    ops += [("nab_set", n, 0), ("nab_set", n, -1), ("nab_set", n, 1.5)]
            if g != "mixed":
                for n in I:
                    ops += [("nab_set", n, 5), ("nab_del", n)]
    return ops


def background(prog):
    """A preamble that puts every *other* setting group into a non-default state at several levels."""
    root, g = prog["root"], prog["group"]
    m = Model(root, prog["shape"])
    last = m.classes[-1]
    pre = []
    if g != "rm" and root != "block":
        pre += [("rm_set", last, "whole"), ("rm_set", m.instances[0], "whole")]
    if g != "fs":
        pre += [("fs_set", "R", True)]
    if root == "iterm2":
        if g != "jq":
            pre += [("jq_set", "R", 50), ("jq_set", m.instances[-1], 10)]
        if g != "rff":
            pre += [("rff_set", last, False), ("rff_set", m.instances[0], False)]
        if g != "nab":
            pre += [("nab_set", last, 12345)]
    return tuple(pre)


def programs(tier):
    quick = tier == "quick"
    progs = []
    for root in ("kitty", "iterm2", "block"):
        groups = ["rm", "fs"] + (["jq", "rff", "nab"] if root == "iterm2" else [])
        shapes = list(SHAPES) if root != "block" else ["RA", "XG>RA"]
        for shape in shapes:
            for g in groups:
                if shape.startswith("XG>") and g != "fs":
                    continue          # only forced support exists at the abstract levels
                if root == "block" and g == "fs" and not shape.startswith("XG>"):
                    continue
                if quick and shape == "RA+RB" and g in ("jq", "rff"):
                    continue          # quick tier: sibling classes are explored for rm / fs / nab only
                if quick and shape == "RA,M+AB":
                    continue          # quick tier: the mixin shapes directly under the root and the diamond only
                bg = (not quick) or shape in ("RA", "RAm") or g in ("fs", "nab")
                progs.append(dict(root=root, shape=shape, group=g, background=bg, kind="bfs"))
    for root in ("kitty", "iterm2"):
        progs.append(dict(root=root, shape="RA", group="mixed", background=False, kind="bfs",
                          max_depth=2 if quick else 3))
    return progs


# ------------------------------------------------------------------------------------------ search
def replay_history(L, prog, history, col=None, judge_last=True, case=None):
    """Fresh objects, replay; the last operation is judged.  Returns (tree, ok)."""
    T = build(L, prog, unsupported=(prog["group"] == "fs"))
    n = len(history)
    for i, op in enumerate(history):
        if i == n - 1 and judge_last:
            ok = judge_transition(col, L, prog, T, list(history), op, case)
            return T, ok
        T.model.apply(op)
        impl_apply(L, T, op)
    return T, True


def case_of(prog, history):
    return dict(kind="history", program={k: prog[k] for k in ("root", "shape", "group")},
                history=[list(o) for o in history])


def expand_state(col, L, prog, ops, h):
    """Expand one frontier state: render it (first and only expansion), then every operation from it.
    Returns the list of (new history, canon key) of the non-violating transitions."""
    succ = []
    try:
        render_observations(col, L, prog, h, case_of(prog, h), _CTX.tier == "quick")
    except world.HarnessError:
        raise
    except Exception as e:
        col.violation(dict(clause="exception", where="render", exc=type(e).__name__, root=prog["root"]),
                      f"after {list(h)}: {type(e).__name__}: {e}", case_of(prog, h))
    for op in ops:
        nh = h + (op,)
        col.count()
        col.inc("transitions")
        case = case_of(prog, nh)
        try:
            T, ok = replay_history(L, prog, nh, col, True, case)
        except world.HarnessError:
            raise
        except Exception as e:
            col.violation(dict(clause="exception", where="transition", exc=type(e).__name__, op=op[0],
                               root=prog["root"]), f"after {list(nh)}: {type(e).__name__}: {e}", case)
            continue
        if not ok:
            continue                      # a violating transition is reported, not expanded
        succ.append((nh, impl_canon(L, T)))
    return succ


_PROGS = None


def _expand_shard(items):
    """items: [(program index, history)] of one BFS level."""
    L = world.load()
    col = _CTX.new_collector()
    source_file()
    out = []
    for pi, h in items:
        prog = _PROGS[pi]
        for nh, key in expand_state(col, L, prog, prog["_ops"], h):
            out.append((pi, nh, key))
    return col, out


def level_bfs(ctx, progs, phase):
    """Level-synchronous BFS over all programs at once; each level is expanded in parallel.
    phase 0 starts from the pristine classes, phase 1 from the background preambles (same `seen` sets), so that
    the representative (first reported) history of a violation is a short one."""
    global _PROGS
    L = world.load()
    _PROGS = progs
    frontier = []
    for pi, prog in enumerate(progs):
        if phase == 0:
            prog["_ops"] = group_ops(prog, ctx.tier)
            prog["_seen"] = {}
            inits = [()]
        else:
            inits = [background(prog)] if prog.get("background") else []
        for h in inits:
            T, _ = replay_history(L, prog, h, judge_last=False)
            if impl_snapshot(L, T) != T.model.snapshot():
                ctx.violation(dict(clause="effective", where="background"),
                              f"{prog['root']}/{prog['shape']}: after the background {list(h)} the snapshot differs "
                              f"from the reference", case_of(prog, h + (("rm_unset", "R"),)))
            key = impl_canon(L, T)
            if key not in prog["_seen"]:
                prog["_seen"][key] = h
                frontier.append((pi, h, 0))
    seen = [p["_seen"] for p in progs]
    level = 0
    left = 0
    while frontier:
        todo = []
        for pi, h, d in frontier:
            md = progs[pi].get("max_depth")
            if md is not None and d >= md:
                left += 1
                if progs[pi]["group"] != "mixed":
                    ctx.inc("not_fixpoint")
                continue
            todo.append((pi, h, d))
        if not todo:
            break
        depth_of = {(pi, h): d for pi, h, d in todo}
        results = explore.pmap(_expand_shard, [(pi, h) for pi, h, d in explore.rotate(todo)], chunks_per_proc=8)
        succ_all = []
        for col, out in results:
            ctx.merge(col)
            succ_all.extend(out)
        # deterministic, seed-independent choice of the representative history of a new state
        succ_all.sort(key=lambda t: (t[0], repr(t[1])))
        frontier = []
        for pi, nh, key in succ_all:
            if key not in seen[pi]:
                seen[pi][key] = nh
                frontier.append((pi, nh, depth_of[(pi, nh[:-1])] + 1))
        level += 1
    ctx.max("depth", level)
    ctx.inc("bounded_frontier_left", left)
    if phase == 0:
        return
    ctx.inc("states", sum(len(s) for s in seen))
    for pi, prog in enumerate(progs):
        for key in seen[pi]:
            ctx.add_distinct(hash((prog["root"], prog["shape"], key)) & ((1 << 63) - 1))
        prog["_states"] = len(seen[pi])
    big = max(range(len(progs)), key=lambda i: len(seen[i]))
    hs = sorted(seen[big].values(), key=lambda h: (-len(h), repr(h)))
    for h in hs[:2]:
        ctx.sample(case_of(progs[big], h))


def run_unmerged(col, prog, tier, first, depth):
    """Every history of length <= depth beginning with ops[first], no merging, every operation judged."""
    L = world.load()
    ops = group_ops(prog, tier)
    for d in range(depth):
        for rest in itertools.product(ops, repeat=d):
            h = (ops[first],) + rest
            col.count()
            col.inc("unmerged_histories")
            T = build(L, prog, unsupported=(prog["group"] == "fs"))
            for i in range(len(h)):
                try:
                    ok = judge_transition(col, L, prog, T, list(h[:i + 1]), h[i], case_of(prog, h[:i + 1]))
                except world.HarnessError:
                    raise
                except Exception as e:
                    col.violation(dict(clause="exception", where="transition", exc=type(e).__name__, op=h[i][0],
                                       root=prog["root"]), f"in {list(h)}: {type(e).__name__}: {e}",
                                  case_of(prog, h[:i + 1]))
                    ok = False
                if not ok:
                    break


_CTX = None


def _shard(items):
    col = _CTX.new_collector()
    source_file()
    for kind, arg in items:
        run_unmerged(col, *arg)
    return col


def run(ctx):
    global _CTX
    _CTX = ctx
    source_file()
    quick = ctx.tier == "quick"
    progs = programs(ctx.tier)
    level_bfs(ctx, progs, 0)
    level_bfs(ctx, progs, 1)
    items = []
    depth = 2 if quick else 3
    for root in ("kitty", "iterm2"):
        for g in (("rm",) if root == "kitty" else ("rm", "jq")):
            p = dict(root=root, shape="RA", group=g, background=False)
            for i in range(len(group_ops(p, ctx.tier))):
                items.append(("unmerged", (p, ctx.tier, i, depth)))
    for col in explore.pmap(_shard, explore.rotate(items), chunks_per_proc=8):
        ctx.merge(col)
    ctx.coverage["states"] = ctx.extra.get("states", 0)
    ctx.coverage["transitions"] = ctx.extra.get("transitions", 0)
    ctx.coverage["traces_validated_against_impl"] = ctx.evaluations
    ctx.coverage["programs"] = len(progs)
    ctx.coverage.update(program_table={f"{p['root']}/{p['shape']}/{p['group']}" + ("+bg" if p.get("background") else ""):
                                  dict(operations=len(p["_ops"]), states=p["_states"],
                                       **({"max_depth": p["max_depth"]} if p.get("max_depth") else {}))
                                  for p in progs},
                        unmerged_depth=depth, tree_shapes=list(SHAPES))
    if ctx.extra.get("not_fixpoint"):
        ctx.cap("a per-group BFS did not reach its fixpoint")
    ctx.rule = ("per program (root style class x subclass tree shape x setting group x background) BFS to the fixpoint "
                "over set / unset / invalid operations on every class and instance, each transition replayed on "
                "fresh classes and judged against the override-map reference on the complete snapshot; every state is "
                "rendered when it is expanded; 'mixed' programs interleave all groups to a bounded depth; unmerged "
                "enumeration of all histories up to the stated depth; distinct = distinct (root, tree shape, raw "
                "override state) reached")
    ctx.assumptions += ["vlib/vterm.py decodes the kitty / iterm2 framing of the renders", "PIL",
                        "single-inheritance chains of user subclasses under one library style class (<= 3 classes)"]


def replay(ctx, case):
    L = world.load()
    source_file()
    prog = dict(case["program"], background=False)
    h = tuple(tuple(o) for o in case["history"])
    ctx.count()
    T, ok = replay_history(L, prog, h, ctx, True, case)
    if ok:
        try:
            render_observations(ctx, L, prog, h, case)
        except world.HarnessError:
            raise
        except Exception as e:
            ctx.violation(dict(clause="exception", where="render", exc=type(e).__name__, root=prog["root"]),
                          f"{type(e).__name__}: {e}", case)
    print("replayed history of", len(h), "operations", file=sys.stderr)
