"""Harness renderables for the Renderable-API checks (C05 C06 C07 C08 C09 C10).

All of them are pure functions of (frame number, size, duration, args) and record every call the
base class makes into them (`log`), so a check can count renders / finalizations.
"""
from __future__ import annotations

from .world import load

_cache = {}


def classes():
    """Build (once per process) the harness classes on top of the *real* Renderable."""
    if _cache:
        return _cache["ns"]
    L = load()
    R = L.renderable
    Renderable, Frame, RenderArgs, ArgsNamespace, DataNamespace = (
        R.Renderable, R.Frame, R.RenderArgs, R.ArgsNamespace, R.DataNamespace)
    FrameCount, FrameDuration, Seek = R.FrameCount, R.FrameDuration, R.Seek
    Size = L.geometry.Size

    GLYPHS = "abcdefghijklmnopqrstuvwxyzABCDEFGHIJKLMNOPQRSTUVWXYZ"

    class TextR(Renderable):
        """Plain text frames: cell (x, y) of frame k shows GLYPHS[(k*7 + y*w + x + tag) % 52].

        mode 'plain'  : only printable characters and newlines
        mode 'sgr'    : every line starts with a direct-colour SGR and ends with a reset
        mode 'clear'  : like plain but the renderable needs `_clear_frame_` (writes ECH per line)
        """

        def __init__(self, frame_count=1, size=(2, 2), duration=100, mode="plain", stream_len=4):
            super().__init__(frame_count, duration)
            self.size = Size(*size)
            self.mode = mode
            self.log = []            # ('render', frame_no, ...), ('finalize', id), ('data', id) ...
            self.datas = []          # strong refs: __del__ cannot mask a missing finalize
            self.fault = None        # callable(kind, n) -> exception instance or None
            self.n_render = 0
            self.n_getdata = 0
            self.stream_len = stream_len
            self.stream_pos = 0      # INDEFINITE: next frame on the stream
            self.seen_seeks = []

        def _get_render_size_(self):
            return self.size

        def _get_render_data_(self, *, iteration):
            self.n_getdata += 1
            if self.fault:
                e = self.fault("getdata", self.n_getdata)
                if e is not None:
                    raise e
            rd = super()._get_render_data_(iteration=iteration)
            self.datas.append(rd)
            _owners[id(rd)] = self
            self.log.append(("data", len(self.datas) - 1, iteration))
            return rd

        @classmethod
        def _finalize_render_data_(cls, render_data):
            owner = _owners.get(id(render_data))
            if owner is not None:
                for i, d in enumerate(owner.datas):
                    if d is render_data:
                        owner.log.append(("finalize", i))
            super()._finalize_render_data_(render_data)

        def text(self, k, size, tag=0):
            w, h = size
            return "\n".join(
                "".join(GLYPHS[(k * 7 + y * w + x + tag) % 52] for x in range(w)) for y in range(h))

        def _render_(self, render_data, render_args):
            self.n_render += 1
            d = render_data[Renderable]
            if render_data.finalized:
                self.log.append(("render-after-finalize", self.n_render))
            if self.fault:
                e = self.fault("render", self.n_render)
                if e is not None:
                    raise e
            size = d.size
            if self._frame_count is FrameCount.INDEFINITE and d.iteration:
                off, wh = d.frame_offset, d.seek_whence
                self.seen_seeks.append((off, wh.name))
                if wh is Seek.START:
                    pos = off
                elif wh is Seek.END:
                    pos = self.stream_len - 1 + off
                else:
                    pos = self.stream_pos + off
                pos = max(pos, 0)
                if pos >= self.stream_len:
                    raise StopIteration
                k = pos
                self.stream_pos = pos + 1
            else:
                k = d.frame_offset
            dur = d.duration if self.animated else 0
            if dur is FrameDuration.DYNAMIC:
                dur = 10 + k
            tag = 0
            if type(self).Args is not None and TextR.Args is not None:
                tag = render_args[TextR].tag
            self.log.append(("render", k, tuple(size), dur, tag))
            out = self.text(k, size, tag)
            if self.mode == "sgr":
                out = "\n".join(f"\x1b[38;2;{10 + k};{20 + i};30m\x1b[48;2;1;2;3m{ln}\x1b[m"
                                for i, ln in enumerate(out.split("\n")))
            number = k
            if self._frame_count is FrameCount.INDEFINITE and getattr(self, "number_mode", "position") == "zero":
                number = 0      # Frame.number is unspecified for INDEFINITE renderables
            return Frame(number, dur, size, out)

    _owners = {}

    class TextRArgs(ArgsNamespace, render_cls=TextR):
        tag: int = 0

    def make(frame_count=1, size=(2, 2), duration=100, mode="plain", stream_len=4, cls=TextR,
             number_mode="position"):
        """number_mode (INDEFINITE frame count only): "position" - frames are numbered by their position on
        the stream; "zero" - every frame carries number 0 (the number is unspecified for such renderables)."""
        r = cls(frame_count, size, duration, mode, stream_len)
        r.number_mode = number_mode
        return r

    class ClearR(TextR):
        """Needs `_clear_frame_`: erases its lines before the next frame is drawn."""

        def _clear_frame_(self, render_data, render_args, cursor_x, output):
            w, h = render_data[Renderable].size
            self.log.append(("clear", cursor_x))
            # erase each line of the frame and come back to the top-left cell
            seq = []
            for i in range(h):
                seq.append(f"\x1b[{w}X")
                if i < h - 1:
                    seq.append("\x1b[1B")
            if h > 1:
                seq.append(f"\x1b[{h - 1}A")
            output.write("".join(seq))

        def _handle_interrupted_draw_(self, render_data, render_args, output):
            self.log.append(("interrupted",))
            output.write("\x1b[m")
            output.flush()

    ns = type("NS", (), dict(TextR=TextR, TextRArgs=TextRArgs, ClearR=ClearR, make=staticmethod(make),
                             owners=_owners, GLYPHS=GLYPHS))
    _cache["ns"] = ns
    return ns
