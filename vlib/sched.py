"""Controlled thread scheduler and process model (DESIGN 2.6) - used by C14 and C15.

Scheduler
    Real `threading.Thread`s, exactly one runnable at a time: every task owns a baton (a
    `_thread` lock used as a binary semaphore); a task runs until it reaches a *scheduling point*
    where the `explore.Chooser` decides who continues.  Scheduling points:

      * every operation of the harness lock classes below: before acquire (the lock *reference*
        has already been loaded by the caller - the window the `with _tty_lock, _tty_lock` idiom
        exists for), after acquire, before release, after release;
      * every `line` event (`sys.settrace`, installed in each task thread) of frames whose code
        name is in `trace_names` (`lock_tty_wrapper`, `_process_start_wrapper`, ... and the
        probe bodies of the harness).

    Choice 0 = keep running the current task (if it is enabled), the other enabled tasks follow in
    canonical (task id) order and cost 1 each (a preemption).  When the current task is blocked or
    finished the switch is free (all alternatives cost 0).  A task waiting for a lock owned by
    another task is not enabled; "no enabled task, some unfinished" = deadlock: recorded, then
    every task is unwound with `SchedAbort`.

Locks
    `HThreadLock` stands for `threading.RLock`, `HProcLock` for `multiprocessing.RLock`, `HArray`
    for `multiprocessing.Array` (with its own `HProcLock`).  Two *distinct* classes, so that the
    library's `isinstance(_tty_lock, _rlock_type)` keeps its meaning.  Both are re-entrant and
    owned by a task (a simulated process is a task, too, so "owned by (process, thread)" of the
    real cross-process lock is the same thing).

Process model
    `ProcModel` executes the *real* `_process_start_wrapper` / `_process_run_wrapper`; only their
    `__wrapped__` are harness functions.  A child process is a task that runs against another
    instance of `term_image/utils.py` (loaded under another module name: own globals), initialised
    as the start method dictates (fork: copy of the parent's globals at the instant the wrapped
    `start` runs; spawn: import state), the process object is carried across as pickling / fork
    would carry it, cross-process lock objects are shared.
"""
from __future__ import annotations

import _thread
import importlib.util
import os
import sys
import threading
import traceback

from . import explore, world
from .world import HarnessError

ACTIVE = None       # the Scheduler whose run() is in progress (one per process at a time)

TRACE_NAMES = frozenset((
    "lock_tty_wrapper", "_process_start_wrapper", "_process_run_wrapper", "cached_wrapper",
    "terminal_size_cached_wrapper",
))


class SchedAbort(BaseException):
    """Raised inside every task when an execution is torn down (deadlock, step budget)."""


class Task:
    __slots__ = ("sched", "id", "name", "fn", "args", "proc", "sem", "state", "waiting", "result",
                 "exc", "tb", "thread", "aborted", "autostart", "last")

    def __init__(self, sched, tid, name, fn, args, proc, autostart):
        self.sched, self.id, self.name, self.fn, self.args, self.proc = sched, tid, name, fn, args, proc
        self.sem = _thread.allocate_lock()
        self.sem.acquire()
        self.state = "new"          # new -> ready -> done
        self.waiting = None         # the lock this task is blocked on
        self.result = None
        self.exc = None
        self.tb = None
        self.thread = None
        self.aborted = False
        self.autostart = autostart
        self.last = None            # kind of this task's previous scheduling event (for coalescing)

    def __repr__(self):
        return f"<task {self.id}:{self.name}>"


class _Worker:
    """A real thread that executes one task after the other (creating an OS thread costs ~160 us,
    three per execution would double the cost of an execution)."""

    def __init__(self):
        self.wake = _thread.allocate_lock()
        self.wake.acquire()
        self.job = None
        self.pid = os.getpid()
        self.thread = threading.Thread(target=self._loop, name="sched-worker", daemon=True)
        self.thread.start()

    def _loop(self):
        while True:
            self.wake.acquire()
            fn, arg = self.job
            self.job = None
            fn(arg)
            _POOL.append(self)


_POOL = []
_POOL_PID = None


def _get_worker():
    global _POOL_PID
    pid = os.getpid()
    if _POOL_PID != pid:        # forked worker process: the pool's threads do not exist here
        del _POOL[:]
        _POOL_PID = pid
    try:
        return _POOL.pop()
    except IndexError:
        return _Worker()


class Scheduler:
    def __init__(self, chooser, trace_names=(), max_steps=20000, record=True, coalesce=True):
        self.chooser = chooser
        self.coalesce = coalesce
        self.skipped = 0
        self.names = frozenset(TRACE_NAMES | frozenset(trace_names))
        self.tasks = []
        self.current = None
        self.aborting = False
        self.deadlock = None         # [(task name, lock label, owner name)] when detected
        self.steps = 0
        self.switches = 0
        self.preemptions = 0
        self.max_steps = max_steps
        self.trace = [] if record else None
        self.record = record
        self._mx = threading.Lock()
        self._live = 0
        self._done = _thread.allocate_lock()
        self._done.acquire()
        _HLock._seq = 0
        self.error = None            # HarnessError to re-raise in run()

    # ------------------------------------------------------------------ tasks
    def spawn(self, fn, name, args=(), proc=0, autostart=True):
        t = Task(self, len(self.tasks), name, fn, args, proc, autostart)
        self.tasks.append(t)
        return t

    def start_task(self, t):
        """Make a spawned task runnable (creates its real thread).  Called by run() for autostart
        tasks and by running tasks for the others (Thread.start / Process.start of the model)."""
        if t.state != "new":
            raise HarnessError(f"{t} started twice")
        t.state = "ready"
        with self._mx:
            self._live += 1
        w = _get_worker()
        t.thread = w
        w.job = (self._boot, t)
        w.wake.release()

    def _boot(self, t):
        t.sem.acquire()
        try:
            if self.aborting:
                raise SchedAbort()
            _clear_thread_locals()
            sys.settrace(self._gtrace)
            try:
                t.result = t.fn(*t.args)
            finally:
                sys.settrace(None)
        except SchedAbort:
            t.aborted = True
        except (HarnessError, explore.ReplayDivergence) as e:   # the harness is wrong: never a verdict
            t.aborted = True
            if self.error is None:
                self.error = e if isinstance(e, HarnessError) else HarnessError(f"sched: {e}")
            self._abort()
        except BaseException as e:  # noqa - reported by the check as an exception of the code under test
            t.exc = e
            t.tb = traceback.format_exc(limit=-6)
        t.state = "done"
        t.waiting = None
        self._finished(t)

    def _finished(self, t):
        if not self.aborting:
            if self.record:
                self.trace.append((t.id, "end"))
            en = self._enabled()
            if en:
                nxt = en[0]
                if len(en) > 1:
                    try:
                        nxt = en[self.chooser.choose(len(en), "end", costs=[0] * len(en))]
                    except explore.ReplayDivergence as e:
                        if self.error is None:
                            self.error = HarnessError(f"sched: {e}")
                        self._abort()
                        nxt = None
            if en and nxt is not None:
                self.current = nxt
                self.switches += 1
                with self._mx:
                    self._live -= 1
                nxt.sem.release()
                return
            if not self.aborting and any(x.state == "ready" for x in self.tasks):
                self._deadlock()
        with self._mx:
            self._live -= 1
            last = self._live == 0
        if last:
            self.current = None
            self._done.release()

    # ------------------------------------------------------------------ scheduling
    def _enabled(self):
        out = []
        for t in self.tasks:
            if t.state == "ready":
                w = t.waiting
                if w is None or w.owner is None or w.owner is t:
                    out.append(t)
        return out

    def point(self, label, kind="line"):
        """A scheduling point of the current task.

        Coalescing (sound: the skipped point is indistinguishable from the task's previous one, no
        instruction that touches shared state lies between them and the set of enabled tasks is
        the same): a `line` point directly after a lock operation completed (`acq!` / `rel!`), and
        a `rel?` point directly after a `line` or `rel!` point (the `with` exit: line event, then
        `__exit__` -> release, nothing in between)."""
        cur = self.current
        if cur is None:
            return
        if self.aborting:
            raise SchedAbort()
        last = cur.last
        cur.last = kind
        if self.coalesce:
            if kind == "line":
                if last == "acq!" or last == "rel!":
                    self.skipped += 1
                    return
            elif kind == "rel?":
                if last == "line" or last == "rel!":
                    cur.last = last
                    self.skipped += 1
                    return
        self.steps += 1
        if self.steps > self.max_steps:
            self.error = HarnessError(f"sched: more than {self.max_steps} scheduling points (livelock?)")
            self._abort()
            raise SchedAbort()
        if self.record:
            self.trace.append((cur.id, label))
        others = [t for t in self._enabled() if t is not cur]
        if not others:
            return
        c = self.chooser.choose(len(others) + 1, label)
        if c:
            self.preemptions += 1
            self._switch(cur, others[c - 1])

    def block(self, cur):
        """*cur* cannot proceed (lock held by another task): hand the baton on (free)."""
        if self.aborting:
            raise SchedAbort()
        if self.record:
            self.trace.append((cur.id, "blocked"))
        en = [t for t in self._enabled() if t is not cur]
        if not en:
            self._deadlock()
            raise SchedAbort()
        nxt = en[0]
        if len(en) > 1:
            nxt = en[self.chooser.choose(len(en), "blocked", costs=[0] * len(en))]
        self._switch(cur, nxt)

    def _switch(self, cur, nxt):
        self.switches += 1
        self.current = nxt
        nxt.sem.release()
        cur.sem.acquire()
        if self.aborting:
            raise SchedAbort()

    def _deadlock(self):
        self.deadlock = [(t.name, t.waiting.label if t.waiting is not None else None,
                          getattr(getattr(t.waiting, "owner", None), "name", repr(getattr(t.waiting, "owner", None))))
                         for t in self.tasks if t.state == "ready"]
        self._abort()

    def _abort(self):
        if self.aborting:
            return
        self.aborting = True
        cur = self.current
        for t in self.tasks:
            if t.state == "ready" and t is not cur:
                try:
                    t.sem.release()
                except RuntimeError:
                    pass

    def _gtrace(self, frame, event, arg):
        if frame.f_code.co_name in self.names:
            return self._ltrace
        return None

    def _ltrace(self, frame, event, arg):
        if event == "line":
            co = frame.f_code
            self.point((co.co_name, frame.f_lineno - co.co_firstlineno))
        return self._ltrace

    # ------------------------------------------------------------------ driver
    def run(self):
        """Run all autostart tasks (and whatever they start) to completion.  Called by the
        controlling (non-task) thread."""
        global ACTIVE
        if ACTIVE is not None:
            raise HarnessError("sched: nested run()")
        ACTIVE = self
        try:
            for t in self.tasks:
                if t.autostart and t.state == "new":
                    self.start_task(t)
            en = self._enabled()
            if not en:
                return self
            first = en[0]
            if len(en) > 1:
                first = en[self.chooser.choose(len(en), "first", costs=[0] * len(en))]
            self.current = first
            first.sem.release()
            self._done.acquire()
            if self.error:
                raise self.error
        finally:
            ACTIVE = None
            self.current = None
        return self

    def never_started(self):
        return [t for t in self.tasks if t.state == "new"]


# ---------------------------------------------------------------------------------- locks
class _Ghost:
    """Owner of a thread lock that was held by a thread that does not exist in a forked child."""
    name = "<thread that does not exist in this process>"

    def __repr__(self):
        return self.name


GHOST = _Ghost()
MAIN = "<unscheduled>"


class _HLock:
    kind = "?"
    _seq = 0

    def __init__(self, *a, **kw):
        self.owner = None
        self.count = 0
        _HLock._seq += 1           # reset by every new Scheduler: labels are per execution
        self.label = f"{self.kind}{_HLock._seq}"

    def acquire(self, blocking=True, timeout=-1):
        s = ACTIVE
        t = s.current if s is not None else None
        if t is None:                           # outside a controlled execution (setup / teardown)
            if self.owner not in (None, MAIN):
                raise HarnessError(f"unscheduled acquire of {self.label} owned by {self.owner}")
            self.owner = MAIN
            self.count += 1
            return True
        s.point(("acq?", self.label), "acq?")
        while self.owner is not None and self.owner is not t:
            if not blocking:
                return False
            t.waiting = self
            s.block(t)
        t.waiting = None
        self.owner = t
        self.count += 1
        s.point(("acq!", self.label), "acq!")
        return True

    def release(self):
        s = ACTIVE
        t = s.current if s is not None else None
        if t is None or s.aborting:
            if self.count > 0:
                self.count -= 1
                if self.count == 0:
                    self.owner = None
            return
        if self.owner is not t:
            raise RuntimeError(f"cannot release un-acquired lock {self.label} (owner {self.owner}, caller {t})")
        s.point(("rel?", self.label), "rel?")
        self.count -= 1
        if self.count == 0:
            self.owner = None
        s.point(("rel!", self.label), "rel!")

    __enter__ = acquire

    def __exit__(self, *exc):
        self.release()

    def __repr__(self):
        return f"<{type(self).__name__} {self.label} owner={self.owner} count={self.count}>"


class HThreadLock(_HLock):
    """threading.RLock"""
    kind = "T"

    def fork_copy(self, forking_task, child_task):
        """What a forked child sees: same state; the forking thread becomes the child's main
        thread, any other owner is a thread that does not exist in the child."""
        c = HThreadLock()
        c.label = self.label + "'"
        c.count = self.count
        if self.owner is None:
            c.owner = None
        elif self.owner is forking_task:
            c.owner = child_task
        else:
            c.owner = GHOST
        return c


class HProcLock(_HLock):
    """multiprocessing.RLock (shared between the simulated processes)"""
    kind = "P"


class HArray:
    """multiprocessing.Array('i', ...): shared, every access takes its (re-entrant) lock."""

    def __init__(self, typecode, init, lock=True):
        if typecode != "i":
            raise HarnessError(f"HArray: unexpected typecode {typecode!r}")
        self._obj = [int(v) for v in init]
        self._lock = HProcLock()

    def get_lock(self):
        return self._lock

    def get_obj(self):
        return self._obj

    def __len__(self):
        return len(self._obj)

    def __getitem__(self, i):
        with self._lock:
            return self._obj[i]

    def __setitem__(self, i, value):
        with self._lock:
            if isinstance(i, slice):
                value = list(value)
                if len(value) != len(self._obj[i]):
                    raise ValueError("Can only assign sequence of same size")
                for v in value:
                    if not isinstance(v, int):
                        raise TypeError(f"'{type(v).__name__}' object cannot be interpreted as an integer")
                self._obj[i] = value
            else:
                if not isinstance(value, int):
                    raise TypeError(f"'{type(value).__name__}' object cannot be interpreted as an integer")
                self._obj[i] = value

    def __iter__(self):
        return iter(self[:])

    def __repr__(self):
        return f"<HArray {self._obj} {self._lock.label}>"


# ---------------------------------------------------------------------------------- module instances
_SAVED = {}
_INSTANCES = {}
_LOCK_GLOBALS = ("RLock", "mp_RLock", "_rlock_type", "_tty_lock", "_cell_size_lock", "_cell_size_cache", "Array")
_MISSING = object()


def utils_instance(k):
    """k == 0: the library's own term_image.utils; k >= 1: another instance of the same file with
    its own globals (the module a child process would have)."""
    L = world.load()
    if k == 0:
        return L.utils
    m = _INSTANCES.get(k)
    if m is None:
        from multiprocessing import Process

        path = L.utils.__file__
        name = f"term_image._utils_proc{k}"
        saved = Process.start, Process.run
        spec = importlib.util.spec_from_file_location(name, path)
        m = importlib.util.module_from_spec(spec)
        try:
            spec.loader.exec_module(m)
        finally:
            Process.start, Process.run = saved   # the import wraps them when a tty exists
        if m.__file__ != path or m is L.utils or m._process_start_wrapper is L.utils._process_start_wrapper:
            raise HarnessError("second instance of utils.py is not separate")
        _INSTANCES[k] = m
        _PRISTINE[m] = _snap_globals(m)
    return m


_PRISTINE = {}      # utils instance -> (names at import, {name: simple value at import})


def _snap_globals(mod):
    ns = vars(mod)
    return frozenset(ns), {k: v for k, v in ns.items()
                           if not (k.startswith("__") and k.endswith("__")) and world._is_simple(v)}


def restore_pristine(mod):
    """Every simple-valued global of a utils instance back to its import-time value, names that did
    not exist at import deleted: no library state (e.g. a flag a changed library adds) survives
    from one execution - or one simulated process - into the next.  Harness seams are re-applied by
    the caller."""
    snap = _PRISTINE.get(mod)
    if snap is None:
        ws = getattr(world, "_lib_snap", {}).get(id(mod))      # the library's own module: import-time snapshot
        snap = (ws[1], dict(ws[2])) if ws is not None else _snap_globals(mod)
        _PRISTINE[mod] = snap
    names, simple = snap
    ns = vars(mod)
    for k in [k for k in ns if k not in names]:
        del ns[k]
    for k, v in simple.items():
        cur = ns.get(k, _MISSING)
        if cur is not v and (cur != v or type(cur) is not type(v)):
            ns[k] = v


def patch_instance(mod, tty):
    """Replace the lock seams of one utils instance by harness classes (fresh import state) and
    connect it to the virtual tty.  Idempotent; `restore_instances()` undoes it."""
    if mod not in _SAVED:
        saved = {g: mod.__dict__.get(g, _MISSING) for g in _LOCK_GLOBALS}
        for g in ("os", "select", "termios", "fcntl", "monotonic", "_tty_fd", "_get_terminal_size",
                  "_queries_enabled", "_swap_win_size", "_query_timeout"):
            saved[g] = mod.__dict__.get(g, _MISSING)
        saved["start_wrapped"] = mod._process_start_wrapper.__dict__.get("__wrapped__", _MISSING)
        saved["run_wrapped"] = mod._process_run_wrapper.__dict__.get("__wrapped__", _MISSING)
        _SAVED[mod] = saved
    restore_pristine(mod)
    mod.RLock = HThreadLock
    mod.mp_RLock = HProcLock
    mod._rlock_type = HThreadLock
    mod.Array = HArray
    import_state(mod)
    _rebind_aliases(mod)
    mod._tty_fd = world.TTY_FD
    mod.os = world._OsProxy(tty)
    mod.termios = world._TermiosProxy(tty)
    mod.fcntl = world._FcntlProxy(tty)
    mod.select = tty.select
    mod.monotonic = tty.monotonic
    mod._get_terminal_size = lambda *a, **k: tty.shutil_terminal_size()     # shutil's answer (stdout / COLUMNS)


_LOCALS = {}        # utils instance -> its threading.local globals


def _clear_thread_locals():
    """The OS threads are reused from one execution to the next, a task is a *new* thread of the
    simulated program: whatever the library keeps in `threading.local` objects of its utils
    instances must not survive in the worker thread that happens to run the task."""
    for mod in list(_SAVED):
        locs = _LOCALS.get(mod)
        if locs is None:
            locs = _LOCALS[mod] = [v for v in vars(mod).values() if isinstance(v, threading.local)]
        for loc in locs:
            loc.__dict__.clear()


_ALIASES = {}       # utils instance -> [(module, name, which global of the instance it aliased at import)]


def _rebind_aliases(mod):
    """Other library modules may have imported the lock / cache objects BY NAME (`from ..utils import
    _tty_lock`): such a name is bound to the import-time object for good.  Point it at this execution's
    import-state harness object, so that it is a scheduled lock and - as in reality - equals the
    module's lock until `_process_start_wrapper` rebinds `utils._tty_lock` and leaves the alias stale."""
    al = _ALIASES.get(mod)
    if al is None:
        al = []
        saved = _SAVED.get(mod, {})
        for which in ("_tty_lock", "_cell_size_lock", "_cell_size_cache"):
            orig = saved.get(which, _MISSING)
            if orig is _MISSING:
                continue
            for mname, m in list(sys.modules.items()):
                if m is None or m is mod or not mname.startswith("term_image") or "_utils_proc" in mname:
                    continue
                for k, v in list(vars(m).items()):
                    if v is orig:
                        al.append((m, k, which, orig))
        _ALIASES[mod] = al
    for m, k, which, orig in al:
        setattr(m, k, getattr(mod, which))


def import_state(mod):
    """The lock / cache / switch globals as a fresh import leaves them (with harness locks)."""
    mod._tty_lock = HThreadLock()
    mod._cell_size_cache = [0] * 4
    mod._cell_size_lock = HThreadLock()
    mod._queries_enabled = True
    mod._swap_win_size = False
    mod._query_timeout = 0.1
    for f in (mod.get_fg_bg_colors, mod.get_terminal_name_version):
        f._invalidate_cache()


def restore_instances():
    for mod, saved in list(_SAVED.items()):
        restore_pristine(mod)
        for m, k, which, orig in _ALIASES.pop(mod, ()):
            setattr(m, k, orig)
        for g, v in saved.items():
            if g == "start_wrapped":
                tgt, key = mod._process_start_wrapper, "__wrapped__"
            elif g == "run_wrapped":
                tgt, key = mod._process_run_wrapper, "__wrapped__"
            else:
                tgt, key = mod, g
            if v is _MISSING:
                try:
                    delattr(tgt, key)
                except AttributeError:
                    pass
            else:
                setattr(tgt, key, v)
        del _SAVED[mod]


# ---------------------------------------------------------------------------------- process model
class FakeProcess:
    """Stands for a multiprocessing.Process object: `target(model, proc)` is what run() executes in
    the child.  Attributes set by the library's wrappers travel to the child with the object."""

    def __init__(self, model, owner_pid, pid, target, method, name=None):
        self._model = model
        self._owner_pid = owner_pid      # process (module instance) that created the object
        self._pid = pid                  # the child it becomes
        self._target = target
        self._method = method
        self.name = name or f"proc{pid}"

    def start(self):
        """Process.start as the library patches it: the real wrapper of the owner's module."""
        return self._model.mod(self._owner_pid)._process_start_wrapper(self)


_CARRIED = ("_tty_lock", "_cell_size_cache")
_FORK_COPIED = ("_queries_enabled", "_swap_win_size", "_query_timeout")


class ProcModel:
    """Simulated processes of one execution.  pid 0 is the main process (term_image.utils itself),
    pid k the k-th child (instance k of utils.py)."""

    def __init__(self, sched, tty, npids):
        self.sched = sched
        self.tty = tty
        self.npids = npids
        self.children = {}      # pid -> (FakeProcess of the parent side, child task)
        self.started = []       # (parent pid, child pid, method)
        for k in range(npids):
            m = utils_instance(k)
            patch_instance(m, tty)
            m._process_start_wrapper.__wrapped__ = self._h_start
            m._process_run_wrapper.__wrapped__ = self._h_run

    def mod(self, pid):
        return utils_instance(pid)

    def process(self, owner_pid, pid, target, method):
        """Create the process object in process *owner_pid*; its child will be process *pid*."""
        if not 0 < pid < self.npids:
            raise HarnessError(f"ProcModel: pid {pid} out of range")
        p = FakeProcess(self, owner_pid, pid, target, method)
        child_side = FakeProcess(self, owner_pid, pid, target, method)
        task = self.sched.spawn(self._child_main, f"p{pid}", args=(child_side,), proc=pid, autostart=False)
        self.children[pid] = (p, child_side, task)
        return p

    # the harness side of Process.start: what fork()/spawn do, nothing else
    def _h_start(self, proc, *a, **kw):
        parent = self.mod(proc._owner_pid)
        child = self.mod(proc._pid)
        _, child_side, task = self.children[proc._pid]
        me = self.sched.current
        method = proc._method
        # the process object crosses over: spawn pickles it, fork copies the memory
        for k, v in vars(proc).items():
            if k.startswith("_") and k in ("_model", "_owner_pid", "_pid", "_target", "_method"):
                continue
            if isinstance(v, HThreadLock):
                if method == "spawn":
                    raise TypeError("cannot pickle '_thread.RLock' object")
                v = v.fork_copy(me, task)
            elif isinstance(v, list):
                v = list(v)
            setattr(child_side, k, v)
        if method == "fork":
            for g in ("_tty_lock", "_cell_size_lock"):
                v = getattr(parent, g)
                setattr(child, g, v.fork_copy(me, task) if isinstance(v, HThreadLock) else v)
            v = parent._cell_size_cache
            child._cell_size_cache = list(v) if isinstance(v, list) else v
            for g, v in list(vars(parent).items()):      # every plain value is copied with the memory
                if not (g.startswith("__") and g.endswith("__")) and world._is_simple(v):
                    setattr(child, g, v)
        elif method == "spawn":
            restore_pristine(child)                       # a fresh import ...
            child._tty_fd = world.TTY_FD                  # ... that found the same terminal
            import_state(child)
        else:
            raise HarnessError(f"start method {method!r}")
        self.started.append((proc._owner_pid, proc._pid, method))
        self.sched.start_task(task)

    def _child_main(self, child_side):
        # Process._bootstrap -> self.run(), i.e. the real run wrapper of the child's module
        return self.mod(child_side._pid)._process_run_wrapper(child_side)

    def _h_run(self, proc, *a, **kw):
        return proc._target(self, proc)


# ---------------------------------------------------------------------------------- exploration helper
def run_schedule(build, prefix=(), trace_names=(), max_steps=20000):
    """One controlled execution.  build(sched) creates the tasks (and returns anything the caller
    wants back).  Returns (chooser, sched, built)."""
    ch = explore.Chooser(prefix)
    s = Scheduler(ch, trace_names=trace_names, max_steps=max_steps)
    built = build(s)
    s.run()
    return ch, s, built


def selftest():
    """Lost update: two tasks doing x = x + 1 in two traced lines - schedules with 0 preemptions
    give 2, one preemption can give 1; with a harness lock around it always 2; lock-order
    inversion deadlocks in some schedule."""
    fails = []
    box = {}

    def probe_incr():
        v = box["x"]
        box["x"] = v + 1

    def locked_incr():
        with box["lock"]:
            v = box["x"]
            box["x"] = v + 1

    def ab():
        with box["a"]:
            with box["b"]:
                pass

    def ba():
        with box["b"]:
            with box["a"]:
                pass

    def explore_all(fns, bound, names):
        outcomes, dead = set(), 0
        execs = 0

        def run(ch):
            nonlocal dead, execs
            s = Scheduler(ch, trace_names=names)
            box["x"] = 0
            box["lock"], box["a"], box["b"] = HThreadLock(), HThreadLock(), HProcLock()
            for i, f in enumerate(fns):
                s.spawn(f, f"t{i}")
            s.run()
            execs += 1
            if s.deadlock:
                dead += 1
            else:
                outcomes.add(box["x"])
            return None

        explore.ChoiceTree(run, bound).explore()
        return outcomes, dead, execs

    o, d, n0 = explore_all([probe_incr, probe_incr], 0, ("probe_incr",))
    if o != {2} or d:
        fails.append(f"sched lost-update bound 0: {o} deadlocks={d}")
    o, d, n1 = explore_all([probe_incr, probe_incr], 1, ("probe_incr",))
    if o != {1, 2} or d or n1 <= n0:
        fails.append(f"sched lost-update bound 1: {o} deadlocks={d} execs={n1}")
    o, d, _ = explore_all([locked_incr, locked_incr, locked_incr], 2, ("locked_incr",))
    if o != {3} or d:
        fails.append(f"sched locked increments: {o} deadlocks={d}")
    o, d, _ = explore_all([ab, ba], 1, ("ab", "ba"))
    if not d:
        fails.append("sched lock-order inversion: no deadlock found within 1 preemption")
    # determinism: the same prefix twice gives the same trace
    def build(s):
        box["x"] = 0
        s.spawn(probe_incr, "a")
        s.spawn(probe_incr, "b")
    _, s1, _ = run_schedule(build, [0, 1], ("probe_incr",))
    _, s2, _ = run_schedule(build, [0, 1], ("probe_incr",))
    if s1.trace != s2.trace:
        fails.append("sched: replay of one schedule gave two traces")
    if not isinstance(HThreadLock(), HThreadLock) or isinstance(HProcLock(), HThreadLock):
        fails.append("sched: lock classes not distinct")
    return fails
